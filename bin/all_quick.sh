#!/bin/bash
# bin/all_quick.sh [tier] [J] — run every claimed check (J at a time), print one summary line each; exit 1 if any is non-zero
cd "$(dirname "$0")/.." || exit 2
tier="${1:-quick}"; J="${2:-4}"
out=$(mktemp -d)
ls harness | grep -o '^c[0-9][0-9]' | sort -u | tr a-z A-Z | xargs -P "$J" -I{} sh -c "bin/check {} --tier $tier > $out/{}.log 2>&1; echo \$? > $out/{}.rc"
bad=0
for f in "$out"/*.rc; do p=$(basename "$f" .rc); rc=$(cat "$f"); [ "$rc" != 0 ] && bad=1
  echo "$p rc=$rc $(grep -E '^\[C' "$out/$p.log" | tail -1) known=$(grep -c '^KNOWN-FINDING' "$out/$p.log") viol=$(grep -c '^VIOLATION' "$out/$p.log")"
  [ "$rc" != 0 ] && grep -E "VIOLATION|INFRA|Error" "$out/$p.log" | head -5
done
rm -rf "$out"; exit $bad
