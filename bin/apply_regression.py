#!/usr/bin/env python3
"""bin/apply_regression.py <log of bin/seeded_par.sh> <label> — write the regression result of each listed seeded change
into its meta.json (confirmed_by_me.final_regression, and detected := true when the check exits 1 with VIOLATION lines)."""
import json, re, sys
from pathlib import Path
log, label = sys.argv[1], sys.argv[2]
n = d = 0
for line in open(log):
    m = re.match(r"^(C\d\d-\d+): (.*)$", line.rstrip())
    if not m:
        continue
    sid, rest = m.groups()
    f = Path("/verif/seeded") / sid / "meta.json"
    if not f.exists():
        continue
    meta = json.loads(f.read_text())
    c = meta.setdefault("confirmed_by_me", {})
    mm = re.match(r"exit=(\d+) violations=(\d+)\s*(.*)", rest)
    if mm:
        rc, viol, txt = int(mm.group(1)), int(mm.group(2)), mm.group(3)
        ok = rc == 1 and viol > 0
        c["final_regression"] = (f"detected on {label} by the quick tier (exit={rc} violations={viol}): {txt}" if ok
                                 else f"NOT detected on {label} (exit={rc} violations={viol}) {txt}")
        if ok:
            c["detected"] = True
            d += 1
    else:
        c["final_regression"] = f"{label}: {rest}"
    n += 1
    f.write_text(json.dumps(meta, indent=1))
print(n, "entries updated,", d, "detected")
