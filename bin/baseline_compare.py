#!/usr/bin/env python3
"""compare a junit xml of /repo's suite with /root/.vp/BASELINE.json: every stable-pass test must still pass"""
import json, sys, xml.etree.ElementTree as ET
base = set(json.load(open("/root/.vp/BASELINE.json"))["stable_pass"])
passed, failed = set(), set()
for tc in ET.parse(sys.argv[1]).getroot().iter("testcase"):
    tid = f"{tc.get('classname')}::{tc.get('name')}"
    bad = any(c.tag in ("failure", "error", "skipped") for c in tc)
    (failed if bad else passed).add(tid)
missing = sorted(base - passed)
print(f"baseline={len(base)} passed_now={len(passed)} failed_now={len(failed)} baseline_not_passing={len(missing)} newly_passing={len(passed - base)}")
for m in missing[:40]:
    print("  REGRESSION", m, "(failed)" if m in failed else "(absent)")
sys.exit(1 if missing else 0)
