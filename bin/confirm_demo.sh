#!/bin/bash
# bin/confirm_demo.sh <worktree> <outdir> — run each mutant's demo.py on the clean worktree (expect exit 0) and with the patch (expect exit 1)
wt="$1"; dir="$2"; export OMP_NUM_THREADS=1 MKL_NUM_THREADS=1
for k in 1 2 3; do
  d="$dir/mutant_$k"; [ -f "$d/patch.diff" ] || continue
  (cd "$wt" && AGILERL_ROOT="$wt" timeout 600 /venv/bin/python "$d/demo.py" >/dev/null 2>&1); c=$?
  git -C "$wt" apply "$d/patch.diff"
  (cd "$wt" && AGILERL_ROOT="$wt" timeout 600 /venv/bin/python "$d/demo.py" >/dev/null 2>&1); m=$?
  git -C "$wt" checkout -q -- .; git -C "$wt" clean -fdq >/dev/null 2>&1
  echo "$(basename $dir) mutant $k: clean exit=$c patched exit=$m"
done
