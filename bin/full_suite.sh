#!/bin/bash
# run /repo's whole suite (or the suite of the tree given as $1) split over parallel pytest processes and
# compare with the recorded baseline: every stable-pass test must still pass
tree="${1:-/repo}"; out="${2:-/tmp/full_suite}"; mkdir -p "$out"; rm -f "$out"/*.xml
cd "$tree" || exit 2
parts=(tests/test_algorithms/test_ippo.py tests/test_algorithms/test_maddpg.py tests/test_algorithms/test_matd3.py
       "tests/test_algorithms/test_base.py tests/test_algorithms/test_dqn.py tests/test_algorithms/test_dqn_rainbow.py tests/test_algorithms/test_cqn.py tests/test_algorithms/test_wrappers.py"
       "tests/test_algorithms/test_ppo.py tests/test_algorithms/test_ddpg.py tests/test_algorithms/test_td3.py tests/test_algorithms/test_neural_ts.py tests/test_algorithms/test_neural_ucb.py tests/test_algorithms/test_grpo.py tests/test_algorithms/test_ilql.py"
       tests/test_hpo tests/test_train "tests/test_modules tests/test_networks"
       "tests/test_components tests/test_utils tests/test_wrappers tests/test_vector tests/test_data.py")
i=0
for p in "${parts[@]}"; do
  i=$((i+1))
  ( env -u AGILERL_VERIF OMP_NUM_THREADS=2 /venv/bin/python -m pytest -q -p no:cacheprovider --timeout=900 --continue-on-collection-errors --junitxml="$out/part$i.xml" $p > "$out/part$i.log" 2>&1 ) &
done
wait
python3 - "$out" <<'PY'
import sys, glob, json, xml.etree.ElementTree as ET
base = set(json.load(open("/root/.vp/BASELINE.json"))["stable_pass"])
passed, failed = set(), set()
for f in glob.glob(sys.argv[1] + "/part*.xml"):
    for tc in ET.parse(f).getroot().iter("testcase"):
        tid = f"{tc.get('classname')}::{tc.get('name')}"
        (failed if any(c.tag in ("failure", "error", "skipped") for c in tc) else passed).add(tid)
missing = sorted(base - passed)
print(f"baseline={len(base)} passed_now={len(passed)} failed_now={len(failed)} baseline_not_passing={len(missing)} newly_passing={len(passed-base)}")
for m in missing[:60]:
    print("  REGRESSION", m, "(failed)" if m in failed else "(absent)")
sys.exit(1 if missing else 0)
PY
