#!/usr/bin/env python3
"""(re)generate MANIFEST.json from the table below; validates against the schema"""
import json
from pathlib import Path

ROOT = Path(__file__).resolve().parent.parent

COMMON_NOTE = ("Trusted: Lean 4.33 kernel (thorough tier: + leanchecker), axioms propext / Quot.sound / Classical.choice only, "
               "the hand-written model in lean/Model (tied to /repo by the correspondence run on every invocation, not by "
               "translation), the Python harness (generators, canonicalisers, driver parser), Python/torch/numpy semantics. "
               "Theorems are unbounded; the correspondence and the oracle are sampled.")

CLAIMS = {
    "C01": dict(
        text="Lean theorems (lean/Props/C01.lean) over a heap model with object identity prove, for every rule table and every "
             "history of clone / in-place write / rebind / discard, the ownership invariant (a cell reached through a private "
             "attribute belongs to exactly one agent), the frame property (training or mutating one agent changes no other "
             "agent's view) and value-faithfulness of clone attribute by attribute; a witness theorem shows the unrepaired "
             "optimizer handling violates it. The model's rule table is that of clone()/copy_attributes; on every run a walker "
             "measures real cross-agent aliasing and value fingerprints for all eleven algorithms along random histories and "
             "diffs them with the model; the statement itself (same greedy action, same k-step update, nobody else changes) is "
             "evaluated as oracle. In addition harness/py2lean_clone.py translates the provenance of every value that clone(), "
             "copy_attributes, inspect_attributes and AgentWrapper.clone hand to the new agent into lean/Gen/CloneGen.lean on every "
             "run; Proofs/CloneGenEq.lean proves the model's rule table equal to the one derived from the generated phases and "
             "eight C01_source_translation_* theorems restate ownership, frame and faithfulness for the generated table.",
        note=COMMON_NOTE + " Numerics of learn steps are opaque (value ids); that the walker reaches every mutable object is an assumption.",
        technique="Lean 4 proof (ownership invariant + frame lemma by induction over op histories) + alias/value correspondence on real agents "
                  "+ source-to-Lean translation of clone / copy_attributes (rule table derived from the source on every run)",
        ref="DESIGN.md §3 C01"),
    "C09": dict(
        text="Lean theorems (lean/Props/C09.lean) prove for every capacity and every sequence of batched additions that the "
             "ring-buffer model holds exactly the last min(cap,count) transitions at slots k mod cap, that len = min(cap,count), "
             "that uniform samples are stored and distinct, that clear resets, and that the bounded deque of the multi-agent "
             "buffer is the last-N suffix; the model is tied to the real ReplayBuffer / MultiAgentReplayBuffer by differential "
             "op-sequence runs on every invocation, with an independent last-N oracle. In addition harness/py2lean_ring.py "
             "translates the source text of ReplayBuffer.{add,clear,sample,__len__} and of the MultiAgentReplayBuffer deque logic "
             "into lean/Gen/RingGen.lean on every run; Proofs/RingGenEq.lean proves the generated definitions equal to the model "
             "and seven C09_source_translation_* theorems restate the property over them.",
        note=COMMON_NOTE + " Ids are encoded in every field of a transition, so decoded-id equality stands for 'fields belong together'.",
        technique="Lean 4 proof (induction over op sequences, refinement to last-N history) + model/implementation correspondence "
                  "+ source-to-Lean translation of the buffer code re-proved equal to the model on every run",
        ref="DESIGN.md §3 C09"),
    "C10": dict(
        text="Lean theorems (lean/Props/C10.lean, 18) over Model/NStep.lean prove for every window, stream, n, discount and number "
             "of environments: the fused record is the discounted sum over the first k rows (k = 1 + index of the first row with "
             "any done, row 0 included, capped at n) with next_obs/done of row k-1 and obs/action of row 0; nothing after a "
             "terminal row enters it (also across arbitrary streams); the k-th n-step record and the k-th 1-step record describe "
             "the same (obs, action), lifted through wrap-around of both buffers with the C09 ring theorems; witness theorems "
             "record the unrepaired behaviour. The real MultiStepReplayBuffer + ReplayBuffer/PER are driven exactly as "
             "train_off_policy does and diffed with the model; an independent exact-Fraction oracle states the property. In addition "
             "harness/py2lean_nstep.py translates the source text of MultiStepReplayBuffer.add/_get_n_step_info into "
             "lean/Gen/NStepGen.lean on every run; Proofs/NStepGenEq.lean proves it equal to the model (fold over any stream = run) "
             "and five C10_source_translation_* theorems restate the property over the generated definitions.",
        note=COMMON_NOTE + " Not covered: train_off_policy passes only `done` (not truncation) and never clears the deque at env.reset(); "
             "index alignment needs equal capacities (witness theorem).",
        technique="Lean 4 proof (induction over streams, reuse of the C09 ring refinement) + model/implementation correspondence "
                  "+ source-to-Lean translation of the n-step code re-proved equal to the model on every run",
        ref="DESIGN.md §3 C10"),
    "C11": dict(
        text="Lean theorems (lean/Props/C11.lean, 17) over Model/SegTree.lean prove for every capacity and every legal op sequence: "
             "the segment-tree invariant, root = fold of leaves (sum and min), operate(range) = fold over the range, the retrieve "
             "specification prefix(i) <= u < prefix(i)+leaf(i) (so only stored, positive leaves are returned and index i owns an "
             "interval of length p_i^alpha), tree_ptr = cursor, new items get max priority, weights in (0,1] for any positive "
             "antitone x^-beta (instantiated with Real.rpow). The real SumSegmentTree/MinSegmentTree/PrioritizedReplayBuffer are "
             "driven with interleaved add/update/sample/retrieve ops on dyadic priorities (exact float = exact Rat) and diffed; "
             "an independent oracle recomputes sums, minima, prefix intervals and weights.",
        note=COMMON_NOTE + " Float rounding inside the tree is outside the theorems (exact rationals); one analysed float edge of a direct "
             "retrieve() call is a known finding. No statistical test of sampling frequencies.",
        technique="Lean 4 proof (tree invariant by induction over ops, retrieve spec by induction on depth) + exact dyadic correspondence",
        ref="DESIGN.md §3 C11"),
}


def main():
    props = [json.loads(l) for l in open(ROOT / "properties.jsonl")]
    extra = ROOT / "bin" / "claims.json"
    if extra.exists():
        CLAIMS.update(json.loads(extra.read_text()))
    m = {
        "version": 1,
        "setup_cmd": "cd lean && lake build",
        "hooks": {
            "guard": "AGILERL_VERIF",
            "enable": "harness/common.py sets AGILERL_VERIF=1 in its own process before importing agilerl from /repo",
            "baseline_off_cmd": "cd /repo && env -u AGILERL_VERIF /venv/bin/python -m pytest -ra -q -p no:cacheprovider --timeout=900 --continue-on-collection-errors",
            "source_commits": json.loads((ROOT / "bin" / "hook_commits.json").read_text()) if (ROOT / "bin" / "hook_commits.json").exists() else [],
            "add_only": True,
        },
        "engines": [{
            "name": "lean4-model+correspondence", "path": "bin/check",
            "serves_properties": sorted(CLAIMS),
            "kind_free_text": "Lean 4 theorems over hand-written executable models (lean/Model, lean/Proofs, lean/Props) + differential "
                              "correspondence of the compiled model driver against the real Python implementation (harness/)"}],
        "checks": [], "not_applicable": [],
        "notes": "see DESIGN.md; known_findings.json lists recorded and repaired defects",
    }
    add_file = ROOT / "bin" / "claims_add.json"
    adds = json.loads(add_file.read_text()) if add_file.exists() else {}
    import re
    for p in props:
        pid = p["id"]
        if pid in CLAIMS:
            c = dict(CLAIMS[pid])
            # the number of property theorems is counted from the source, not kept by hand
            src = (ROOT / "lean" / "Props" / f"{pid}.lean").read_text()
            n = len(re.findall(rf"^theorem {pid}_", src, flags=re.M))
            c["text"] = re.sub(rf"\(lean/Props/{pid}\.lean, \d+\)", f"(lean/Props/{pid}.lean, {n})", c["text"])
            c["text"] = re.sub(rf"\(lean/Props/{pid}\.lean\)", f"(lean/Props/{pid}.lean, {n})", c["text"])
            if pid in adds:
                c["text"] = c["text"] + " " + adds[pid]["text"]
                c["technique"] = c["technique"] + adds[pid].get("technique", "")
            m["checks"].append({
                "property_id": pid,
                "quick_cmd": f"bin/check {pid} --tier quick",
                "thorough_cmd": f"bin/check {pid} --tier thorough",
                "evidence_file": f"evidence/{pid}.json",
                "replay_cmd_template": f"bin/check {pid} --replay {{path}}",
                "engine": "lean4-model+correspondence",
                "level_claimed": {"category": "proof", "text": c["text"], "design_ref": c["ref"]},
                "level_note": c["note"],
                "technique": c["technique"],
            })
        else:
            m["not_applicable"].append({"property_id": pid, "reason": "check not integrated yet in this commit (work in progress; see DESIGN.md §4) — not a claim that the technique cannot apply"})
    (ROOT / "MANIFEST.json").write_text(json.dumps(m, indent=1))
    try:
        import jsonschema
        jsonschema.validate(m, json.load(open("/root/.vp/MANIFEST.schema.json")))
        print("MANIFEST valid;", len(m["checks"]), "checks")
    except ImportError:
        print("MANIFEST written (jsonschema not available to validate);", len(m["checks"]), "checks")


if __name__ == "__main__":
    main()
