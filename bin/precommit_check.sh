#!/bin/bash
# bin/precommit_check.sh — before committing /verif: every lean/Gen/*Gen.lean must be the translation of /repo HEAD,
# /repo's working tree must be clean, `lake build` must succeed, MANIFEST must validate.
cd "$(dirname "$0")/.." || exit 2
bad=0
[ -n "$(git -C /repo status --short)" ] && { echo "/repo working tree not clean"; bad=1; }
for f in harness/py2lean_*.py; do
  o=$(python3 "$f"); echo "$o" | grep -q "unchanged" || { echo "REGENERATED: $o"; bad=1; }
done
(cd lean && lake build 2>&1 | grep -E "error:|Build completed" | tail -3)
(cd lean && lake build >/dev/null 2>&1) || { echo "lake build FAILED"; bad=1; }
python3-vt - <<'PY' || bad=1
import json, jsonschema
jsonschema.validate(json.load(open('MANIFEST.json')), json.load(open('/root/.vp/MANIFEST.schema.json'))); print("MANIFEST valid")
PY
exit $bad
