#!/usr/bin/env python3
"""
Set up a further round of seeded-change production for the given properties (maintenance helper, never
run by a check).  For each property: a scratch worktree of /repo HEAD under /tmp, the property text,
the summaries of the changes already in seeded/ (so that the new ones differ), and the prompt for a
fresh sub-agent, which sees nothing of /verif.

usage: bin/round_setup.py <round-number> Cxx [Cxx ...]
"""
import json
import subprocess
import sys
from pathlib import Path

ROOT = Path(__file__).resolve().parent.parent
TESTS = {
    "C01": "tests/test_algorithms/test_base.py tests/test_algorithms/test_dqn.py tests/test_algorithms/test_wrappers.py tests/test_hpo",
    "C02": "tests/test_hpo tests/test_algorithms/test_base.py tests/test_algorithms/test_wrappers.py",
    "C03": "tests/test_modules tests/test_networks",
    "C04": "tests/test_modules tests/test_networks tests/test_hpo/test_mutation.py",
    "C05": "tests/test_hpo/test_tournament.py tests/test_algorithms/test_base.py tests/test_train/test_train.py",
    "C06": "tests/test_hpo tests/test_algorithms/test_base.py tests/test_algorithms/test_wrappers.py",
    "C07": "tests/test_algorithms/test_base.py tests/test_algorithms/test_dqn.py tests/test_algorithms/test_ddpg.py tests/test_wrappers tests/test_algorithms/test_wrappers.py tests/test_algorithms/test_neural_ucb.py",
    "C08": "tests/test_algorithms/test_dqn.py tests/test_algorithms/test_cqn.py tests/test_algorithms/test_ddpg.py tests/test_algorithms/test_td3.py tests/test_algorithms/test_dqn_rainbow.py",
    "C09": "tests/test_components tests/test_train/test_train.py",
    "C10": "tests/test_components tests/test_algorithms/test_dqn_rainbow.py tests/test_train/test_train.py",
    "C11": "tests/test_components tests/test_algorithms/test_dqn_rainbow.py tests/test_train/test_train.py",
    "C12": "tests/test_wrappers tests/test_train/test_train.py",
    "C13": "tests/test_train/test_train.py -k multi",
    "C14": "tests/test_algorithms/test_dqn.py tests/test_algorithms/test_cqn.py tests/test_algorithms/test_dqn_rainbow.py tests/test_algorithms/test_ddpg.py tests/test_algorithms/test_td3.py tests/test_algorithms/test_neural_ucb.py tests/test_algorithms/test_neural_ts.py tests/test_networks/test_actors.py",
    "C15": "tests/test_utils/test_algo_utils.py tests/test_algorithms/test_base.py tests/test_algorithms/test_dqn.py",
    "C16": "tests/test_networks tests/test_algorithms/test_ppo.py",
    "C17": "tests/test_algorithms/test_ppo.py tests/test_algorithms/test_ippo.py tests/test_utils/test_algo_utils.py tests/test_train/test_train.py",
    "C18": "tests/test_algorithms/test_dqn_rainbow.py tests/test_networks/test_q_networks.py tests/test_train/test_train.py",
    "C19": "tests/test_algorithms/test_neural_ucb.py tests/test_algorithms/test_neural_ts.py tests/test_hpo/test_mutation.py -k \"bandit or neural or Neural\"",
    "C20": "tests/test_train/test_train.py tests/test_utils/test_utils.py tests/test_components/test_sampler.py",
}


def main():
    rnd = int(sys.argv[1])
    props = {json.loads(l)["id"]: json.loads(l) for l in open(ROOT / "properties.jsonl")}
    base = (ROOT / "seeded" / "PROMPT_round2.txt").read_text()
    for pid in sys.argv[2:]:
        p = props[pid]
        tag = f"mut{rnd}_{pid}"
        wt = Path("/tmp") / tag
        subprocess.run(["git", "-C", "/repo", "worktree", "add", "-q", "--detach", str(wt), "HEAD"], check=True)
        Path(f"/tmp/{tag}_out").mkdir(exist_ok=True)
        a = p["anchors"]
        text = [f"{pid}: {p['title']}", "", "STATEMENT: " + p["statement"], "",
                "QUANTIFIED OVER: " + p["quantifier"]["text"], "",
                "RELEVANT CODE: " + ", ".join(a.get("files", []))]
        for s in a.get("mechanism", []) or []:
            text.append(f"  - {s['name']} @ {s['where']}")
        Path(f"/tmp/{tag}.PROPERTY.txt").write_text("\n".join(text) + "\n")
        already = []
        for d in sorted((ROOT / "seeded").glob(f"{pid}-*")):
            m = json.loads((d / "meta.json").read_text())
            already.append(f"- {m['summary']}\n  (needs: {m['needs_to_manifest']})")
        Path(f"/tmp/{tag}.ALREADY.txt").write_text("\n".join(already) + "\n")
        prompt = (base.replace("mut2_@P@", tag).replace("/tmp/mut_@P@.ALREADY.txt", f"/tmp/{tag}.ALREADY.txt")
                  .replace("@P@", pid).replace("@TESTS@", TESTS[pid])
                  .replace("SECOND ROUND: three changes", f"ROUND {rnd}: {len(already)} changes")
                  .replace("produce three NEW changes", "produce three NEW changes (numbered mutant_1..3 again)"))
        Path(f"/tmp/{tag}.PROMPT.txt").write_text(prompt)
        print(tag, "ready:", len(already), "earlier changes listed")


if __name__ == "__main__":
    main()
