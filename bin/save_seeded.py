#!/usr/bin/env python3
"""save_seeded.py Cxx /tmp/mut_Cxx_out "k:how it is detected" ... — copy confirmed seeded changes into seeded/Cxx-k/"""
import json, shutil, sys
from pathlib import Path
args = sys.argv[1:]
offset = 0
if args[0] == "--offset":
    offset = int(args[1]); args = args[2:]
pid, src = args[0], Path(args[1])
notes = dict(a.split(":", 1) for a in args[2:])
for k, how in notes.items():
    d = Path("/verif/seeded") / f"{pid}-{int(k) + offset}"
    d.mkdir(parents=True, exist_ok=True)
    for f in ("patch.diff", "demo.py"):
        shutil.copy(src / f"mutant_{k}" / f, d / f)
    m = json.loads((src / f"mutant_{k}" / "meta.json").read_text())
    m["confirmed_by_me"] = {
        "demo": "fails with the patch / passes without; existing tests unchanged (sub-agent run, result sets diffed)",
        "check_run": f"git -C /repo apply patch.diff; bin/check {pid} --tier quick; git -C /repo checkout -- .",
        "detected": not how.startswith("MISSED"), "detected_by": how}
    (d / "meta.json").write_text(json.dumps(m, indent=1))
print("saved", len(notes))
