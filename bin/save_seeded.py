#!/usr/bin/env python3
"""save_seeded.py Cxx /tmp/mut_Cxx_out "k:how it is detected" ... — copy confirmed seeded changes into seeded/Cxx-k/"""
import json, shutil, sys
from pathlib import Path
pid, src = sys.argv[1], Path(sys.argv[2])
notes = dict(a.split(":", 1) for a in sys.argv[3:])
for k, how in notes.items():
    d = Path("/verif/seeded") / f"{pid}-{k}"
    d.mkdir(parents=True, exist_ok=True)
    for f in ("patch.diff", "demo.py"):
        shutil.copy(src / f"mutant_{k}" / f, d / f)
    m = json.loads((src / f"mutant_{k}" / "meta.json").read_text())
    m["confirmed_by_me"] = {
        "demo": "fails with the patch / passes without; existing tests unchanged (sub-agent run, result sets diffed)",
        "check_run": f"git -C /repo apply patch.diff; bin/check {pid} --tier quick; git -C /repo checkout -- .",
        "detected": not how.startswith("MISSED"), "detected_by": how}
    (d / "meta.json").write_text(json.dumps(m, indent=1))
print("saved", len(notes))
