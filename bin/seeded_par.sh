#!/bin/bash
# Regression over the whole seeded set, in parallel and without touching /repo's working tree:
# J scratch worktrees of /repo HEAD are made under $SCRATCH (default /tmp), each takes whole properties
# (so evidence files never collide), applies seeded/<id>/patch.diff, runs the property's quick check
# with VERIF_REPO pointing at the worktree, undoes the patch.  Worktrees are removed at the end.
# usage: [SEEDED_FILTER=regex] bin/seeded_par.sh [J] [Cxx ...]     output: one line per seeded change, sorted
# (SEEDED_FILTER e.g. '-1[3-5]$' = round 5 only)
cd "$(dirname "$0")/.." || exit 2
J="${1:-6}"; shift
props=("$@"); [ ${#props[@]} -eq 0 ] && props=($(ls seeded | grep -o '^C[0-9]*' | sort -u))
SCRATCH="${SCRATCH:-/tmp}"
out="$SCRATCH/seeded_par.$$"; mkdir -p "$out"
worker() {
  w="$1"; wt="$SCRATCH/seedwt_$$_$w"
  git -C /repo worktree add -q --detach "$wt" HEAD || exit 2
  i=0
  for pid in "${props[@]}"; do
    i=$((i+1)); [ $(( (i-1) % J )) -eq "$w" ] || continue
    for s in $(ls seeded | grep "^$pid-" | grep -E -e "${SEEDED_FILTER:-.}"); do
      [ -f "seeded/$s/patch.diff" ] || continue
      if ! git -C "$wt" apply --check "$PWD/seeded/$s/patch.diff" 2>/dev/null; then echo "$s: patch does not apply to HEAD" >> "$out/$w"; continue; fi
      git -C "$wt" apply "$PWD/seeded/$s/patch.diff"
      o=$(VERIF_REPO="$wt" bin/check "$pid" --tier quick --no-gate 2>&1); rc=$?
      git -C "$wt" checkout -q -- . ; git -C "$wt" clean -fdq >/dev/null 2>&1
      echo "$s: exit=$rc violations=$(echo "$o" | grep -c '^VIOLATION')  $(echo "$o" | grep -A1 '^VIOLATION' | sed -n 2p | cut -c1-140)" >> "$out/$w"
    done
  done
  git -C /repo worktree remove --force "$wt"
}
for w in $(seq 0 $((J-1))); do worker "$w" & done
wait
git -C /repo worktree prune
cat "$out"/* | sort -V
rm -rf "$out"
