#!/bin/bash
# bin/seeded_par_iso.sh [J] [Cxx ...] — bin/seeded_par.sh run from a private copy of the COMMITTED /verif
# (so that the generated files and evidence of /verif itself are not rewritten); honours SEEDED_FILTER.
copy="${SCRATCH:-/tmp}/verif_par_$$"; rm -rf "$copy"; mkdir -p "$copy"
git -C /verif archive HEAD | tar -x -C "$copy"
cp -r /verif/lean/.lake "$copy/lean/.lake"
( cd "$copy/lean" && lake build >/dev/null 2>&1 ) || { echo "copy does not build"; exit 2; }
( cd "$copy" && bin/seeded_par.sh "$@" )
rm -rf "$copy"
