#!/bin/bash
# apply every seeded change under seeded/<id>/patch.diff to /repo in turn, run the property's quick check,
# undo it, and report whether it was detected.   usage: bin/seeded_run.sh [Cxx-k ...]
cd "$(dirname "$0")/.." || exit 2
if [ -n "$(git -C /repo status --short)" ]; then echo "/repo working tree not clean"; exit 2; fi
list=("$@"); [ ${#list[@]} -eq 0 ] && list=($(ls seeded))
for s in "${list[@]}"; do
  pid="${s%%-*}"
  if ! git -C /repo apply --check "seeded/$s/patch.diff" 2>/dev/null; then echo "$s: patch does not apply to current /repo HEAD"; continue; fi
  git -C /repo apply "seeded/$s/patch.diff"
  out=$(bin/check "$pid" --tier quick --no-gate 2>&1); rc=$?
  git -C /repo checkout -- . ; git -C /repo clean -fdq -- agilerl >/dev/null 2>&1
  n=$(echo "$out" | grep -c '^VIOLATION')
  echo "$s: exit=$rc violations=$n  $(echo "$out" | grep -A1 '^VIOLATION' | sed -n 2p | cut -c1-160)"
done
