#!/usr/bin/env python3
"""
Maintenance helper (never run by a check): bring known_findings.json's `fixed` entries and its
"fixed: property=<id> <commit> <what>" log in line with the "fix:" commits of /repo.
The table maps the beginning of a commit subject to (property, finding id used by the probes).
"""
import json
import subprocess
from pathlib import Path

ROOT = Path(__file__).resolve().parent.parent
TABLE = [
    ("fix: MultiAgentReplayBuffer counts environments", "C09", "C09-ma-vect-dict-obs"),
    ("fix: share_encoder_parameters recognises", "C20", "C20-py312-protocol-isinstance"),
    ("fix: share_encoder_parameters still accepts", "C20", "C20-py312-protocol-isinstance-followup"),
    ("fix: critics re-synchronise", "C17", "C17-stale-shared-encoder-bootstrap"),
    ("fix: clone() gives the copy its own optimizer state", "C01", "C01-optimizer-state-aliased"),
    ("fix: a network built from an encoder config", "C05", "C05-clone-encoder-output-activation"),
    ("fix: n-step window that starts on a terminal", "C10", "C10-window-starts-on-terminal"),
    ("fix: Rainbow projection clamps", "C18", "C18-float32-top-atom-overflow"),
    ("fix: Rainbow loss indexes", "C18", "C18-batch-size-broadcast"),
    ("fix: neural bandits start from the inverse", "C19", "C19-lambda-not-inverted"),
    ("fix: hyperparameter mutation starts", "C06", "C06-shared-config-cached-value"),
    ("fix: a mutated learning rate reaches", "C06", "C06-first-optimizer-only"),
    ("fix: IPPO applies advantages", "C17", "C17-ippo-row-misalignment"),
    ("fix: IPPO lays next_done", "C17", "C17-ippo-next-done-order"),
    ("fix: IPPO learns from rollouts of a single step", "C17", "C17-ippo-single-step"),
    ("fix: TD3.learn accepts", "C20", "C20-td3-learn-tuple"),
    ("fix: CQN.learn accepts", "C20", "C20-cqn-learn-tuple"),
    ("fix: train_bandits stores", "C20", "C20-bandits-transition"),
    ("fix: train_multi_agent_on_policy returns", "C20", "C20-maon-fitness-list"),
    ("fix: loading a bandit checkpoint", "C19", "C19-exp-layer-stale-after-load"),
    ("fix: checkpoints save and restore", "C07", "C07-detached-tensors-not-saved"),
    ("fix: bandits keep theta_0", "C07", "C07-bandit-theta0-attached"),
    ("fix: EvolvableMultiInput records", "C07", "C07-multiinput-output-activation"),
    ("fix: vectorised PettingZoo env returns the first observation", "C12", "C12-autoreset-first-obs"),
    ("fix: PettingZooAutoResetParallelWrapper restarts", "C12", "C12-wrapper-truncation"),
    ("fix: vector env fills in placeholders", "C12", "C12-early-leaving-agents"),
    ("fix: PettingZooVecEnv.step no longer truncates", "C12", "C12-scalar-continuous-action"),
    ("fix: architecture mutations carry over learned normalisation", "C04", "C04-norm-params-reset-on-resize"),
    ("fix: architecture mutations carry over buffers", "C04", "C04-buffers-reset-on-recreate"),
    ("fix: EvolvableDistribution.clone keeps", "C04", "C04-distribution-clone-drops-log-std"),
    ("fix: get_vect_dim handles MultiBinary", "C15", "C15-vectdim-multibinary"),
    ("fix: get_vect_dim accepts Python numbers", "C15", "C15-vectdim-python-number"),
    ("fix: preprocess_observation accepts (step, env)", "C15", "C15-multidiscrete-step-env"),
    ("fix: maybe_add_batch_dim reshapes", "C15", "C15-noncontiguous-step-env"),
    ("fix: scalar Box observations", "C15", "C15-box-rank0"),
    ("fix: multi-agent observations are paired", "C15", "C15-agent-order"),
]
EXTRA = ROOT / "bin" / "findings_table_extra.json"


def main():
    table = list(TABLE)
    if EXTRA.exists():
        table += [tuple(x) for x in json.loads(EXTRA.read_text())]
    log = subprocess.run(["git", "-C", "/repo", "log", "--reverse", "--format=%h\t%s\t%b%x00"],
                         capture_output=True, text=True).stdout.split("\x00")
    commits = []
    for rec in log:
        rec = rec.strip("\n")
        if not rec:
            continue
        h, s, *b = rec.split("\t")
        commits.append((h, s, " ".join(" ".join(b).split())))
    p = ROOT / "known_findings.json"
    d = json.loads(p.read_text())
    by_id = {f["id"]: f for f in d["findings"]}
    newlog = []
    unknown = []
    for h, s, body in commits:
        if not s.startswith("fix:"):
            continue
        hits = [(prop, fid) for pre, prop, fid in table if s.startswith(pre)]   # one commit may repair several findings
        if not hits:
            unknown.append((h, s))
            continue
        what = s[5:] + (": " + body[:300] if body else "")
        newlog.append(f"fixed: property={hits[0][0]} {h} {what}")
        for prop, fid in hits:
            e = by_id.get(fid)
            if e is None:
                e = {"id": fid, "property": prop, "status": "fixed", "what": what, "signature": {}}
                d["findings"].append(e)
                by_id[fid] = e
            e["status"] = "fixed"
            e["commit"] = h
    d["log"] = newlog
    p.write_text(json.dumps(d, indent=1))
    print(len(newlog), "fix commits logged;", sum(1 for f in d["findings"] if f["status"] == "open"), "open findings")
    for u in unknown:
        print("UNMAPPED fix commit:", *u)


if __name__ == "__main__":
    main()
