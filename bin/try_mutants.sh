#!/bin/bash
# bin/try_mutants.sh Cxx /tmp/mut_Cxx_out   — apply each mutant_k/patch.diff to /repo, run the quick check, undo
pid="$1"; dir="$2"; cd /verif || exit 2
[ -n "$(git -C /repo status --short)" ] && { echo "/repo not clean"; exit 2; }
for k in 1 2 3 4 5; do
  p="$dir/mutant_$k/patch.diff"; [ -f "$p" ] || continue
  if ! git -C /repo apply --check "$p" 2>/dev/null; then echo "mutant $k: does not apply"; continue; fi
  git -C /repo apply "$p"
  out=$(bin/check "$pid" --tier quick --no-gate 2>&1); rc=$?
  git -C /repo checkout -- .; git -C /repo clean -fdq -- agilerl >/dev/null 2>&1
  echo "mutant $k: exit=$rc violations=$(echo "$out" | grep -c '^VIOLATION') :: $(echo "$out" | grep -A1 '^VIOLATION' | sed -n 2p | cut -c1-200)"
done
