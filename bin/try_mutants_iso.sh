#!/bin/bash
# bin/try_mutants_iso.sh Cxx <worktree> <outdir>  — like try_mutants_wt.sh, but the check runs from a private COPY
# of /verif (so that builders editing /verif, and the Gen files rewritten for a changed tree, do not interfere).
pid="$1"; wt="$2"; dir="$3"
[ -n "$(git -C "$wt" status --short)" ] && { echo "$wt not clean"; exit 2; }
copy="/tmp/vm_$pid"; rm -rf "$copy"; mkdir -p "$copy"
git -C /verif archive HEAD | tar -x -C "$copy"            # committed state only
cp -r /verif/lean/.lake "$copy/lean/.lake"
( cd "$copy/lean" && lake build >/dev/null 2>&1 )
cd "$copy" || exit 2
for k in 1 2 3 4 5; do
  p="$dir/mutant_$k/patch.diff"; [ -f "$p" ] || continue
  if ! git -C "$wt" apply --check "$p" 2>/dev/null; then echo "$pid mutant $k: does not apply"; continue; fi
  git -C "$wt" apply "$p"
  out=$(VERIF_REPO="$wt" bin/check "$pid" --tier quick 2>&1); rc=$?
  git -C "$wt" checkout -q -- .; git -C "$wt" clean -fdq >/dev/null 2>&1
  echo "$out" > "$dir/mutant_$k/check_output.txt"
  echo "$pid mutant $k: exit=$rc violations=$(echo "$out" | grep -c '^VIOLATION') nofail=$(echo "$out" | grep '^VIOLATION' | grep -c 'no-failing-input-found') :: $(echo "$out" | grep -A1 '^VIOLATION' | sed -n 2p | cut -c1-220)"
  [ "$rc" = 2 ] && echo "$out" | tail -5
done
# control: the clean worktree must be green from the same copy
out=$(VERIF_REPO="$wt" bin/check "$pid" --tier quick 2>&1); echo "$pid control(clean): exit=$? violations=$(echo "$out" | grep -c '^VIOLATION')"
cd /; rm -rf "$copy"
