#!/bin/bash
# bin/try_mutants_wt.sh Cxx <worktree> <outdir>  — like try_mutants.sh but in a scratch worktree (VERIF_REPO), /repo untouched
pid="$1"; wt="$2"; dir="$3"; cd /verif || exit 2
[ -n "$(git -C "$wt" status --short)" ] && { echo "$wt not clean"; exit 2; }
for k in 1 2 3 4 5; do
  p="$dir/mutant_$k/patch.diff"; [ -f "$p" ] || continue
  if ! git -C "$wt" apply --check "$p" 2>/dev/null; then echo "$pid mutant $k: does not apply"; continue; fi
  git -C "$wt" apply "$p"
  out=$(VERIF_REPO="$wt" bin/check "$pid" --tier quick --no-gate 2>&1); rc=$?
  git -C "$wt" checkout -q -- .; git -C "$wt" clean -fdq >/dev/null 2>&1
  echo "$pid mutant $k: exit=$rc violations=$(echo "$out" | grep -c '^VIOLATION') :: $(echo "$out" | grep -A1 '^VIOLATION' | sed -n 2p | cut -c1-200)"
  [ "$rc" = 2 ] && echo "$out" | tail -5
done
