"""PER + n-step: the n-step loss of every sample sums the n-step returns of ALL samples of the batch."""
import os, sys
sys.path.insert(0, os.environ.get("VERIF_REPO", "/repo"))
import numpy as np, torch
from gymnasium import spaces
from agilerl.algorithms.dqn_rainbow import RainbowDQN
from agilerl.components.data import Transition
from agilerl.components.replay_buffer import MultiStepReplayBuffer, PrioritizedReplayBuffer
from agilerl.components.sampler import Sampler
torch.manual_seed(0)
agent = RainbowDQN(spaces.Box(-10, 10, (3,), np.float32), spaces.Discrete(2), batch_size=4, n_step=2, gamma=0.9,
                   net_config={"encoder_config": {"hidden_size": [16]}, "head_config": {"hidden_size": [16]}},
                   num_atoms=9, v_min=-6.0, v_max=6.0, combined_reward=False)
nb, mb = MultiStepReplayBuffer(4, n_step=2, gamma=0.9), PrioritizedReplayBuffer(4, alpha=0.6)
rng = np.random.default_rng(0)
for t in range(5):
    td = Transition(obs=rng.normal(size=(1, 3)).astype(np.float32), action=np.array([t % 2]), reward=np.array([float(t)]),
                    next_obs=rng.normal(size=(1, 3)).astype(np.float32), done=np.array([False])).to_tensordict()
    td.batch_size = [1]
    one = nb.add(td)
    if one is not None:
        mb.add(one)
exp = Sampler(memory=mb).sample(4, 0.4)               # exactly what train_off_policy does with per=True, n_step=True
nexp = Sampler(memory=nb).sample(exp["idxs"])
print("idxs", tuple(exp["idxs"].shape), "1-step reward", tuple(exp["reward"].shape), "n-step reward", tuple(nexp["reward"].shape))
with torch.no_grad():
    as_sampled = agent._dqn_loss(nexp["obs"], nexp["action"], nexp["reward"], nexp["next_obs"], nexp["done"], 0.81)
    f = nexp.reshape(4)
    per_sample = agent._dqn_loss(f["obs"], f["action"], f["reward"], f["next_obs"], f["done"], 0.81)
print("n-step loss as sampled     ", as_sampled.tolist())
print("n-step loss, shapes matched", per_sample.tolist())
ok = torch.allclose(as_sampled, per_sample, rtol=1e-4)
print("PASS" if ok else "FAIL: every sample's target is the sum of the projections of all samples' n-step returns")
sys.exit(0 if ok else 1)
