"""
Minimal reproductions of the three IPPO defects found by the C17 check (run with
`PYTHONPATH=<tree> /venv/bin/python fixes/C17-repro.py`; no verification machinery needed).

Every number of the rollout encodes (agent, step, env): obs = [agent, step, env, 0], old log-prob =
-(agent*100 + step*10 + env) - 1, value = agent*100 + step*10 + env.  `IPPO._learn_individual` is
observed by wrapping `get_experiences_samples`, the function that cuts minibatches out of the six
flattened tensors, and `vectorize_experiences_by_agent`.
"""
import numpy as np
import torch
from gymnasium import spaces

from agilerl.algorithms import ippo as ippo_mod
from agilerl.algorithms import IPPO


def agent(ids):
    torch.manual_seed(0)
    return IPPO(observation_spaces=[spaces.Box(-1, 1, (4,), np.float32) for _ in ids],
                action_spaces=[spaces.Box(-1, 1, (2,), np.float32) for _ in ids], agent_ids=ids,
                net_config={"latent_dim": 8, "encoder_config": {"hidden_size": [8]}, "head_config": {"hidden_size": [8]}},
                batch_size=64, update_epochs=1, device="cpu")


def rollout(ids, T, E, next_done):
    code = lambda a, t, e: a * 100 + t * 10 + e
    S, A, L, R, D, V = ({i: [] for i in ids} for _ in range(6))
    for a, i in enumerate(ids):
        for t in range(T):
            S[i].append(np.array([[a, t, e, 0] for e in range(E)], np.float32))
            A[i].append(np.zeros((E, 2), np.float32))
            L[i].append(np.array([[-code(a, t, e) - 1.0] for e in range(E)], np.float32))
            R[i].append(np.zeros(E))
            D[i].append(np.zeros(E))
            V[i].append(np.array([[float(code(a, t, e))] for e in range(E)], np.float32))
    NS = {i: np.zeros((E, 4), np.float32) for i in ids}
    ND = {i: np.array(next_done, np.int8) for i in ids}
    return S, A, L, R, D, V, NS, ND


# --- 1. D9: rows of observations vs rows of old log-probs / values / advantages -----------------
seen = {}
orig = ippo_mod.get_experiences_samples


def spy(idx, *exps):
    seen.setdefault("rows", [e.clone() if isinstance(e, torch.Tensor) else e for e in exps])
    return orig(idx, *exps)


ippo_mod.get_experiences_samples = spy
ids = ["agent_0", "agent_1"]
agent(ids).learn(rollout(ids, T=2, E=1, next_done=[0]))
st, _, lp, _, _, va = seen["rows"]
print("1. two agents sharing a policy, 2 steps, 1 env -- the rows handed to the minibatch loop:")
for i in range(st.shape[0]):
    a, t, e = (int(x) for x in st[i][:3])
    print(f"   row {i}: observation of (agent {a}, step {t})   old value {va[i].item():5.0f}   "
          f"old log-prob {lp[i].item():5.0f}   <- value/log-prob of (agent {int(va[i]) // 100}, step {int(va[i]) // 10 % 10})")
ippo_mod.get_experiences_samples = orig

# --- 2. next_done is laid out env-major, everything else agent-major ----------------------------
seen.clear()
orig_v = ippo_mod.vectorize_experiences_by_agent


def spy_v(exp, dim=1):
    out = orig_v(exp, dim)
    if isinstance(out, torch.Tensor) and out.dtype == torch.float32 and out.ndim == 2 and out.shape[0] == 2:
        seen.setdefault("cands", []).append((dim, out.clone()))
    return out


ippo_mod.vectorize_experiences_by_agent = spy_v
agent(ids).learn(rollout(ids, T=2, E=2, next_done=[1, 0]))       # env 0 ended, env 1 did not; same for both agents
print("2. two agents x two envs, next_done = [1, 0] for both agents; the loop's columns are agent*E+env, i.e.")
print("   (a0,e0) (a0,e1) (a1,e0) (a1,e1); next_done.reshape(1,-1) as the loop uses it:")
for dim, x in seen["cands"]:
    if set(x.reshape(-1).tolist()) <= {0.0, 1.0} and x.sum() == 2:
        print("  ", x.reshape(1, -1).tolist(), " expected [[1, 0, 1, 0]]")
ippo_mod.vectorize_experiences_by_agent = orig_v

# --- 3. a rollout of a single step raises ---------------------------------------------------------
try:
    agent(ids).learn(rollout(ids, T=1, E=2, next_done=[0, 0]))
    print("3. one-step rollout: ok")
except Exception as e:  # noqa: BLE001
    print(f"3. one-step rollout (learn_step <= num_envs): {type(e).__name__}: {e}")
