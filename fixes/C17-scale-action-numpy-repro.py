"""train_on_policy cannot train a PPO policy with squash_output=True: it passes the numpy action returned by
get_action to StochasticActor.scale_action, which multiplies it with torch tensors."""
import numpy as np, torch
from gymnasium import spaces
from agilerl.algorithms import PPO
agent = PPO(spaces.Box(-1, 1, (4,), np.float32), spaces.Box(-2.0, 3.0, (2,), np.float32),
            net_config={"latent_dim": 8, "encoder_config": {"hidden_size": [8]}, "head_config": {"hidden_size": [8]},
                        "squash_output": True}, device="cpu")
action, *_ = agent.get_action(np.zeros((2, 4), np.float32))      # numpy, as the training loop receives it
try:
    print("scaled:", agent.actor.scale_action(action))            # train_on_policy.py:244
except TypeError as e:
    print("TypeError:", e)
