"""Minimal failing inputs for the two C18 defects of RainbowDQN._dqn_loss.
run:  /venv/bin/python /verif/fixes/C18-repro.py [repo-path]      (default /repo)

1. C18-float32-top-atom-overflow  (agilerl/algorithms/dqn_rainbow.py:320)
   b = (t_z - v_min) / delta_z is float32; at t_z = v_max it rounds above num_atoms - 1 for many
   configurations (51 atoms on [-10, 200] -> 50.0000038), so u = ceil(b) = num_atoms:
   IndexError in index_add_ when that row is the last of the batch, otherwise p * 3.8e-6 of its
   mass lands on atom 0 of the next row.           repair: fixes/C18-clamp-b.diff
2. C18-batch-size-broadcast  (dqn_rainbow.py:313, 333-339, 352)
   _dqn_loss indexes with self.batch_size instead of the batch's length; with batch_size = 1 and a
   longer batch every row silently takes row 0's target distribution and all mass is scattered
   into row 0.                                      repair: fixes/C18-batch-size.diff
"""
import sys
sys.path.insert(0, sys.argv[1] if len(sys.argv) > 1 else "/repo")
import numpy as np
import torch
from gymnasium import spaces
from tensordict import TensorDict
from agilerl.algorithms.dqn_rainbow import RainbowDQN

torch.manual_seed(0)


def batch(B, rewards, dones):
    return TensorDict({"obs": torch.randn(B, 4), "action": torch.zeros(B, 1), "next_obs": torch.randn(B, 4),
                       "reward": torch.tensor(rewards).reshape(B, 1), "done": torch.tensor(dones).reshape(B, 1)},
                      batch_size=[B])


agent = RainbowDQN(spaces.Box(-1, 1, (4,), np.float32), spaces.Discrete(2), batch_size=3,
                   num_atoms=51, v_min=-10.0, v_max=200.0)
b = (torch.full((1, 51), 200.0) - agent.v_min) / agent.delta_z
print("1. b at t_z = v_max:", b.max().item(), "(num_atoms - 1 = 50)")
try:
    print("   learn ->", agent.learn(batch(3, [1.0, 1.0, 250.0], [1.0, 1.0, 1.0])))
except IndexError as e:
    print("   learn -> IndexError:", e)

agent = RainbowDQN(spaces.Box(-1, 1, (4,), np.float32), spaces.Discrete(2), batch_size=1,
                   num_atoms=5, v_min=-2.0, v_max=2.0)
bt = batch(3, [1.0, 0.5, -1.0], [0.0, 0.0, 0.0])
el = agent._dqn_loss(bt["obs"], bt["action"], bt["reward"], bt["next_obs"], bt["done"], 0.5)
print("2. batch_size=1, 3 rows: element-wise loss", el.tolist(), "(unrepaired: [~4.8, 0, 0]; repaired: three values ~1.6)")
