"""
Tiny real AgileRL agents for the verification harness.

One uniform API over the eleven algorithms of the library (DQN, RainbowDQN, CQN, DDPG, TD3, PPO,
NeuralUCB, NeuralTS, MADDPG, MATD3, IPPO): build an agent with the smallest legal networks, draw a
valid observation, get the greedy action, produce a batch of experiences in exactly the form the
algorithm's ``learn`` accepts, and run one learning step.  Everything is on CPU, ``accelerator=None``,
and deterministic given the ``seed`` arguments.

Usage::

    import agents                         # (does `import common` first -> sys.path points at REPO)
    ag = agents.build("TD3", "dict", seed=3, share_encoders=False)
    obs = agents.sample_obs(ag, "TD3", "dict", n=4, seed=1)
    act = agents.greedy_action(ag, "TD3", obs)
    batch = agents.make_batch(ag, "TD3", "dict", n=8, seed=2)     # batch.form in {"tensordict","tuple",...}
    loss = agents.learn_once(ag, "TD3", "dict", seed=2)

Conventions worth knowing (all verified against the tree under test, see also KNOWN_BROKEN):

* ``agilerl`` is imported lazily inside functions; ``common`` has put REPO (env VERIF_REPO) on sys.path.
* Observation families: vector Box(4,), image Box(0,255,(3,8,8),uint8), dict {vec Box(3,), img Box(1,6,6)},
  tuple (Box(1,6,6), Box(3,)) -- image FIRST, because MADDPG/MATD3 take element 0 of a Tuple space as the
  Conv3d sample input and cannot be constructed when it is not the image --, discrete Discrete(5).
  Action kinds: discrete Discrete(3), multidiscrete MultiDiscrete([2,3]), multibinary MultiBinary(3),
  box Box(-1,1,(2,)).
* Multi-agent algorithms use AGENT_IDS = ["agent_0","agent_1","other_0"]: the two ``agent_*`` are homogeneous
  (IPPO shares one actor/critic between them; the group id is ``agent_id.rsplit("_",1)[0]``), ``other_0`` is a
  group of its own.  All three have the same observation space (MADDPG/MATD3 critics stack image
  observations over agents and need identical shapes); ``other_0`` has a *different action size*
  (Discrete(2) / Box(3,) / ...) so that index mix-ups between agents show.
* Bandits (NeuralUCB/NeuralTS): an "observation" is a *context matrix* with one row per arm, shape
  (n_arms, *obs_shape); ``get_action`` returns ONE arm index for it and, as a side effect, performs the
  Sherman-Morrison update of ``agent.sigma_inv`` and leaves gradients in the actor's parameters.
  ``greedy_action`` therefore snapshots and restores ``sigma_inv`` (and clears grads) unless
  ``preserve_state=False``.  ``learn`` of the bandits feeds ``experiences["obs"]`` to the network WITHOUT
  ``preprocess_observation`` (no one-hot, no image normalisation, no dict handling).
* ``make_batch(..., form="auto")`` finds out by trying (on a throw-away agent, RNG state preserved) whether
  ``learn`` of the algorithm accepts the TensorDict the training loops pass or only a 5-tuple, caches the
  answer per (algo, REPO) and returns the accepted form; ``batch.form`` / ``batch_form(batch)`` says which.
* ``RainbowDQN._dqn_loss`` indexes with ``range(self.batch_size)``: batches MUST have exactly
  ``agent.batch_size`` rows.  make_batch raises ValueError otherwise for Rainbow.
* ``DDPG.learn`` / ``TD3.learn`` overwrite the batch's action tensor in place (``actions.data.normal_``): never
  reuse a batch after learn; learn_once always makes a fresh one.
* Constructors mutate the ``net_config`` dict they are given (RainbowDQN replaces head_config by an
  MlpNetConfig keeping only hidden_size, which must be >= 16; MADDPG/MATD3 write output_activation /
  sample_input into it; the bandits write encoder_config.layer_norm=False): build() deep-copies.
* MADDPG/MATD3 with Discrete/MultiDiscrete actions: the actors end in GumbelSoftmax ONLY when net_config has
  a head_config dict (ours has); with net_config=None DeterministicActor silently falls back to Softmax.
  GumbelSoftmax draws noise in every forward pass, so get_action(training=False) is stochastic; the replay
  buffer stores the continuous actor outputs (probability vectors), not the argmax'd actions.
* IPPO asserts for Box action spaces that high[0] > 0 and low[0] <= 0.
* PER batches: weights (n,1) and idxs (n,1) as PrioritizedReplayBuffer.sample returns them; note that
  RainbowDQN.learn multiplies the (n,) element-wise loss by the (n,1) weights (an n x n broadcast).
* supported() uses ACCEPTED_KINDS (what the constructors let through); ACTION_KINDS is the smaller list of
  kinds one normally iterates over (combos()).  DQN/CQN/RainbowDQN also accept MultiDiscrete (one Q output
  per entry of sum(nvec)); the bandits never check the action space.
"""
from __future__ import annotations

import copy
import random
import time
from typing import Any

import common  # noqa: F401  (side effect: REPO first on sys.path, env defaults)

import numpy as np
import torch

# --------------------------------------------------------------------------------------- constants

ALGOS = ["DQN", "RainbowDQN", "CQN", "DDPG", "TD3", "PPO", "NeuralUCB", "NeuralTS", "MADDPG", "MATD3", "IPPO"]
OBS_FAMILIES = ["vector", "image", "dict", "tuple", "discrete"]
ACTION_KINDS_ALL = ["discrete", "multidiscrete", "multibinary", "box"]

MULTI_AGENT = ("MADDPG", "MATD3", "IPPO")
BANDITS = ("NeuralUCB", "NeuralTS")
SHARE_ENCODER_ALGOS = ("DDPG", "TD3", "PPO")
AGENT_IDS = ["agent_0", "agent_1", "other_0"]

#: the action kinds one normally iterates over (first entry = default kind of the algorithm)
ACTION_KINDS = {
    "DQN": ["discrete"], "RainbowDQN": ["discrete"], "CQN": ["discrete"],
    "NeuralUCB": ["discrete"], "NeuralTS": ["discrete"],
    "DDPG": ["box"], "TD3": ["box"],
    "PPO": ["discrete", "multidiscrete", "multibinary", "box"],
    "IPPO": ["discrete", "multidiscrete", "multibinary", "box"],
    "MADDPG": ["discrete", "box"], "MATD3": ["discrete", "box"],
}

#: every action kind the constructor lets through BY DESIGN (what supported() reports):
#: QNetwork/RainbowQNetwork raise ValueError unless Discrete or MultiDiscrete; DDPG/TD3 assert Box;
#: MADDPG/MATD3 build the critic over concatenate_spaces(action_spaces) which raises TypeError for
#: MultiBinary; the bandits never look at the type of the action space (only get_action_dim = #arms).
ACCEPTED_KINDS = {
    "DQN": ["discrete", "multidiscrete"], "RainbowDQN": ["discrete", "multidiscrete"],
    "CQN": ["discrete", "multidiscrete"],
    "NeuralUCB": list(ACTION_KINDS_ALL), "NeuralTS": list(ACTION_KINDS_ALL),
    "DDPG": ["box"], "TD3": ["box"],
    "PPO": list(ACTION_KINDS_ALL), "IPPO": list(ACTION_KINDS_ALL),
    "MADDPG": ["discrete", "multidiscrete", "box"], "MATD3": ["discrete", "multidiscrete", "box"],
}

#: (algo, family, action_kind) -> reason.  Combos the library does NOT reject by design but that crash
#: on the tree under test (construction, get_action or learn).  supported() stays True for them.
#: agents_smoke.py fails when an entry is missing or stale.
class _KnownBroken(dict):
    """dict whose tree-dependent entries are resolved on first read: CQN/TD3 x tuple are broken exactly
    when their learn() takes the TensorDict form (i.e. once the library accepts what the training loops
    pass, they inherit the Tuple-observation defect of DQN/DDPG); with the old 5-tuple-only learn() the
    python tuples of the tuple form pass.  Resolution calls learn_form() (imports agilerl, ~0.1 s)."""
    _resolved = False

    def _ensure(self):
        if self._resolved:
            return
        self._resolved = True   # first, learn_form -> build must not recurse
        for a in ("CQN", "TD3"):
            try:
                td = learn_form(a) == "tensordict"
            except Exception:  # noqa: BLE001
                td = False
            for k in ACCEPTED_KINDS[a]:
                if td:
                    dict.__setitem__(self, (a, "tuple", k), _R_TUPLE.format(algo=a))
                else:
                    dict.pop(self, (a, "tuple", k), None)

    def __getitem__(self, k):
        self._ensure()
        return dict.__getitem__(self, k)

    def __contains__(self, k):
        self._ensure()
        return dict.__contains__(self, k)

    def get(self, k, d=None):
        self._ensure()
        return dict.get(self, k, d)

    def __iter__(self):
        self._ensure()
        return dict.__iter__(self)

    def __len__(self):
        self._ensure()
        return dict.__len__(self)

    def keys(self):
        self._ensure()
        return dict.keys(self)

    def items(self):
        self._ensure()
        return dict.items(self)

    def values(self):
        self._ensure()
        return dict.values(self)

    def __repr__(self):
        self._ensure()
        return dict.__repr__(self)


KNOWN_BROKEN: dict[tuple[str, str, str], str] = _KnownBroken()

_R_TUPLE = ("learn(TensorDict from ReplayBuffer) -> AssertionError 'Expected tuple, got TensorDict' "
            "(utils/algo_utils.py preprocess_observation): Transition turns a Tuple observation into a "
            "nested TensorDict with keys tuple_obs_i and {algo}.learn passes it to preprocess_observation "
            "unchanged.  get_action works.  Workaround: make_batch(..., form='dict') (plain dict with a "
            "python tuple of tensors as obs) is accepted by learn.")
_R_RAINBOW_MD = ("RainbowDQN accepts MultiDiscrete in the ctor (RainbowQNetwork allows it) but learn -> "
                 "IndexError 'shape mismatch: indexing tensors could not be broadcast together with shapes "
                 "[8], [8, 2]' at dqn_rainbow.py:352 (log_q_dist[range(B), actions.squeeze().long()])")
_R_BANDIT_TUPLE = ("{algo}.learn feeds experiences['obs'] to the network without preprocess_observation -> "
                   "KeyError 'key \"0\" not found in TensorDict with keys [tuple_obs_0, tuple_obs_1]' "
                   "(modules/multi_input.py forward).  get_action works.  Workaround: form='dict'.")
_R_BANDIT_DISCRETE = ("{algo}.learn feeds experiences['obs'] to the network without preprocess_observation "
                      "(no one-hot of a Discrete observation) -> RuntimeError 'mat1 and mat2 shapes cannot "
                      "be multiplied (8x1 and 5x8)'.  get_action (which does preprocess) works.")
for _a in ("DQN", "RainbowDQN", "DDPG"):
    for _k in ACCEPTED_KINDS[_a]:
        KNOWN_BROKEN[(_a, "tuple", _k)] = _R_TUPLE.format(algo=_a)
for _f in OBS_FAMILIES:
    KNOWN_BROKEN[("RainbowDQN", _f, "multidiscrete")] = _R_RAINBOW_MD + \
        ("" if _f != "tuple" else " (and before that the Tuple-observation AssertionError of (RainbowDQN, tuple, discrete))")
for _a in BANDITS:
    for _k in ACCEPTED_KINDS[_a]:
        KNOWN_BROKEN[(_a, "tuple", _k)] = _R_BANDIT_TUPLE.format(algo=_a)
        KNOWN_BROKEN[(_a, "discrete", _k)] = _R_BANDIT_DISCRETE.format(algo=_a)

_FORM_CACHE: dict[tuple[str, str], str] = {}


# --------------------------------------------------------------------------------------- small utils

def is_multi_agent(algo: str) -> bool:
    return algo in MULTI_AGENT


def is_bandit(algo: str) -> bool:
    return algo in BANDITS


def default_action_kind(algo: str) -> str:
    return ACTION_KINDS[algo][0]


def _kind(algo: str, action_kind: str | None) -> str:
    return default_action_kind(algo) if action_kind is None else action_kind


def seed_all(seed: int) -> None:
    """seed python, numpy and torch (what build/make_batch/learn_once do before acting)"""
    random.seed(seed)
    np.random.seed(seed % (2 ** 32))
    torch.manual_seed(seed)


class _PreservedRNG:
    """context manager: leave the global python/numpy/torch RNG streams untouched"""

    def __enter__(self):
        self.s = (random.getstate(), np.random.get_state(), torch.get_rng_state())
        return self

    def __exit__(self, *exc):
        random.setstate(self.s[0])
        np.random.set_state(self.s[1])
        torch.set_rng_state(self.s[2])
        return False


def algo_class(algo: str):
    import agilerl.algorithms as A

    if algo not in ALGOS:
        raise KeyError(f"unknown algorithm {algo!r}")
    return getattr(A, algo)


def algo_of(agent) -> str:
    """the ALGOS name of a real agent (by class name)"""
    name = type(agent).__name__
    if name in ALGOS:
        return name
    raise KeyError(f"not one of the eleven algorithms: {name}")


# --------------------------------------------------------------------------------------- spaces

def obs_space(family: str):
    from gymnasium import spaces

    if family == "vector":
        return spaces.Box(-1.0, 1.0, (4,), np.float32)
    if family == "image":
        return spaces.Box(0, 255, (3, 8, 8), np.uint8)
    if family == "dict":
        return spaces.Dict({"vec": spaces.Box(-1.0, 1.0, (3,), np.float32),
                            "img": spaces.Box(0.0, 1.0, (1, 6, 6), np.float32)})
    if family == "tuple":
        # image FIRST: MADDPG/MATD3 take element 0 of the tuple as the Conv3d sample input (see module doc)
        return spaces.Tuple((spaces.Box(0.0, 1.0, (1, 6, 6), np.float32),
                             spaces.Box(-1.0, 1.0, (3,), np.float32)))
    if family == "discrete":
        return spaces.Discrete(5)
    raise KeyError(f"unknown observation family {family!r}")


def act_space(kind: str, variant: int = 0):
    """variant 1 = the differently sized action space of the non-homogeneous agent `other_0`"""
    from gymnasium import spaces

    if kind == "discrete":
        return spaces.Discrete(3 if variant == 0 else 2)
    if kind == "multidiscrete":
        return spaces.MultiDiscrete([2, 3] if variant == 0 else [3, 2, 2])
    if kind == "multibinary":
        return spaces.MultiBinary(3 if variant == 0 else 2)
    if kind == "box":
        n = 2 if variant == 0 else 3
        return spaces.Box(-1.0, 1.0, (n,), np.float32)
    raise KeyError(f"unknown action kind {kind!r}")


def spaces_for(algo: str, family: str, action_kind: str | None = None) -> tuple:
    """single-agent: (observation_space, action_space);
    multi-agent: (observation_spaces: list, action_spaces: list, agent_ids: list) in ctor order"""
    kind = _kind(algo, action_kind)
    if is_multi_agent(algo):
        obs = [obs_space(family) for _ in AGENT_IDS]
        act = [act_space(kind, 1 if aid.startswith("other") else 0) for aid in AGENT_IDS]
        return obs, act, list(AGENT_IDS)
    return obs_space(family), act_space(kind)


def supported(algo: str, family: str, action_kind: str | None = None) -> bool:
    """True unless the library rejects the combination BY DESIGN.

    By design means: the algorithm's constructor (or the network class it always builds) asserts on the
    type of the action space.  Every observation family is accepted by design by every algorithm
    (`assert_supported_space` only rejects nested Dict/Tuple).  Crashes that are not such a rejection are
    listed in KNOWN_BROKEN and stay supported() == True.
    """
    if algo not in ALGOS or family not in OBS_FAMILIES:
        return False
    kind = _kind(algo, action_kind)
    if kind not in ACTION_KINDS_ALL:
        return False
    return kind in ACCEPTED_KINDS[algo]


def known_broken(algo: str, family: str, action_kind: str | None = None) -> str | None:
    return KNOWN_BROKEN.get((algo, family, _kind(algo, action_kind)))


# --------------------------------------------------------------------------------------- net configs

_CNN = {"channel_size": [4], "kernel_size": [3], "stride_size": [1]}


def default_net_config(algo: str, family: str) -> dict:
    """smallest legal net_config: latent 8, one hidden layer of 8 units (Rainbow head: 16, its ctor
    rebuilds head_config through MlpNetConfig whose min_mlp_nodes is 16 and keeps ONLY hidden_size),
    one 3x3 conv layer with 4 channels for images"""
    if family in ("vector", "discrete"):
        enc: dict[str, Any] = {"hidden_size": [8]}
    elif family == "image":
        enc = copy.deepcopy(_CNN)
    elif family in ("dict", "tuple"):
        enc = {"latent_dim": 8, "vector_space_mlp": False,
               "cnn_config": copy.deepcopy(_CNN), "mlp_config": {"hidden_size": [8]}}
    else:
        raise KeyError(family)
    head = {"hidden_size": [16 if algo == "RainbowDQN" else 8]}
    return {"latent_dim": 8, "encoder_config": enc, "head_config": head}


def default_hp_config(algo: str):
    """HyperparameterConfig with the algorithm's learning-rate attribute(s), batch_size and learn_step"""
    from agilerl.algorithms.core.registry import HyperparameterConfig, RLParameter

    if algo in ("DDPG", "TD3", "MADDPG", "MATD3"):
        lrs = {"lr_actor": RLParameter(min=1e-6, max=1e-1), "lr_critic": RLParameter(min=1e-6, max=1e-1)}
    else:
        lrs = {"lr": RLParameter(min=1e-6, max=1e-1)}
    return HyperparameterConfig(
        **lrs,
        batch_size=RLParameter(min=2, max=64, dtype=int),
        learn_step=RLParameter(min=1, max=64, dtype=int, grow_factor=1.5, shrink_factor=0.75),
    )


# --------------------------------------------------------------------------------------- build

def build(algo: str, family: str = "vector", *, seed: int = 0, share_encoders: bool | None = None,
          hp_config=None, index: int = 0, action_kind: str | None = None, **overrides):
    """a real agent with the smallest legal networks; deterministic given `seed`.

    `share_encoders` is forwarded to DDPG/TD3/PPO only (None = algorithm default, which is True);
    `overrides` are constructor keyword arguments (e.g. net_config=..., batch_size=..., lr=..., double=True).
    """
    cls = algo_class(algo)
    kind = _kind(algo, action_kind)
    sp = spaces_for(algo, family, kind)
    kwargs: dict[str, Any] = dict(
        index=index, hp_config=hp_config, net_config=default_net_config(algo, family),
        batch_size=8, device="cpu", accelerator=None,
    )
    if algo == "RainbowDQN":
        kwargs.update(num_atoms=5, v_min=-2.0, v_max=2.0, n_step=3)
    if algo in ("PPO", "IPPO"):
        kwargs.update(learn_step=8, update_epochs=2)
    if algo not in ("PPO", "IPPO"):
        kwargs.update(learn_step=1)
    if share_encoders is not None:
        if algo in SHARE_ENCODER_ALGOS:
            kwargs["share_encoders"] = bool(share_encoders)
        else:
            raise ValueError(f"{algo} has no share_encoders argument")
    kwargs.update(overrides)
    kwargs["net_config"] = copy.deepcopy(kwargs["net_config"])  # several ctors mutate the dict they get
    seed_all(seed)
    if is_multi_agent(algo):
        obs_spaces, act_spaces, ids = sp
        return cls(observation_spaces=obs_spaces, action_spaces=act_spaces, agent_ids=ids, **kwargs)
    return cls(sp[0], sp[1], **kwargs)


# --------------------------------------------------------------------------------------- sampling from spaces

def _sample_space(space, rng: np.random.Generator, n: int | None):
    """a numpy sample (batch of n if n is not None) of a gymnasium space, drawn from `rng`"""
    from gymnasium import spaces

    lead = () if n is None else (n,)
    if isinstance(space, spaces.Box):
        low = np.where(np.isfinite(space.low), space.low, -1.0).astype(np.float64)
        high = np.where(np.isfinite(space.high), space.high, 1.0).astype(np.float64)
        if np.issubdtype(space.dtype, np.integer):
            x = rng.integers(low.astype(np.int64), high.astype(np.int64) + 1, size=lead + space.shape)
        else:
            x = rng.uniform(low, high, size=lead + space.shape)
        return x.astype(space.dtype)
    if isinstance(space, spaces.Discrete):
        return np.asarray(rng.integers(0, int(space.n), size=lead), dtype=np.int64)
    if isinstance(space, spaces.MultiDiscrete):
        return rng.integers(0, np.asarray(space.nvec), size=lead + space.nvec.shape).astype(np.int64)
    if isinstance(space, spaces.MultiBinary):
        return rng.integers(0, 2, size=lead + (int(space.n),)).astype(np.int8)
    if isinstance(space, spaces.Dict):
        return {k: _sample_space(s, rng, n) for k, s in space.spaces.items()}
    if isinstance(space, spaces.Tuple):
        return tuple(_sample_space(s, rng, n) for s in space.spaces)
    raise TypeError(f"cannot sample {type(space)}")


def _rng(seed: int, salt: int = 0) -> np.random.Generator:
    return np.random.default_rng([int(seed) & 0xFFFFFFFF, salt])


def n_arms(agent) -> int:
    return int(agent.action_dim)


def sample_obs(agent, algo: str, family: str, n: int | None = None, *, seed: int = 0):
    """an observation valid for `agent.get_action` (numpy; single if n is None else a batch of n).

    single-agent: array / dict / tuple per the observation space (leading dim n for a batch);
    multi-agent: {agent_id: obs}; bandits: a context matrix (n_arms, *obs_shape) (a list of n of them for
    a batch, because get_action handles one context at a time)."""
    rng = _rng(seed, 11)
    if is_multi_agent(algo):
        return {aid: _sample_space(agent.observation_space[aid], rng, n) for aid in agent.agent_ids}
    if is_bandit(algo):
        if n is None:
            return _sample_space(agent.observation_space, rng, n_arms(agent))
        return [_sample_space(agent.observation_space, rng, n_arms(agent)) for _ in range(n)]
    return _sample_space(agent.observation_space, rng, n)


# --------------------------------------------------------------------------------------- greedy action

def _bandit_choose(agent, context, preserve_state: bool):
    sigma = agent.sigma_inv.clone() if preserve_state else None
    try:
        return int(agent.get_action(context))
    finally:
        if preserve_state:
            agent.sigma_inv = sigma
            for p in agent.actor.parameters():
                p.grad = None


def greedy_action(agent, algo: str, obs, *, torch_seed: int = 0, preserve_state: bool = True):
    """the deterministic action(s) for `obs` (as produced by sample_obs).

    DQN: epsilon=0; RainbowDQN/DDPG/TD3/MADDPG/MATD3: training=False (no noisy layers / exploration noise;
    MADDPG/MATD3 with discrete actions still sample Gumbel noise in eval mode, so torch is seeded with
    `torch_seed` as for PPO; MADDPG returns discrete actions of shape (B,), MATD3 of shape (B,1));
    CQN: epsilon=0; PPO/IPPO: no deterministic mode exists, so the agent is put in eval mode
    (`set_training_mode(False)`, restored afterwards) and torch is seeded with `torch_seed` right before
    sampling (global RNG state restored afterwards) -> a function of (weights, obs, torch_seed);
    NeuralUCB: the arm chosen; NeuralTS samples from a normal -> seeded like PPO.
    Bandits: `get_action` updates `sigma_inv` and leaves grads; with preserve_state=True (default) both are
    restored so that greedy_action is a pure function; pass False to keep the library's side effect.

    Returns numpy: single-agent an array of actions (batch dim first, also for a single observation);
    PPO the action array only; multi-agent {agent_id: array} (for discrete MADDPG/MATD3 the argmax'd
    discrete actions, else the continuous ones); bandits an int (or list of ints for a list of contexts).
    """
    if algo == "DQN":
        return np.asarray(agent.get_action(obs, epsilon=0.0))
    if algo == "CQN":
        return np.asarray(agent.get_action(obs, epsilon=0.0))
    if algo in ("RainbowDQN", "DDPG", "TD3"):
        return np.asarray(agent.get_action(obs, training=False))
    if algo in ("MADDPG", "MATD3"):
        # with Discrete/MultiDiscrete action spaces the actor's output activation is GumbelSoftmax, which
        # draws torch.rand noise in every forward pass, also with training=False -> seed like PPO
        with _PreservedRNG():
            torch.manual_seed(torch_seed)
            cont, disc = agent.get_action(obs, training=False)
        out = disc if disc is not None else cont
        return {k: np.asarray(v) for k, v in out.items()}
    if algo in ("PPO", "IPPO"):
        was_training = bool(getattr(agent, "training", True))
        with _PreservedRNG():
            agent.set_training_mode(False)
            try:
                torch.manual_seed(torch_seed)
                out = agent.get_action(obs)
            finally:
                agent.set_training_mode(was_training)
        act = out[0]
        if algo == "IPPO":
            return {k: np.asarray(v) for k, v in act.items()}
        return np.asarray(act)
    if is_bandit(algo):
        with _PreservedRNG():
            torch.manual_seed(torch_seed)
            if isinstance(obs, list):
                return [_bandit_choose(agent, c, preserve_state) for c in obs]
            return _bandit_choose(agent, obs, preserve_state)
    raise KeyError(algo)


# --------------------------------------------------------------------------------------- batches

class TupleBatch(tuple):
    """a tuple of experiences that also says which form it is (`.form`) and carries `.meta`"""
    form: str = "tuple"
    meta: dict

    def __new__(cls, items, form: str = "tuple", meta: dict | None = None):
        self = super().__new__(cls, items)
        self.form = form
        self.meta = meta or {}
        return self


def batch_form(batch) -> str:
    """'tensordict' | 'tuple' | 'dict' | 'rollout' (PPO 8-tuple) | 'ma_tuple' (MADDPG/MATD3) | 'ma_rollout' (IPPO)"""
    f = getattr(batch, "form", None)
    if f is not None and isinstance(f, str):
        return f
    from tensordict import TensorDictBase

    return "tensordict" if isinstance(batch, TensorDictBase) else "tuple"


def _tag(obj, form: str):
    try:
        object.__setattr__(obj, "form", form)
    except Exception:
        pass
    return obj


def _random_action(space, rng, n):
    a = _sample_space(space, rng, n)
    return a


def _transition_td(agent, n: int, seed: int, dones):
    """n random transitions pushed through the library's own Transition + ReplayBuffer -> TensorDict
    with keys obs, action, next_obs, reward, done (rows in insertion order)"""
    from agilerl.components.data import Transition
    from agilerl.components.replay_buffer import ReplayBuffer

    rng = _rng(seed, 23)
    obs = _sample_space(agent.observation_space, rng, n)
    nxt = _sample_space(agent.observation_space, rng, n)
    act = _random_action(agent.action_space, rng, n)
    rew = rng.integers(-4, 5, size=n).astype(np.float32) / 4.0   # dyadic rewards in [-1,1]
    if dones is None:
        done = (rng.random(n) < 0.25).astype(np.float32)
    else:
        done = np.asarray(dones, dtype=np.float32).reshape(n)
    tr = Transition(obs=obs, action=act, reward=rew, next_obs=nxt, done=done)
    td = tr.to_tensordict()
    td.batch_size = [n]
    buf = ReplayBuffer(max_size=n)
    buf.add(td)
    return buf.storage[:n].clone()


def _plain(x, space):
    """TensorDict sub-observation -> python dict / tuple of tensors as the space dictates"""
    from gymnasium import spaces

    if isinstance(space, spaces.Dict):
        return {k: x[k] for k in space.spaces.keys()}
    if isinstance(space, spaces.Tuple):
        return tuple(x[f"tuple_obs_{i}"] for i in range(len(space.spaces)))
    return x


def _td_to_tuple(agent, td):
    sp = agent.observation_space
    return TupleBatch(
        (_plain(td["obs"], sp), td["action"], td["reward"], _plain(td["next_obs"], sp), td["done"]),
        form="tuple",
    )


class DictBatch(dict):
    """plain python dict of tensors (obs as python dict/tuple of tensors) -- NOT what the library's buffers
    produce, but accepted by every learn() that only indexes experiences[key]; the workaround for the
    Tuple-observation defect (see KNOWN_BROKEN)"""
    form = "dict"


def _td_to_dict(agent, td):
    sp = agent.observation_space
    out = DictBatch()
    for k in td.keys():
        out[k] = _plain(td[k], sp) if k in ("obs", "next_obs") else td[k]
    return out


def _bandit_td(agent, n: int, seed: int):
    """TensorDict(obs (n,*obs_shape) float32, reward (n,1)) as BanditEnv + ReplayBuffer would give"""
    from tensordict import TensorDict
    from agilerl.components.replay_buffer import ReplayBuffer

    rng = _rng(seed, 29)
    obs = _sample_space(agent.observation_space, rng, n)
    rew = rng.integers(0, 2, size=n).astype(np.float32)

    def t(x):
        return torch.as_tensor(np.asarray(x)).float()

    if isinstance(obs, dict):
        obs_t = TensorDict({k: t(v) for k, v in obs.items()}, batch_size=[n])
    elif isinstance(obs, tuple):
        obs_t = TensorDict({f"tuple_obs_{i}": t(v) for i, v in enumerate(obs)}, batch_size=[n])
    else:
        obs_t = t(obs)
    td = TensorDict({"obs": obs_t, "reward": torch.as_tensor(rew)}, batch_size=[n])
    buf = ReplayBuffer(max_size=n)
    buf.add(td)
    return buf.storage[:n].clone()


def _ppo_rollout(agent, n: int, seed: int, dones, num_envs: int):
    """(states, actions, log_probs, rewards, dones, values, next_state, next_done) exactly as
    train_on_policy collects them from a vectorised env: lists of length T of arrays with leading dim
    num_envs; actions/log_probs/values come from agent.get_action (training mode) on random observations"""
    T = max(1, -(-n // num_envs))
    rng = _rng(seed, 31)
    states, actions, log_probs, rewards, dns, values = [], [], [], [], [], []
    done = np.zeros(num_envs)
    dmat = None if dones is None else np.asarray(dones, dtype=np.float64).reshape(T, num_envs)
    for t in range(T):
        state = _sample_space(agent.observation_space, rng, num_envs)
        action, log_prob, _ent, value = agent.get_action(state)
        states.append(state)
        actions.append(action)
        log_probs.append(log_prob)
        rewards.append(rng.integers(-4, 5, size=num_envs).astype(np.float64) / 4.0)
        dns.append(done)
        values.append(value)
        if dmat is None:
            done = (rng.random(num_envs) < 0.25).astype(np.int8)
        else:
            done = dmat[t].astype(np.int8)
    next_state = _sample_space(agent.observation_space, rng, num_envs)
    next_done = done
    return TupleBatch((states, actions, log_probs, rewards, dns, values, next_state, next_done),
                      form="rollout", meta={"T": T, "num_envs": num_envs})


def _ippo_rollout(agent, n: int, seed: int, dones, num_envs: int):
    """the 8-tuple of per-agent dicts that train_multi_agent_on_policy hands to IPPO.learn"""
    T = max(1, -(-n // num_envs))
    rng = _rng(seed, 37)
    ids = list(agent.agent_ids)
    states = {a: [] for a in ids}
    actions = {a: [] for a in ids}
    log_probs = {a: [] for a in ids}
    rewards = {a: [] for a in ids}
    dns = {a: [] for a in ids}
    values = {a: [] for a in ids}
    done = {a: np.zeros(num_envs) for a in ids}
    dmat = None if dones is None else np.asarray(dones, dtype=np.float64).reshape(T, num_envs)
    for t in range(T):
        obs = {a: _sample_space(agent.observation_space[a], rng, num_envs) for a in ids}
        action, log_prob, _ent, value = agent.get_action(obs=obs, infos=None)
        nd = {}
        for a in ids:
            states[a].append(obs[a])
            actions[a].append(action[a])
            log_probs[a].append(log_prob[a])
            rewards[a].append(rng.integers(-4, 5, size=num_envs).astype(np.float64) / 4.0)
            dns[a].append(done[a])
            values[a].append(value[a])
            if dmat is None:
                nd[a] = (rng.random(num_envs) < 0.25).astype(np.int8)
            else:
                nd[a] = dmat[t].astype(np.int8)
        done = nd
    next_obs = {a: _sample_space(agent.observation_space[a], rng, num_envs) for a in ids}
    return TupleBatch((states, actions, log_probs, rewards, dns, values, next_obs, done),
                      form="ma_rollout", meta={"T": T, "num_envs": num_envs})


def _ma_offpolicy(agent, n: int, seed: int, dones):
    """(states, actions, rewards, next_states, dones): five {agent_id: tensor} dicts produced by the
    library's own MultiAgentReplayBuffer from n random single-env transitions.  Actions are what the
    training loop stores: the *continuous* actor outputs (for Discrete spaces a probability vector)."""
    from gymnasium import spaces
    from agilerl.components.multi_agent_replay_buffer import MultiAgentReplayBuffer

    rng = _rng(seed, 41)
    ids = list(agent.agent_ids)
    buf = MultiAgentReplayBuffer(memory_size=n, field_names=["state", "action", "reward", "next_state", "done"],
                                 agent_ids=ids, device="cpu")
    dvec = None if dones is None else np.asarray(dones, dtype=np.float64).reshape(n)
    for i in range(n):
        st = {a: _sample_space(agent.observation_space[a], rng, None) for a in ids}
        nx = {a: _sample_space(agent.observation_space[a], rng, None) for a in ids}
        ac = {}
        for a in ids:
            sp = agent.action_space[a]
            if isinstance(sp, (spaces.Discrete, spaces.MultiDiscrete)):
                logits = rng.normal(size=int(spaces.flatdim(sp)))
                p = np.exp(logits - logits.max())
                ac[a] = (p / p.sum()).astype(np.float32)
            else:
                ac[a] = _sample_space(sp, rng, None).astype(np.float32)
        rw = {a: float(rng.integers(-4, 5)) / 4.0 for a in ids}
        d = bool(rng.random() < 0.25) if dvec is None else bool(dvec[i])
        dn = {a: d for a in ids}
        buf.save_to_memory(st, ac, rw, nx, dn, is_vectorised=False)
    if hasattr(buf, "_process_transition"):
        out = tuple(buf._process_transition(list(buf.memory)).values())   # insertion order
    else:
        out = buf.sample(n)
    return TupleBatch(out, form="ma_tuple")


def learn_form(algo: str) -> str:
    """which form `learn` of this algorithm accepts on the tree under test, found by trying
    (TensorDict first, then the 5-tuple) on a throw-away vector-family agent; cached per (algo, REPO)"""
    if algo == "PPO":
        return "rollout"
    if algo == "IPPO":
        return "ma_rollout"
    if algo in ("MADDPG", "MATD3"):
        return "ma_tuple"
    key = (algo, str(common.REPO))
    if key in _FORM_CACHE:
        return _FORM_CACHE[key]
    if is_bandit(algo):
        _FORM_CACHE[key] = "tensordict"
        return "tensordict"
    errors = {}
    with _PreservedRNG():
        for form in ("tensordict", "tuple"):
            probe = build(algo, "vector", seed=0)
            batch = make_batch(probe, algo, "vector", n=probe.batch_size if probe.batch_size != 5 else 8,
                               seed=0, form=form)
            try:
                probe.learn(batch)
            except (ValueError, TypeError, KeyError, IndexError, AttributeError) as e:
                errors[form] = f"{type(e).__name__}: {e}"
                continue
            _FORM_CACHE[key] = form
            return form
    raise RuntimeError(f"{algo}.learn accepts neither a TensorDict nor a 5-tuple: {errors}")


def make_batch(agent, algo: str, family: str, n: int = 8, *, seed: int = 0, dones=None, form: str = "auto",
               variant: str = "plain", num_envs: int = 2, return_form: bool = False):
    """experiences in exactly the form `agent.learn` accepts, random but a function of `seed`.

    * DQN/RainbowDQN/DDPG/NeuralUCB/NeuralTS (and CQN/TD3 once repaired): the TensorDict a ReplayBuffer
      of `Transition`s yields (keys obs, action, next_obs, reward, done; reward/done/1-d action (n,1);
      everything float32; Dict/Tuple observations are nested TensorDicts, Tuple keys `tuple_obs_i`).
      Bandits: keys obs, reward only.
    * CQN/TD3 today: the 5-tuple (states, actions, rewards, next_states, dones) of the same tensors with
      Dict/Tuple observations as python dict/tuple.  `form` in {"auto","tensordict","tuple","dict"} forces
      one ("dict" = plain python dict of the same tensors with python dict/tuple observations: never
      chosen by "auto", it is the workaround for the Tuple-observation entries of KNOWN_BROKEN).
    * RainbowDQN `variant`: "plain" | "per" (adds weights (n,1), idxs (n,1)) | "nstep" (adds idxs; use
      learn_once to also get the n-step batch) | "per_nstep".
    * PPO: the 8-tuple (states, actions, log_probs, rewards, dones, values, next_state, next_done) of a
      vectorised rollout with `num_envs` envs and ceil(n/num_envs) steps; actions/log_probs/values are
      produced by agent.get_action (consumes torch RNG after seeding with `seed`).
    * IPPO: the same 8-tuple with {agent_id: ...} dicts.  MADDPG/MATD3: 5-tuple of {agent_id: tensor}.
    * `dones`: optional explicit done flags (n values; for PPO/IPPO a (T, num_envs) array = the flag
      *after* step t, i.e. dones[t+1] of the rollout and next_done for the last row).

    The returned object has `.form` (see batch_form); with return_form=True returns (batch, form).
    `n` must equal agent.batch_size for RainbowDQN (library restriction)."""
    if algo == "RainbowDQN" and n != agent.batch_size:
        raise ValueError(f"RainbowDQN.learn needs exactly batch_size={agent.batch_size} rows, got n={n}")
    if form not in ("auto", "tensordict", "tuple", "dict"):
        raise ValueError(form)
    with _PreservedRNG():
        seed_all(seed)
        if algo == "PPO":
            batch = _ppo_rollout(agent, n, seed, dones, num_envs)
        elif algo == "IPPO":
            batch = _ippo_rollout(agent, n, seed, dones, num_envs)
        elif algo in ("MADDPG", "MATD3"):
            batch = _ma_offpolicy(agent, n, seed, dones)
        else:
            if is_bandit(algo):
                td = _bandit_td(agent, n, seed)
            else:
                td = _transition_td(agent, n, seed, dones)
                if algo == "RainbowDQN" and variant in ("per", "per_nstep"):
                    rng = _rng(seed, 43)
                    td["weights"] = torch.as_tensor(rng.uniform(0.25, 1.0, size=(n, 1)).astype(np.float32))
                    td["idxs"] = torch.arange(n).unsqueeze(1)
                elif algo == "RainbowDQN" and variant == "nstep":
                    td["idxs"] = torch.arange(n)
            want = form
            if want == "auto":
                want = learn_form(algo)
            if want == "tensordict":
                batch = _tag(td, "tensordict")
            elif want == "dict":
                batch = _td_to_dict(agent, td)
            elif is_bandit(algo):
                raise ValueError("the bandits have no tuple form")
            else:
                batch = _td_to_tuple(agent, td)
    if return_form:
        return batch, batch_form(batch)
    return batch


def learn_once(agent, algo: str, family: str, *, seed: int = 0, n: int | None = None, variant: str = "plain",
               form: str = "auto", dones=None, **learn_kwargs):
    """make_batch + agent.learn(batch); returns whatever learn returns.

    n defaults to agent.batch_size.  torch/numpy/python RNGs are seeded with `seed` right before `learn`
    (TD3/DDPG policy noise, PPO minibatch shuffling, noisy nets), so the step is reproducible.
    RainbowDQN `variant`: "plain" -> learn(batch); "per" -> learn(batch, per=True);
    "nstep" -> learn(batch, n_experiences=batch2); "per_nstep" -> both."""
    if n is None:
        n = int(agent.batch_size)
    batch = make_batch(agent, algo, family, n=n, seed=seed, variant=variant, form=form, dones=dones)
    kw = dict(learn_kwargs)
    if algo == "RainbowDQN":
        if variant in ("per", "per_nstep"):
            kw["per"] = True
        if variant in ("nstep", "per_nstep"):
            kw["n_experiences"] = make_batch(agent, algo, family, n=n, seed=seed + 7919, form=form)
    seed_all(seed)
    return agent.learn(batch, **kw)


# --------------------------------------------------------------------------------------- introspection

def networks_of(agent) -> dict:
    """{attribute name: module or list of modules} via agent.evolvable_attributes(networks_only=True)"""
    return dict(agent.evolvable_attributes(networks_only=True))


def optimizers_of(agent) -> dict:
    """{attribute name: OptimizerWrapper}"""
    from agilerl.algorithms.core.wrappers import OptimizerWrapper

    return {k: v for k, v in agent.evolvable_attributes().items() if isinstance(v, OptimizerWrapper)}


def combos(action_kinds: bool = True):
    """(algo, family, action_kind) over ACTION_KINDS (the kinds one normally wants; all supported())"""
    for algo in ALGOS:
        for fam in OBS_FAMILIES:
            kinds = ACTION_KINDS[algo] if action_kinds else ACTION_KINDS[algo][:1]
            for k in kinds:
                yield algo, fam, k


def timed(fn, *a, **k):
    t = time.perf_counter()
    r = fn(*a, **k)
    return r, time.perf_counter() - t
