"""
Smoke test of harness/agents.py:  /venv/bin/python /verif/harness/agents_smoke.py [--all-kinds] [--only ALGO]

For every algorithm x observation family (x action kind): build, sample_obs single + batch, greedy_action
twice (must agree), learn_once twice, clone() then learn_once on the clone.  One line per combo with
timings, then a summary matrix of OK / UNSUPPORTED / BROKEN(stage).  Exit status 0 when every combo is
OK, UNSUPPORTED, or BROKEN-and-listed in agents.KNOWN_BROKEN; 1 when something unlisted breaks or a
listed entry no longer breaks (stale entry).
"""
from __future__ import annotations

import sys
import time
import traceback
import warnings

import agents  # noqa: E402  (imports common)

import numpy as np
import torch

warnings.filterwarnings("ignore")


def same(a, b) -> bool:
    if isinstance(a, dict):
        return a.keys() == b.keys() and all(same(a[k], b[k]) for k in a)
    if isinstance(a, (list, tuple)):
        return len(a) == len(b) and all(same(x, y) for x, y in zip(a, b))
    return np.array_equal(np.asarray(a), np.asarray(b))


def finite(x) -> bool:
    if x is None:
        return True
    if isinstance(x, dict):
        return all(finite(v) for v in x.values())
    if isinstance(x, (list, tuple)):
        return all(finite(v) for v in x)
    try:
        return bool(np.all(np.isfinite(np.asarray(x, dtype=np.float64))))
    except (TypeError, ValueError):
        return True


def run_combo(algo: str, fam: str, kind: str, share=None, variant="plain"):
    """returns (status, stage, message, timings)"""
    T = {}
    stage = "build"
    try:
        t = time.perf_counter()
        ag = agents.build(algo, fam, seed=1, action_kind=kind, share_encoders=share,
                          hp_config=agents.default_hp_config(algo))
        T["build"] = time.perf_counter() - t

        stage = "sample_obs"
        o1 = agents.sample_obs(ag, algo, fam, seed=2)
        on = agents.sample_obs(ag, algo, fam, n=3, seed=2)

        stage = "greedy_action"
        t = time.perf_counter()
        a1 = agents.greedy_action(ag, algo, o1)
        a2 = agents.greedy_action(ag, algo, o1)
        T["act"] = (time.perf_counter() - t) / 2
        if not same(a1, a2):
            return "BROKEN", stage, f"greedy action not deterministic: {a1} vs {a2}", T
        b1 = agents.greedy_action(ag, algo, on)
        b2 = agents.greedy_action(ag, algo, on)
        if not same(b1, b2):
            return "BROKEN", stage, "greedy batch action not deterministic", T

        stage = "networks_of"
        nets = agents.networks_of(ag)
        opts = agents.optimizers_of(ag)
        if not nets or not opts:
            return "BROKEN", stage, f"nets={list(nets)} opts={list(opts)}", T

        stage = "learn"
        t = time.perf_counter()
        l1 = agents.learn_once(ag, algo, fam, seed=3, variant=variant)
        l2 = agents.learn_once(ag, algo, fam, seed=4, variant=variant)
        T["learn"] = (time.perf_counter() - t) / 2
        if not (finite(l1) and finite(l2)):
            return "BROKEN", stage, f"non-finite loss {l1} {l2}", T

        stage = "clone"
        t = time.perf_counter()
        cl = ag.clone()
        T["clone"] = time.perf_counter() - t
        stage = "clone.learn"
        l3 = agents.learn_once(cl, algo, fam, seed=5, variant=variant)
        if not finite(l3):
            return "BROKEN", stage, f"non-finite loss {l3}", T
        stage = "clone.greedy_action"
        agents.greedy_action(cl, algo, o1)
        return "OK", "", "", T
    except AssertionError as e:
        return "BROKEN", stage, f"AssertionError: {str(e)[:160]}", T
    except Exception as e:  # noqa: BLE001
        tb = traceback.extract_tb(e.__traceback__)
        where = ""
        for fr in reversed(tb):
            if "agilerl" in fr.filename:
                where = f" @ {fr.filename.split('agilerl/')[-1]}:{fr.lineno}"
                break
        return "BROKEN", stage, f"{type(e).__name__}: {str(e)[:160]}{where}", T


def determinism_check() -> list[str]:
    """same seed -> identical weights, batch and loss, for one algorithm of each batch form"""
    bad = []
    for algo in ("DQN", "TD3", "PPO", "MADDPG", "IPPO", "NeuralUCB"):
        fam = "vector"
        if agents.known_broken(algo, fam):
            continue
        try:
            out = []
            for _ in range(2):
                ag = agents.build(algo, fam, seed=7)
                loss = agents.learn_once(ag, algo, fam, seed=8)
                pol = ag.actors[0] if agents.is_multi_agent(algo) else ag.actor
                vec = torch.cat([p.detach().flatten() for p in pol.parameters()])
                out.append((loss, vec))
            if not same(out[0][0], out[1][0]) or not torch.equal(out[0][1], out[1][1]):
                bad.append(f"{algo}: same seed gave different loss/weights")
        except Exception as e:  # noqa: BLE001
            bad.append(f"{algo}: {type(e).__name__}: {e}")
    return bad


def main(argv) -> int:
    only = None
    if "--only" in argv:
        only = argv[argv.index("--only") + 1]
    all_kinds = "--all-kinds" in argv
    import agilerl.algorithms  # noqa: F401  (warm-up: keep the one-off import cost out of the timings)
    t0 = time.time()
    rows = []
    matrix: dict[tuple[str, str], list[str]] = {}
    unlisted, stale, notrejected = [], [], []
    for algo in agents.ALGOS:
        if only and algo != only:
            continue
        for fam in agents.OBS_FAMILIES:
            for kind in agents.ACTION_KINDS_ALL:
                if not agents.supported(algo, fam, kind):
                    # a by-design rejection must come from the constructor
                    if all_kinds or fam == "vector":
                        try:
                            agents.build(algo, fam, action_kind=kind)
                            notrejected.append((algo, fam, kind))
                            print(f"{algo:<10} {fam:<8} {kind:<13} UNSUPPORTED?? constructor accepted it")
                        except Exception as e:  # noqa: BLE001
                            print(f"{algo:<10} {fam:<8} {kind:<13} UNSUPPORTED  {type(e).__name__}: {str(e)[:90]}")
                    matrix[(algo, f"{fam}/{kind}")] = ["UNSUPPORTED"]
                    continue
                jobs = [(None, "plain")]
                if algo in agents.SHARE_ENCODER_ALGOS:
                    jobs = [(True, "plain"), (False, "plain")]
                if algo == "RainbowDQN":
                    jobs = [(None, v) for v in ("plain", "per", "nstep", "per_nstep")]
                cell = []
                listed = agents.known_broken(algo, fam, kind)
                for share, variant in jobs:
                    label = f"{algo:<10} {fam:<8} {kind:<13}" + (f" share={share!s:<5}" if share is not None else "") \
                        + (f" {variant}" if variant != "plain" else "")
                    st, stage, msg, T = run_combo(algo, fam, kind, share, variant)
                    tim = " ".join(f"{k}={v * 1e3:.1f}ms" for k, v in T.items())
                    if st == "OK":
                        print(f"{label:<48} OK      {tim}")
                        cell.append("OK")
                        rows.append((algo, T))
                    else:
                        print(f"{label:<48} BROKEN  [{stage}] {msg}" + ("  (listed)" if listed else "  (NOT LISTED)"))
                        cell.append(f"BROKEN:{stage}")
                        if not listed:
                            unlisted.append((algo, fam, kind, stage, msg))
                if listed and all(c == "OK" for c in cell):
                    stale.append((algo, fam, kind))
                if listed and "form='dict'" in listed:
                    # the documented workaround must work
                    try:
                        ag = agents.build(algo, fam, seed=1, action_kind=kind)
                        loss = agents.learn_once(ag, algo, fam, seed=3, form="dict")
                        print(f"{algo:<10} {fam:<8} {kind:<13} workaround form='dict' OK loss={loss}")
                        cell.append("OK(form=dict)")
                    except Exception as e:  # noqa: BLE001
                        print(f"{algo:<10} {fam:<8} {kind:<13} workaround form='dict' FAILED {type(e).__name__}: {e}")
                        unlisted.append((algo, fam, kind, "workaround", str(e)[:100]))
                matrix[(algo, f"{fam}/{kind}")] = cell

    # ------------------------------------------------------------ summary
    def abbrev(cell):
        if cell == ["UNSUPPORTED"]:
            return "-"
        brk = sorted({c.split(":", 1)[1] for c in cell if c.startswith("BROKEN")})
        if not brk:
            return "OK"
        txt = "BROKEN@" + "/".join(brk)
        if any(c == "OK" for c in cell):
            txt += "(partly)"
        if "OK(form=dict)" in cell:
            txt += "+wk"
        return txt

    print("\nSUPPORT MATRIX  (OK | - = rejected by design (supported() False) | BROKEN@stage = listed in "
          "KNOWN_BROKEN; +wk = works with make_batch(form='dict'))")
    print(f"  {'algo':<10} {'family':<9}" + "".join(f"{k:<22}" for k in agents.ACTION_KINDS_ALL))
    for algo in agents.ALGOS:
        if only and algo != only:
            continue
        for fam in agents.OBS_FAMILIES:
            print(f"  {algo:<10} {fam:<9}" + "".join(
                f"{abbrev(matrix.get((algo, f'{fam}/{k}'), ['?'])):<22}" for k in agents.ACTION_KINDS_ALL))
    if rows:
        print("\nTIMINGS (mean ms over OK combos)")
        for algo in agents.ALGOS:
            ts = [T for a, T in rows if a == algo]
            if ts:
                def m(k):
                    v = [t[k] for t in ts if k in t]
                    return (sum(v) / len(v) * 1e3) if v else float("nan")
                print(f"  {algo:<10} build={m('build'):7.1f} act={m('act'):6.1f} learn={m('learn'):7.1f} clone={m('clone'):7.1f}")
    bad = determinism_check() if not only else []
    for b in bad:
        print("DETERMINISM:", b)
    print(f"\nlearn forms: " + ", ".join(f"{a}={agents.learn_form(a)}" for a in agents.ALGOS
                                          if not only or a == only))
    print(f"KNOWN_BROKEN entries: {len(agents.KNOWN_BROKEN)}  unlisted failures: {len(unlisted)}  "
          f"stale entries: {len(stale)}  wall={time.time() - t0:.1f}s")
    for u in unlisted:
        print("  UNLISTED:", u)
    for s in stale:
        print("  STALE (listed in KNOWN_BROKEN but works):", s)
    for u in notrejected:
        print("  NOT REJECTED although supported() is False:", u)
    return 1 if (unlisted or stale or bad or notrejected) else 0


if __name__ == "__main__":
    sys.exit(main(sys.argv[1:]))
