"""
C01 — a cloned agent is a faithful and fully independent copy of its parent.

Correspondence: histories of clone / learn / mutate / discard on real agents of all eleven
algorithms; after every operation the object-graph walker (walker.py) measures, per attribute
group, which mutable cells each live agent reaches and their value fingerprints.  The Lean heap
model (Model/Heap.lean, repaired rule table) is driven with the same history and must predict
(a) exactly the set of cross-agent alias pairs (only the by-reference constructor arguments:
spaces, net_config, …) and (b) value equalities: whatever the model says is equal (child = parent
right after a clone; bystanders unchanged by an operation) is bit-equal in the implementation.

Oracle (the statement itself): after a clone the child picks the same greedy actions and computes
the same update from the same batch as its parent; training / mutating / discarding one agent
changes no other agent's weights, optimizer moments, step counters, registry or score lists.

Round 3 additions (classes, not instances):
* agents wrapped by a class of agilerl.wrappers.agent (every concrete AgentWrapper subclass that can
  be constructed from an agent alone, e.g. RSNorm) are agents too: `wrap:*` attribute groups of the
  wrapper object join the model's attribute list (AgentWrapper.clone runs the same copy_attributes),
  histories contain `act` (get_action in training mode, as the training loops call it) and the frame
  oracle covers the wrapper state; independently of the walker, no operation on one agent may change
  the greedy actions another agent picks for a fixed probe observation.
* "computes the same update from the same batch": after EVERY clone of a history, harness-made deep
  copies of parent and clone take the same k >= 2*policy_freq consecutive learn steps on the same
  batches under the same torch / numpy / random seeds; returned losses and all resulting state
  (weights, targets, optimizer state, attributes, hidden attributes, wrapper state) must be bit-equal.
* hidden state: every instance attribute that neither evolvable_attributes() nor
  inspect_attributes() lists (`hid:*`) is measured as well: it must be carried over by value unless it
  is per-instance identity (two clones of the same parent differ in it), must not be shared, and must
  not be changed by an operation on another agent.

Source translation (`pre_gate`, before the Lean gate): `py2lean_clone.py` translates, from the source text of
agilerl/algorithms/core/base.py and agilerl/wrappers/agent.py of the tree under test, the if-chain of
`copy_attributes` (decision function `copyAttr` / `copyRule`), the listing predicate of `inspect_attributes`, and
the phases of `EvolvableAlgorithm.clone` / `AgentWrapper.clone` in source order into `lean/Gen/CloneGen.lean`;
`Proofs/CloneGenEq.lean` proves them equal to the explicit clone semantics of `Model/Heap.lean` (and the rule
table derived from them equal to `ruleOf false`, which the driver uses); `Props/C01.lean` restates the C01
theorems for the generated table (`C01_source_translation_*`).  `walker.classify` (which hard-codes the branch
order) is compared with the order read from the source.  A failure is a gate problem naming the broken
declaration; the suites below then supply the failing history if there is one.
"""
from __future__ import annotations

import ast
import copy
import gc
import inspect
import json
import os
import random
import textwrap
import time

import numpy as np
import torch

from common import ROOT, Check, InfraError, ddmin
import walker

# attributes that the algorithm re-derives on every copy — allowed by the property text (target
# re-synchronised with the online network) …
RESYNC = {"DQN": {"net:actor_target": "net:actor"}}
# … (the bandits' init_params hook also runs on the clone, but copy_attributes then copies the
# parent's sigma_inv / theta_0 over the re-initialised ones, so nothing differs: measured, not assumed)
REINIT: dict = {}
# bookkeeping attributes that legitimately differ between parent and child
DIFFER_OK = {"attr:index", "attr:c01_tag", "hid:_index"}

MUT_KINDS = ["arch", "param", "act", "rl_hp", "none"]


def mutations(kind: str, seed: int):
    from agilerl.hpo.mutation import Mutations
    p = {"none": 0, "arch": 0, "param": 0, "act": 0, "rl_hp": 0}
    p[kind] = 1
    return Mutations(no_mutation=p["none"], architecture=p["arch"], new_layer_prob=0.5, parameters=p["param"],
                     activation=p["act"], rl_hp=p["rl_hp"], mutation_sd=0.1, rand_seed=seed, device="cpu")


# ------------------------------------------------------------------------------------ wrapped agents
def wrapper_classes() -> dict:
    """every concrete AgentWrapper subclass defined in agilerl.wrappers.agent (RSNorm, and whatever is
    added there later): discovered, not listed"""
    import agilerl.wrappers.agent as W
    out = {}
    for n, c in sorted(vars(W).items()):
        if inspect.isclass(c) and issubclass(c, W.AgentWrapper) and c is not W.AgentWrapper \
                and not inspect.isabstract(c) and c.__module__ == W.__name__:
            out[n] = c
    return out


_WRAP_OK: dict = {}


def wrap_supported(wrap: str, algo: str, family: str) -> tuple[bool, str]:
    """does the tree under test let `wrap(algo agent)` act in training mode and learn at all?  (RSNorm
    documents that it only supports off-policy single-agent algorithms; what it rejects is not C01's
    business.)  Found by trying on a throw-away agent — without clone() — and cached."""
    import agents as A
    key = (wrap, algo, family)
    if key not in _WRAP_OK:
        with A._PreservedRNG():
            try:
                ag = wrapper_classes()[wrap](A.build(algo, family, seed=0, hp_config=A.default_hp_config(algo)))
                act_training(ag, algo, A.sample_obs(ag, algo, family, 3, seed=0), 0)
                pure_greedy(ag, algo, A.sample_obs(ag, algo, family, 3, seed=1), 0)
                A.learn_once(ag, algo, family, seed=0)
                _WRAP_OK[key] = (True, "")
            except Exception as e:  # noqa: BLE001
                _WRAP_OK[key] = (False, f"{type(e).__name__}: {str(e)[:120]}")
    return _WRAP_OK[key]


def act_training(agent, algo: str, obs, seed: int):
    """get_action the way the training loops call it (training mode, exploration on): updates whatever
    per-agent state acting updates (observation statistics of a wrapper, the bandits' confidence matrix,
    exploration-noise state, …)"""
    import agents as A
    A.seed_all(seed)
    if hasattr(agent, "set_training_mode"):
        agent.set_training_mode(True)
    if algo in ("DQN", "CQN"):
        return agent.get_action(obs, epsilon=0.25)
    if algo in ("RainbowDQN", "DDPG", "TD3", "MADDPG", "MATD3"):
        return agent.get_action(obs, training=True)
    if algo == "PPO":
        return agent.get_action(obs)
    if algo == "IPPO":
        return agent.get_action(obs=obs, infos=None)
    if A.is_bandit(algo):
        return [agent.get_action(c) for c in (obs if isinstance(obs, list) else [obs])]
    raise InfraError(f"act_training: unknown algorithm {algo}")


def pure_greedy(agent, algo: str, obs, torch_seed: int):
    """agents.greedy_action as a pure function also for wrapped agents: a wrapper updates its statistics
    whenever the agent is in training mode, so it is put in evaluation mode for the call (restored)"""
    import agents as A
    inner, wrapper = walker.unwrap(agent)
    if wrapper is None:
        return A.greedy_action(agent, algo, obs, torch_seed=torch_seed)
    was = bool(getattr(inner, "training", True))
    agent.set_training_mode(False)
    try:
        return A.greedy_action(agent, algo, obs, torch_seed=torch_seed)
    finally:
        agent.set_training_mode(was)


class _NonLeafDeepcopy:
    """copy.deepcopy refuses non-leaf tensors (PPO / IPPO keep the last distribution's tensors): inside
    this context they are copied detached (their autograd history plays no role in a later learn step)"""

    def __enter__(self):
        self.orig = torch.Tensor.__deepcopy__
        orig = self.orig

        def dc(t, memo):
            if not t.is_leaf:
                r = t.detach().clone()
                memo[id(t)] = r
                return r
            return orig(t, memo)
        torch.Tensor.__deepcopy__ = dc
        return self

    def __exit__(self, *exc):
        torch.Tensor.__deepcopy__ = self.orig
        return False


def harness_copy(agent):
    """a faithful private copy of an agent made by the harness — NOT by clone(), which is under test:
    copy.deepcopy of the whole object (all attributes incl. underscore-prefixed ones, parameter identity
    between networks and optimizers preserved by the memo).  A wrapped agent is copied as
    (deepcopy of the algorithm without the wrapper's method patches) + (a new wrapper object wired by
    AgentWrapper.__init__ with deep-copied wrapper attributes)."""
    inner, wrapper = walker.unwrap(agent)
    with _NonLeafDeepcopy():
        if wrapper is None:
            return copy.deepcopy(inner)
        from agilerl.wrappers.agent import AgentWrapper
        patched = {n: inner.__dict__.pop(n) for n in ("get_action", "learn") if n in inner.__dict__}
        try:
            memo: dict = {}
            inner2 = copy.deepcopy(inner, memo)
        finally:
            inner.__dict__.update(patched)
        w2 = object.__new__(type(wrapper))
        AgentWrapper.__init__(w2, inner2)
        memo[id(wrapper)] = w2
        for k, v in vars(wrapper).items():
            if k in ("agent", "agent_get_action", "agent_learn"):
                continue
            object.__setattr__(w2, k, copy.deepcopy(v, memo))
        return w2


def same_value(a, b) -> bool:
    if isinstance(a, dict):
        return isinstance(b, dict) and a.keys() == b.keys() and all(same_value(a[k], b[k]) for k in a)
    if isinstance(a, (list, tuple)):
        return isinstance(b, (list, tuple)) and len(a) == len(b) and all(same_value(x, y) for x, y in zip(a, b))
    if a is None or b is None:
        return a is None and b is None
    if isinstance(a, torch.Tensor):
        a = a.detach().cpu().numpy()
    if isinstance(b, torch.Tensor):
        b = b.detach().cpu().numpy()
    a, b = np.asarray(a), np.asarray(b)
    try:
        return bool(np.array_equal(a, b, equal_nan=True))
    except TypeError:
        return bool(np.array_equal(a, b))


def brief(x) -> str:
    if isinstance(x, dict):
        return "{" + ", ".join(f"{k}: {brief(v)}" for k, v in list(x.items())[:3]) + "}"
    if isinstance(x, (list, tuple)):
        return "(" + ", ".join(brief(v) for v in list(x)[:4]) + ")"
    if isinstance(x, (float, np.floating)):
        return f"{float(x):.6g}"
    if isinstance(x, (torch.Tensor, np.ndarray)):
        return brief(np.asarray(x.detach() if isinstance(x, torch.Tensor) else x).ravel()[:4].tolist())
    return repr(x)[:40]


def _fp(x, depth: int = 0) -> str:
    """value fingerprint of whatever a network takes / returns (tensors, nested containers, TensorDicts)"""
    if isinstance(x, torch.Tensor):
        return walker.tensor_value(x)
    if x is None or isinstance(x, (int, float, bool, str)):
        return repr(x)
    if depth > 4:
        return type(x).__name__
    if isinstance(x, (list, tuple)):
        return "(" + ",".join(_fp(e, depth + 1) for e in x) + ")"
    if isinstance(x, np.ndarray):
        return walker._h(x.tobytes() + str(x.shape).encode())
    try:
        items = sorted((str(k), v) for k, v in x.items())
        return "{" + ",".join(f"{k}:{_fp(v, depth + 1)}" for k, v in items) + "}"
    except Exception:  # noqa: BLE001
        pass
    d = getattr(x, "__dict__", None)           # e.g. a torch.distributions object: its tensors
    if isinstance(d, dict):
        return type(x).__name__ + "{" + ",".join(f"{k}:{_fp(v, depth + 1)}" for k, v in sorted(d.items())
                                                 if isinstance(v, (torch.Tensor, int, float, bool))) + "}"
    return type(x).__name__


class ForwardRecorder:
    """forward interception on EVERY network of an agent (actors, critics, targets; per-agent members of the
    multi-agent containers): remembers input and output of each network's first forward pass.  Parent and
    clone copies that run the same rollout / learn step under the same seeds must agree network by network —
    state_dicts can be equal while the computed function differs (a layer init_dict does not describe, a
    detached encoder copy that state_dict does not contain)."""

    def __init__(self, agent):
        inner, _ = walker.unwrap(agent)
        self.rec: dict = {}
        self.order: list = []
        self.handles = []
        for name, net in sorted(inner.evolvable_attributes(networks_only=True).items()):
            if hasattr(net, "items") and not isinstance(net, torch.nn.Module) or isinstance(net, torch.nn.ModuleDict):
                members = [(f"{name}[{k}]", m) for k, m in net.items()]
            elif isinstance(net, (list, tuple, torch.nn.ModuleList)):
                members = [(f"{name}[{k}]", m) for k, m in enumerate(net)]
            else:
                members = [(name, net)]
            for label, m in members:
                m = getattr(m, "_orig_mod", m)
                if isinstance(m, torch.nn.Module) and "forward" not in m.__dict__:
                    # EvolvableModule.__call__ calls self.forward directly (forward hooks never fire): shadow
                    # the method on the instance — these are the harness's throw-away copies
                    object.__setattr__(m, "forward", self._wrap(label, m.forward))
                    self.handles.append(m)

    def _wrap(self, label, orig):
        def forward(*args, **kwargs):
            output = orig(*args, **kwargs)
            if label not in self.rec:
                self.rec[label] = (_fp((args, kwargs)), _fp(output))
                self.order.append(label)
            return output
        return forward

    def close(self):
        for m in self.handles:
            m.__dict__.pop("forward", None)
        self.handles = []

    def compare(self, other: "ForwardRecorder") -> str | None:
        for label in self.order:
            if label not in other.rec:
                return f"network {label} is evaluated by the parent but not by the clone"
            (i1, o1), (i2, o2) = self.rec[label], other.rec[label]
            if i1 == i2 and o1 != o2:
                return f"network {label} of the clone computes a different function than the parent's: same input, different output"
            if i1 != i2:
                return f"network {label} of the clone is fed different inputs than the parent's from the same batch"
        extra = [x for x in other.order if x not in self.rec]
        if extra:
            return f"network {extra[0]} is evaluated by the clone but not by the parent"
        return None


_READS: dict = {}


def attr_is_read(obj, name: str) -> bool:
    """does any method of the object's class (other than __init__) READ `self.<name>` (an augmented
    assignment alone is a write)?  A hidden attribute that is only ever written — a diagnostic such as
    the last loss or a call counter kept for logging — cannot influence actions or updates, so a clone
    that starts with the constructor's value is still a faithful copy.  Source unavailable => assume read."""
    cls = type(obj)
    key = (cls, name)
    if key in _READS:
        return _READS[key]
    res = False
    for c in cls.__mro__:
        if c is object or res:
            continue
        try:
            tree = ast.parse(textwrap.dedent(inspect.getsource(c)))
        except Exception:  # noqa: BLE001
            res = res or str(getattr(c, "__module__", "")).startswith("agilerl")
            continue
        for fn in ast.walk(tree):
            if not isinstance(fn, (ast.FunctionDef, ast.AsyncFunctionDef)) or fn.name == "__init__":
                continue
            for node in ast.walk(fn):
                if isinstance(node, ast.Attribute) and node.attr == name and isinstance(node.ctx, ast.Load) \
                        and isinstance(node.value, ast.Name) and node.value.id == "self":
                    res = True
                elif isinstance(node, ast.Constant) and node.value == name:      # getattr(self, "<name>")
                    res = True
    _READS[key] = res
    return res


class Pop:
    """real population + the model op lines that mirror it"""

    def __init__(self, chk: Check, algo: str, family: str, share, seed: int, mode: str = "repaired",
                 wrap: str | None = None, opts: dict | None = None):
        import agents as A
        self.A, self.chk, self.algo, self.family, self.seed, self.wrap = A, chk, algo, family, seed, wrap
        kw = dict(opts or {})                # non-default constructor options of the algorithm
        if os.environ.get("C01_EXPLICIT_ACT"):      # development aid: side-step the encoder default
            cfg = A.default_net_config(algo, family)
            if "hidden_size" in cfg["encoder_config"] or "channel_size" in cfg["encoder_config"]:
                cfg["encoder_config"]["activation"] = "ReLU"
            kw["net_config"] = cfg
        root = A.build(algo, family, seed=seed, share_encoders=share, hp_config=A.default_hp_config(algo), **kw)
        root.c01_tag = 0                     # parent marker used by the `select` op (copied by clone)
        if wrap is not None:
            root = wrapper_classes()[wrap](root)
        self.agents: dict[int, object] = {0: root}
        self.next = 1
        self.groups = {0: walker.family_groups(root)}
        self.hidden = {0: walker.hidden_groups(root)}
        self.names = list(self.groups[0].keys())
        self.idx = {n: k for k, n in enumerate(self.names)}
        self.vid = 1000
        # a target is re-synchronised on every copy only while the algorithm registers the hook doing it
        hooks = [getattr(h, "__name__", str(h)) for h in getattr(root.registry, "hooks", [])]
        self.resync = RESYNC.get(algo, {}) if any("init_hook" in h for h in hooks) else {}
        specs = []
        for n in self.names:
            g = self.groups[0][n]
            tok = g["kind"]
            src = self.resync.get(n)
            if src is not None:
                tok = f"tgt{self.idx[src]}"
            specs.append(tok)
        sizes = [1 if self.groups[0][n]["cells"] else 0 for n in self.names]
        self.lines = [f"heap mode {mode}", "heap new " + " ".join(specs) + " / " + " ".join(map(str, sizes))]
        self.specs = specs
        self.problems: list[str] = []
        self.findings: list[tuple[str, str]] = []
        self.tags: list[str] = []
        self.same_update_checks = 0
        self.fresh_ok: dict[int, set] = {}      # child -> hidden attributes that are legitimately fresh in it
        self.probe_obs = A.sample_obs(root, algo, family, 4, seed=seed + 4242)
        self.greedy: dict[int, object] = {}
        self.probe_greedy()
        self.remeasure()

    # ------------------------------------------------------------------ measuring
    def remeasure(self, ids=None):
        for i in (ids if ids is not None else list(self.agents)):
            self.groups[i] = walker.family_groups(self.agents[i])
            self.hidden[i] = walker.hidden_groups(self.agents[i])
            if list(self.groups[i].keys()) != self.names:
                new = set(self.groups[i]) ^ set(self.names)
                self.problems.append(f"agent {i} has a different attribute set than the root: {sorted(new)}")

    def values(self, i):
        return {n: walker.group_value(g) for n, g in self.groups[i].items()}

    def hidden_values(self, i):
        return {n: walker.group_value(g) for n, g in self.hidden[i].items()}

    def cellsets(self, i):
        return {n: frozenset(g["cells"]) for n, g in self.groups[i].items()}

    def fresh(self):
        self.vid += 1
        return self.vid

    def probe_greedy(self, ids=None) -> dict:
        """greedy actions of the live agents for the fixed probe observation (pure: no agent state is
        changed; bandits re-bind their confidence matrix, so callers re-measure afterwards)"""
        out = {}
        with self.A._PreservedRNG():
            for i in (ids if ids is not None else list(self.agents)):
                try:
                    out[i] = pure_greedy(self.agents[i], self.algo, self.probe_obs, 11)
                except Exception as e:  # noqa: BLE001
                    out[i] = f"raised {type(e).__name__}: {str(e)[:80]}"
        self.greedy.update(out)
        return out

    # ------------------------------------------------------------------ operations
    def op(self, op) -> None:
        kind = op[0]
        before_vals = {i: self.values(i) for i in self.agents}
        before_hid = {i: self.hidden_values(i) for i in self.agents}
        before_cells = {i: self.cellsets(i) for i in self.agents}
        before_greedy = dict(self.greedy)
        actor = op[1] if len(op) > 1 and kind != "select" else None
        if actor is not None and actor not in self.agents:
            return
        clone_pairs: list[tuple[int, int]] = []
        self.lite = False
        if kind == "clone":
            child = self.agents[actor].clone(index=self.next)
            j = self.next
            self.next += 1
            self.agents[j] = child
            self.lines.append(f"heap clone {self.model_index(actor)}")
            self.remeasure([j] + [actor])
            self.after_clone(actor, j)
            clone_pairs.append((actor, j))
            self.lite = len(op) > 2 and op[2] == "lite"
            # after_clone acts with parent and child (bandits: the confidence matrix is saved and restored,
            # i.e. re-bound to a new tensor): measure again so that no stale storage address is kept —
            # a freed address can be reused by another agent's tensor and would look like sharing
            self.remeasure()
            changed_actor = actor
            self.tags.append("clone")
        elif kind == "learn":
            self.A.learn_once(self.agents[actor], self.algo, self.family, seed=op[2])
            self.remeasure()
            changed_actor = actor
            self.tags.append("learn")
        elif kind == "act":
            ag = self.agents[actor]
            obs = self.A.sample_obs(ag, self.algo, self.family, 5, seed=op[2])
            act_training(ag, self.algo, obs, op[2])
            self.remeasure()
            changed_actor = actor
            self.tags.append("act")
        elif kind == "mutate":
            m = mutations(op[2], op[3])
            out = m.mutation([self.agents[actor]])
            self.agents[actor] = out[0]
            self.remeasure()
            changed_actor = actor
            self.tags.append("mutate-" + op[2])
        elif kind == "discard":
            if len(self.agents) <= 1:
                return
            del self.agents[actor]
            del self.groups[actor]
            del self.hidden[actor]
            self.greedy.pop(actor, None)
            gc.collect()
            self.lines.append(f"heap discard {self.model_index(actor, dead_ok=True)}")
            self.remeasure()
            changed_actor = actor
            self.tags.append("discard")
        elif kind == "select":
            # one tournament round over the live agents (elitism on): the elite and every member of the new
            # generation are clones; the old agents stay alive here so that they are observed as bystanders
            from agilerl.hpo.tournament import TournamentSelection
            live = sorted(self.agents)
            if len(live) > 3 or len(live) < 2:
                return
            for t, i in enumerate(live):
                ag = self.agents[i]
                ag.fitness = list(ag.fitness) + [float((op[1] * (t + 3)) % 7)]
                ag.c01_tag = i
            self.remeasure()                  # the scores just assigned are part of the "before" picture
            before_vals = {i: self.values(i) for i in self.agents}
            before_hid = {i: self.hidden_values(i) for i in self.agents}
            before_cells = {i: self.cellsets(i) for i in self.agents}
            ts = TournamentSelection(tournament_size=2, elitism=True, population_size=len(live), eval_loop=1)
            np.random.seed(op[1] % (2 ** 31))
            elite, newpop = ts.select([self.agents[i] for i in live])
            e_parent = elite.c01_tag
            e_id = self.next
            self.next += 1
            self.agents[e_id] = elite
            self.lines.append(f"heap clone {e_parent}")
            pairs = [(e_parent, e_id)]
            for k, member in enumerate(newpop):
                parent = e_id if k == 0 else member.c01_tag       # slot 0 is a copy of the elite object
                j = self.next
                self.next += 1
                self.agents[j] = member
                self.lines.append(f"heap clone {parent}")
                pairs.append((parent, j))
            self.remeasure()
            for parent, child in pairs:
                self.after_clone(parent, child)
            clone_pairs += pairs
            self.remeasure()
            changed_actor = None
            kind = "select"
            self.tags.append("select")
        elif kind == "append":
            ag = self.agents[actor]
            ag.fitness.append(float(op[2]))
            ag.scores.append(float(op[2]))
            ag.steps.append(ag.steps[-1] + 10 if ag.steps else 10)
            self.remeasure()
            changed_actor = actor
            self.tags.append("append")
        else:
            raise InfraError(f"unknown op {op}")
        # --- frame oracle: nobody but the actor changed
        for i in self.agents:
            if i == changed_actor or i not in before_vals:
                continue
            now = self.values(i)
            for n in self.names:
                if now.get(n) != before_vals[i].get(n):
                    self.problems.append(
                        f"{kind} on agent {changed_actor} changed {n} of agent {i} (independence broken)")
            nowh = self.hidden_values(i)
            for n in sorted(set(nowh) | set(before_hid[i])):
                if nowh.get(n) != before_hid[i].get(n):
                    self.problems.append(
                        f"{kind} on agent {changed_actor} changed hidden attribute {n} of agent {i} (independence broken)")
        # --- the same, behaviourally and independent of what the walker reaches: the greedy actions a
        #     bystander picks for the fixed probe observation are what they were before the operation
        now_g = self.probe_greedy()
        for i in self.agents:
            if i == changed_actor or i not in before_greedy:
                continue
            if not same_value(now_g[i], before_greedy[i]):
                self.problems.append(f"{kind} on agent {changed_actor} changed the greedy actions of agent {i} "
                                     f"(independence broken): {brief(before_greedy[i])} -> {brief(now_g[i])}")
        # --- hidden attributes are nobody's by-reference constructor arguments: never shared
        self.hidden_sharing()
        # --- the decisive behavioural oracle: parent and clone compute the same updates from the same batches
        for parent, child in clone_pairs:
            if parent in self.agents and child in self.agents:
                self.same_update(parent, child, lite=self.lite)
        if self.lite and clone_pairs:
            # `clone i lite`: the checked clone leaves the population again within the same operation
            j = clone_pairs[0][1]
            del self.agents[j], self.groups[j], self.hidden[j]
            self.greedy.pop(j, None)
            self.lines.append(f"heap discard {self.model_index(j, dead_ok=True)}")
            self.remeasure()
        elif self.A.is_bandit(self.algo) or clone_pairs:
            self.remeasure()          # probing re-binds the bandits' confidence matrix (see above)
        # --- mirror the actor's own changes into the model so that its views stay in step
        if changed_actor in self.agents and kind not in ("clone", "select"):
            now_v, now_c = self.values(changed_actor), self.cellsets(changed_actor)
            mi = self.model_index(changed_actor)
            for n in self.names:
                k = self.idx[n]
                if now_c[n] != before_cells[changed_actor][n]:
                    if now_c[n]:
                        self.lines.append(f"heap rebind {mi} {k} {self.fresh()}")
                    else:
                        self.lines.append(f"heap rebind {mi} {k}")
                elif now_v[n] != before_vals[changed_actor][n] and now_c[n]:
                    self.lines.append(f"heap write {mi} {k} 0 {self.fresh()}")

    # model agent numbering = creation order including discarded ones
    def model_index(self, i, dead_ok=False):
        return i

    def hidden_sharing(self) -> None:
        live = sorted(self.agents)
        allc, hidc, refc = {}, {}, {}
        for i in live:
            hidc[i] = {c: (n, p) for n, g in self.hidden[i].items() for c, (p, _) in g["cells"].items()}
            allc[i] = {c: n for n, g in self.groups[i].items() for c in g["cells"]}
            allc[i].update({c: n for c, (n, _) in hidc[i].items()})
            refc[i] = {c for n, g in self.groups[i].items() if self.specs[self.idx[n]].endswith(":c")
                       for c in g["cells"]} if list(self.groups[i].keys()) == self.names else set()
        for x, i in enumerate(live):
            for j in live[x + 1:]:
                for a, b in ((i, j), (j, i)):
                    shared = [c for c in hidc[a] if c in allc[b] and not (c in refc[a] and c in refc[b])]
                    if shared:
                        n, p = hidc[a][shared[0]]
                        self.problems.append(f"agents {a} and {b} share mutable state through a hidden attribute: "
                                             f"agent{a}.{p} ({n}) ~ agent{b}.{allc[b][shared[0]]}")

    def after_clone(self, parent: int, child: int) -> None:
        pv, cv = self.values(parent), self.values(child)
        mi = self.model_index(child)
        for n in self.names:
            if n in DIFFER_OK:
                continue
            if n in REINIT.get(self.algo, []):
                if pv[n] != cv[n]:
                    self.findings.append(("C01-bandit-clone-reinit",
                                          f"{self.algo}.clone() re-initialises {n}: child differs from parent"))
                    self.lines.append(f"heap rebind {mi} {self.idx[n]} {self.fresh()}")
                continue
            src = self.resync.get(n)
            want = pv[src] if src is not None else pv[n]
            # a re-synchronised target must equal the parent's online net: compare tensor lists
            if src is not None:
                ok = self.same_tensors(self.groups[parent][src], self.groups[child][n])
            else:
                ok = cv.get(n) == want
            if not ok:
                self.problems.append(f"clone of agent {parent}: {n} of the child is not "
                                     f"{'the online network ' + src if src else 'equal to the parent'}")
        self.hidden_after_clone(parent, child)
        self.wiring_after_clone(parent, child)
        # behavioural part of the statement: same greedy action …
        pa, ca = self.agents[parent], self.agents[child]
        try:
            obs = self.A.sample_obs(pa, self.algo, self.family, 4, seed=self.seed + child)
            with self.A._PreservedRNG():
                a1 = pure_greedy(pa, self.algo, obs, 7)
                a2 = pure_greedy(ca, self.algo, obs, 7)
            if not same_value(a1, a2):
                if self.algo in REINIT:
                    self.findings.append(("C01-bandit-clone-reinit", "greedy action of the clone differs (sigma_inv reset)"))
                else:
                    self.problems.append(f"clone of agent {parent} picks different greedy actions than its parent")
        except Exception as e:  # pragma: no cover
            self.problems.append(f"greedy action on parent/clone raised {type(e).__name__}: {e}")
        # … (the same update from the same batch: same_update(), run by op() once the frame checks are done)

    def wiring_after_clone(self, parent: int, child: int) -> None:
        """a wrapped clone is wired to itself: the method patches installed on its algorithm call the clone's
        wrapper and the wrapper's saved methods are those of the clone's algorithm — never the parent's"""
        inner, wrapper = walker.unwrap(self.agents[child])
        if wrapper is None:
            return
        pin, pw = walker.unwrap(self.agents[parent])
        if inner is pin or wrapper is pw:
            self.problems.append(f"clone of agent {parent}: the wrapped clone is built around the parent's own "
                                 f"{'algorithm' if inner is pin else 'wrapper'} object")
        for n, v in list(vars(inner).items()) + list(vars(wrapper).items()):
            tgt = getattr(getattr(v, "func", v), "__self__", None)
            if tgt is not None and (tgt is pin or tgt is pw) and tgt is not inner and tgt is not wrapper:
                self.problems.append(f"clone of agent {parent}: {n} of the wrapped clone is bound to the parent's "
                                     f"{type(tgt).__name__} (acting / learning through it uses the parent's state)")

    def hidden_after_clone(self, parent: int, child: int) -> None:
        """every attribute clone() never looks at is classified: carried over by value | legitimately fresh
        (per-instance identity: two clones of one parent differ in it; or write-only: no method reads it) |
        dropped state (every clone gets the constructor's value although the code reads it) = not faithful"""
        ph, ch = self.hidden[parent], self.hidden[child]
        ok = self.fresh_ok.setdefault(child, set())
        for n in sorted(set(ph) | set(ch)):
            if n in DIFFER_OK:
                continue
            vp = walker.group_value(ph[n]) if n in ph else None
            vc = walker.group_value(ch[n]) if n in ch else None
            if vp == vc:
                continue
            inner, wrapper = walker.unwrap(self.agents[parent])
            owner, attr = (wrapper, n[len("hid:wrap."):]) if n.startswith("hid:wrap.") else (inner, n[len("hid:"):])
            verdict = "dropped"
            if not attr_is_read(owner, attr):
                verdict = "write-only"
            else:
                try:
                    with self.A._PreservedRNG():
                        sib = self.agents[parent].clone(index=getattr(self.agents[child], "index", None))
                    sg = walker.hidden_groups(sib).get(n)
                    vs = walker.group_value(sg) if sg is not None else None
                    if vs != vc:
                        verdict = "identity"
                    del sib
                except Exception:  # noqa: BLE001
                    pass
            if verdict == "dropped":
                self.problems.append(f"clone of agent {parent}: hidden attribute {n} is not carried over "
                                     f"(parent {walker.describe(ph.get(n))}, child {walker.describe(ch.get(n))}; "
                                     f"the algorithm reads it and every clone gets the same value, so it is state "
                                     f"that clone() drops)")
            else:
                ok.add(n)
                self.tags.append(f"hidden-{verdict}")

    def same_update(self, parent: int, child: int, lite: bool = False) -> None:
        """'computes the same update from the same batch as its parent would' — k consecutive learn steps"""
        A = self.A
        try:
            P, C = harness_copy(self.agents[parent]), harness_copy(self.agents[child])
        except Exception as e:  # noqa: BLE001
            self.tags.append("same-update-skipped")
            self.chk.notes.append(f"same-update check skipped ({self.algo}/{self.family}): harness copy failed: "
                                  f"{type(e).__name__}: {str(e)[:100]}") if len(self.chk.notes) < 20 else None
            return
        self.same_update_checks += 1
        self.tags.append("same-update")
        # the property's allowance: a target the algorithm re-synchronises on every copy may differ —
        # give the parent copy the same re-synchronisation, everything else must agree
        pin, _ = walker.unwrap(P)
        for tgt, src in self.resync.items():
            getattr(pin, tgt.split(":", 1)[1]).load_state_dict(getattr(pin, src.split(":", 1)[1]).state_dict())
        pf = getattr(pin, "policy_freq", 2)
        k = min(8, max(4, 2 * pf)) if isinstance(pf, int) and pf > 0 else 4
        if lite:
            k = 1            # `clone … lite`: one step with the forward-pass comparison only (cheap)
        base = (self.seed * 31 + child * 7 + 5) % 100000
        with A._PreservedRNG():
            for step in range(k):
                # step 1: record, per network, input and output of its FIRST forward pass (rollout / learn)
                rp, rc = (ForwardRecorder(P), ForwardRecorder(C)) if step == 0 else (None, None)
                try:
                    lp = A.learn_once(P, self.algo, self.family, seed=base + step)
                except Exception as e:  # noqa: BLE001  (the parent itself cannot learn: not a clone matter)
                    self.tags.append("same-update-parent-raised")
                    self.chk.notes.append(f"same-update: learn on the parent copy raised {type(e).__name__}: "
                                          f"{str(e)[:100]}") if len(self.chk.notes) < 20 else None
                    return
                finally:
                    if rp is not None:
                        rp.close()
                try:
                    lc = A.learn_once(C, self.algo, self.family, seed=base + step)
                except Exception as e:  # noqa: BLE001
                    if rc is not None:
                        rc.close()
                    self.problems.append(f"clone of agent {parent}: learn step {step + 1} after the clone raised "
                                         f"{type(e).__name__}: {str(e)[:120]} (the parent learns from the same batch)")
                    return
                if rc is not None:
                    rc.close()
                    msg = rp.compare(rc)
                    if msg:
                        self.problems.append(f"clone of agent {parent}: {msg} (first forward pass after the clone, same "
                                             f"batch and seeds)")
                        return
                    self.tags.append("net-outputs")
                if not same_value(lp, lc):
                    self.problems.append(
                        f"clone of agent {parent} computes a different update: learn step {step + 1} of {k} on the same "
                        f"batch and seed returns {brief(lp)} for the parent and {brief(lc)} for the clone")
                    return
                gp = walker.family_groups(P)
                gc_ = walker.family_groups(C)
                gp.update(walker.hidden_groups(P))
                gc_.update(walker.hidden_groups(C))
                bad = [n for n in sorted(set(gp) | set(gc_)) if n not in DIFFER_OK
                       and n not in self.fresh_ok.get(child, ())
                       and (n not in gp or n not in gc_ or walker.group_value(gp[n]) != walker.group_value(gc_[n]))]
                if bad:
                    self.problems.append(
                        f"clone of agent {parent} computes a different update: after learn step {step + 1} of {k} on the "
                        f"same batches and seeds {', '.join(bad[:6])} differ between parent and clone")
                    return
        del P, C

    @staticmethod
    def same_tensors(g1, g2) -> bool:
        v1 = sorted((p.split(".", 1)[-1], v) for p, v in g1["cells"].values())
        v2 = sorted((p.split(".", 1)[-1], v) for p, v in g2["cells"].values())
        return v1 == v2

    # ------------------------------------------------------------------ correspondence
    def observe(self) -> list[str]:
        """canonical observable lines of the implementation, in the order of `probe_lines`"""
        live = sorted(self.agents)
        pairs = walker.alias_pairs({i: self.groups[i] for i in live})
        txt = " ".join(sorted(f"{i}.{self.idx[a]}={j}.{self.idx[b]}" for i, a, j, b in pairs
                              if a in self.idx and b in self.idx))
        return [txt]

    def probe_lines(self) -> list[str]:
        return ["heap alias"]


def sort_pairs(line: str) -> str:
    return " ".join(sorted(line.split()))


def run_history(chk: Check, algo: str, family: str, share, seed: int, ops, mode="repaired", wrap=None, opts=None):
    """returns dict(diff, problems, findings, tags, impl, model)"""
    pop = Pop(chk, algo, family, share, seed, mode, wrap, opts)
    impl_lines: list[str] = []
    probe_at: list[int] = []
    for op in ops:
        try:
            pop.op(op)
        except InfraError:
            raise
        except Exception as e:
            pop.problems.append(f"{op[0]} on agent {op[1] if len(op) > 1 else '?'} raised {type(e).__name__}: {str(e)[:200]}")
            break
        probe_at.append(len(pop.lines))
        pop.lines += pop.probe_lines()
        impl_lines += pop.observe()
    out = chk.driver.run(["reset"] + pop.lines)[1:]
    model_lines = [sort_pairs(out[i]) for i in probe_at]
    bad = [o for o in out if o in ("bad-op",)]
    if bad:
        raise InfraError(f"driver rejected a C01 op: {pop.lines}")
    diff = next((i for i, (a, b) in enumerate(zip(impl_lines, model_lines)) if sort_pairs(a) != b), None)
    return {"diff": diff, "problems": pop.problems, "findings": pop.findings, "tags": pop.tags,
            "impl": impl_lines, "model": model_lines, "names": pop.names, "specs": pop.specs,
            "same_update_checks": pop.same_update_checks}


def gen_history(rng: random.Random, length: int):
    ops = [["learn", 0, rng.randrange(1000)], ["clone", 0]]
    n = 2
    if rng.random() < 0.5:
        # one tournament round early on: elite + a new generation of two (ids 2, 3, 4), old agents stay alive
        ops += [["learn", 1, rng.randrange(1000)], ["select", rng.randrange(1, 1000)]]
        n = 5
    for _ in range(length):
        r = rng.random()
        i = rng.randrange(n)
        if r < 0.25:
            ops.append(["learn", i, rng.randrange(1000)])
        elif r < 0.37:
            ops.append(["act", i, rng.randrange(1000)])
        elif r < 0.54:
            ops.append(["clone", i])
            n += 1
        elif r < 0.80:
            ops.append(["mutate", i, rng.choice(MUT_KINDS), rng.randrange(1000)])
        elif r < 0.86:
            ops.append(["append", i, rng.randrange(100)])
        elif r < 0.93:
            ops.append(["select", rng.randrange(1, 1000)])
            n += 0            # ids of the new generation are allocated by the harness; later ops address old ids
        else:
            ops.append(["discard", i])
    # always end by acting with / training the latest clone and its parent
    ops.append(["act", n - 1, rng.randrange(1000)])
    ops.append(["learn", n - 1, rng.randrange(1000)])
    ops.append(["act", 0, rng.randrange(1000)])
    ops.append(["learn", 0, rng.randrange(1000)])
    return ops


def gen_wrapped_history(rng: random.Random, length: int):
    """histories for wrapped agents: acting in training mode moves the wrapper's state, so the parent acts
    before it is cloned (the statistics differ from a new wrapper's) and family members act afterwards"""
    ops = [["act", 0, rng.randrange(1000)], ["learn", 0, rng.randrange(1000)], ["act", 0, rng.randrange(1000)],
           ["clone", 0], ["clone", 0], ["act", 0, rng.randrange(1000)], ["act", 2, rng.randrange(1000)]]
    n = 3
    for _ in range(length):
        r = rng.random()
        i = rng.randrange(n)
        if r < 0.35:
            ops.append(["act", i, rng.randrange(1000)])
        elif r < 0.55:
            ops.append(["learn", i, rng.randrange(1000)])
        elif r < 0.70:
            ops.append(["clone", i])
            n += 1
        elif r < 0.90:
            ops.append(["mutate", i, rng.choice(MUT_KINDS), rng.randrange(1000)])
        else:
            ops.append(["select", rng.randrange(1, 1000)])
    ops.append(["act", n - 1, rng.randrange(1000)])
    ops.append(["learn", 1, rng.randrange(1000)])
    return ops


def gen_kinds_history(rng: random.Random, full_end: bool = True):
    """learn; for each of the five mutation kinds (random order): mutate the root, clone it (`lite`: first forward
    pass of every network + one learn step compared; the clone leaves the population again) — a later mutation may rebuild the networks
    from init_dict and hide what an earlier one left behind —; finally a fully checked clone that is trained"""
    ops = [["learn", 0, rng.randrange(1000)]]
    kinds = list(MUT_KINDS)
    rng.shuffle(kinds)
    nxt = 1
    for kind in kinds:
        ops += [["mutate", 0, kind, rng.randrange(1000)], ["clone", 0, "lite"]]
        nxt += 1
    if full_end:
        ops += [["learn", 0, rng.randrange(1000)], ["clone", 0], ["learn", nxt, rng.randrange(1000)]]
    return ops


# non-default values for constructor options, by parameter name (applied when the signature has the name and the
# tree under test constructs, acts and learns with it); chosen so that the option really changes what learn() does
# (target_kl small enough to stop every update early, update_epochs > 1, delayed policy updates every 3rd step, …)
NONDEFAULT = {"target_kl": 1e-9, "update_epochs": 3, "policy_freq": 3, "double": True, "tau": 0.05, "gamma": 0.9,
              "clip_coef": 0.1, "ent_coef": 0.02, "vf_coef": 0.3, "gae_lambda": 0.9, "max_grad_norm": 0.4,
              "expl_noise": 0.2, "O_U_noise": False, "noise_std": 0.3, "lamb": 0.5, "reg": 0.01,
              "lr": 0.01, "lr_actor": 0.01, "lr_critic": 0.02, "learn_step": 3, "theta": 0.1, "dt": 0.02}
_OPTS: dict = {}


def nondefault_options(algo: str) -> dict:
    import agents as A
    if algo in _OPTS:
        return _OPTS[algo]
    try:
        params = inspect.signature(A.algo_class(algo).__init__).parameters
    except Exception:  # noqa: BLE001
        params = {}
    cand = {k: v for k, v in NONDEFAULT.items() if k in params}

    def works(o):
        with A._PreservedRNG():
            try:
                ag = A.build(algo, "vector", seed=0, hp_config=A.default_hp_config(algo), **o)
                act_training(ag, algo, A.sample_obs(ag, algo, "vector", 3, seed=0), 0)
                A.learn_once(ag, algo, "vector", seed=0)
                return True
            except Exception:  # noqa: BLE001
                return False
    if not works(cand):
        cand = {k: v for k, v in cand.items() if works({k: v})}
        if not works(cand):
            cand = {}
    _OPTS[algo] = cand
    return cand


WRAP_ALGOS = ["DQN", "RainbowDQN", "CQN", "DDPG", "TD3", "PPO", "NeuralUCB", "NeuralTS", "MADDPG", "MATD3", "IPPO"]


def case_list(chk: Check):
    import agents as A
    rng = chk.rng
    cases = []
    for f in sorted((ROOT / "corpus" / "C01").glob("*.json")):
        c = json.loads(f.read_text())
        wrap = c.get("wrap")
        if wrap is not None and (wrap not in wrapper_classes() or not wrap_supported(wrap, c["algo"], c["family"])[0]):
            chk.notes.append(f"corpus case {f.name} skipped: {wrap}({c['algo']}) cannot act/learn on this tree")
            continue
        cases.append((c["algo"], c["family"], c.get("share"), c["seed"], c["ops"], wrap, c.get("opts")))
    fams = {"quick": ["vector"], "thorough": ["vector", "image", "dict", "discrete"]}[chk.tier]
    reps = 1 if chk.tier == "quick" else 2
    length = 5 if chk.tier == "quick" else 12
    for algo in A.ALGOS:
        for fam in fams:
            if not A.supported(algo, fam) or A.known_broken(algo, fam):
                continue
            shares = [None]
            if algo in A.SHARE_ENCODER_ALGOS:
                shares = [True, False] if (chk.tier == "thorough" or fam == "vector") else [True]
            for share in shares:
                for _ in range(reps):
                    cases.append((algo, fam, share, rng.randrange(1 << 20), gen_history(rng, length), None, None))
    # every mutation kind x every observation-space family x every algorithm that accepts it: a directed history
    # (all five kinds in random order, a cheap clone check after each, a full one at the end)
    for algo in A.ALGOS:
        for fam in ["image", "dict", "tuple", "discrete"]:
            if A.supported(algo, fam) and not A.known_broken(algo, fam):
                cases.append((algo, fam, None, rng.randrange(1 << 20), gen_kinds_history(rng, chk.tier != "quick"), None, None))
    # non-default constructor options (whatever of NONDEFAULT the signature has and the tree accepts)
    for algo in A.ALGOS:
        opts = nondefault_options(algo)
        if opts:
            cases.append((algo, "vector", None, rng.randrange(1 << 20),
                          gen_history(rng, 1 if chk.tier == "quick" else 8), None, opts))
    # wrapped agents: every wrapper class of agilerl.wrappers.agent x every algorithm it can act and learn with
    wfams = ["vector", "dict"] if chk.tier == "quick" else ["vector", "image", "dict", "tuple", "discrete"]
    for wname in wrapper_classes():
        usable, unusable = [], []
        for algo in WRAP_ALGOS:
            for fam in wfams:
                if not A.supported(algo, fam) or A.known_broken(algo, fam):
                    continue
                ok, why = wrap_supported(wname, algo, fam)
                (usable if ok else unusable).append((algo, fam, why))
        if unusable:
            chk.notes.append(f"{wname}: cannot act/learn on this tree with " +
                             ", ".join(sorted({f'{a} ({w})' for a, _f, w in unusable}))[:600])
        if chk.tier == "quick":
            picked = rng.sample(usable, min(3, len(usable)))
        else:
            picked = usable
        for algo, fam, _ in picked:
            cases.append((algo, fam, None, rng.randrange(1 << 20), gen_wrapped_history(rng, length), wname, None))
    return cases


def report(chk: Check, case, res, shrink=True):
    algo, fam, share, seed, ops, wrap, opts = case
    label = (f"{wrap}({algo})" if wrap else algo) + (f"[{', '.join(f'{k}={v}' for k, v in opts.items())}]" if opts else "")
    replay = {"algo": algo, "family": fam, "share": share, "seed": seed, "wrap": wrap, "opts": opts, "ops": ops,
              "impl_alias": res["impl"], "model_alias": res["model"], "groups": res.get("names"),
              "problems": res["problems"], "correspondence": "harness/c01.py + walker.py vs Model/Heap.lean",
              "theorems": chk.gate["theorems"]}
    if res["problems"]:
        if shrink:
            budget = [30]

            def fails(sub):
                if budget[0] <= 0:
                    return False
                budget[0] -= 1
                try:
                    return bool(run_history(chk, algo, fam, share, seed, sub, wrap=wrap, opts=opts)["problems"])
                except Exception:
                    return False
            small = ddmin(ops, fails)
            r2 = run_history(chk, algo, fam, share, seed, small, wrap=wrap, opts=opts)
            if r2["problems"]:
                replay.update(ops=small, problems=r2["problems"], impl_alias=r2["impl"], model_alias=r2["model"])
        chk.violation(f"{label}/{fam}/share={share}: {replay['problems'][0]}", replay)
    elif res["diff"] is not None:
        d = res["diff"]
        extra = set(res["impl"][d].split()) - set(res["model"][d].split())
        missing = set(res["model"][d].split()) - set(res["impl"][d].split())
        names = res["names"]

        def nm(p):
            a, b = p.split("=")
            return f"agent{a.split('.')[0]}.{names[int(a.split('.')[1])]} ~ agent{b.split('.')[0]}.{names[int(b.split('.')[1])]}"
        if extra:
            # the implementation shares mutable state the model says is private: that IS the property
            chk.violation(f"{label}/{fam}: agents share mutable state: " + "; ".join(nm(p) for p in sorted(extra)[:4]), replay)
        else:
            chk.violation(f"{label}/{fam}: model expects by-reference sharing that the implementation no longer has: "
                          + "; ".join(nm(p) for p in sorted(missing)[:4]) + " (property oracle holds)", replay, no_input=True)


def pre_gate(chk: Check) -> None:
    """Regenerate lean/Gen/CloneGen.lean from the source text of EvolvableAlgorithm.{inspect_attributes,
    copy_attributes, clone} and AgentWrapper.clone of the tree under test (before the Lean gate) and re-check
    `generated = explicit clone semantics of Model/Heap.lean` (Proofs/CloneGenEq.lean) and the theorems over the
    generated rule table (Props/C01.lean, `C01_source_translation_*`).  A failure is a gate problem naming the
    broken declaration; the suites below then supply the failing history.  Also: walker.classify hard-codes the
    branch order of copy_attributes — it is compared with the order read from the source on a zoo of values."""
    import common
    import py2lean_clone
    common.translation_gate(chk, py2lean_clone, "Gen/CloneGen.lean", ["Gen.CloneGen", "Proofs.CloneGenEq", "Props.C01"],
                            "what clone() does to each attribute: the decision table of copy_attributes, the members "
                            "inspect_attributes lists, the phases of EvolvableAlgorithm.clone and AgentWrapper.clone "
                            "in source order")
    info = chk.corr.get("source_translation", {}).get("Gen/CloneGen.lean", {})
    try:
        branches = py2lean_clone.branch_classes(common.REPO)
        bad = walker.classify_consistency(branches)
    except py2lean_clone.Unsupported:
        return                                       # already recorded by the translation gate
    except Exception as e:  # noqa: BLE001  (agilerl of the tree under test does not import: the suites will say so)
        info["classify_consistency"] = f"not checked: {type(e).__name__}: {str(e)[:120]}"
        return
    info["classify_branch_order"] = branches
    info["classify_consistency"] = "consistent" if not bad else bad[:6]
    if bad:
        chk.gate.setdefault("problems", []).append(
            "walker.classify (kind tokens handed to the Lean heap model) no longer follows the branch order of "
            "copy_attributes as read from the source: " + "; ".join(bad[:3]))


def run(chk: Check) -> None:
    chk.rule = ("histories of clone / learn / act (get_action in training mode) / mutate(kind) / select / append / "
                "discard on real agents of all eleven algorithms (tiny networks), bare and wrapped by every wrapper "
                "class of agilerl.wrappers.agent; after every op the walker measures cross-agent aliasing and value "
                "fingerprints per attribute group (incl. wrapper attributes and attributes inspect_attributes skips) "
                "and the bystanders' greedy actions; after every clone parent and clone copies take the same k "
                "learn steps; distinct = distinct (algo, family, share_encoders, wrapper, seed, history); "
                "non-trivial = history contains at least one clone followed by a learn or mutate of parent or child")
    chk.assumptions = ["the walker reaches every mutable object an agent owns (every instance attribute of the "
                       "algorithm and of its wrapper, networks incl. detached tensors, optimizer state and "
                       "param_groups); independent of that, bystanders' greedy actions and the parent/clone "
                       "k-step learn comparison are behavioural",
                       "torch CPU kernels are deterministic for identical inputs and seeds",
                       "copy.deepcopy of an agent (harness-side reference copy for the k-step comparison) is faithful"]
    cases = case_list(chk)
    ndiff = 0
    nsame = 0
    spent: dict = {}
    for case in cases:
        algo, fam, share, seed, ops, wrap, opts = case
        t_case = time.time()
        try:
            res = run_history(chk, algo, fam, share, seed, ops, wrap=wrap, opts=opts)
        except InfraError:
            raise
        cat = "wrapped" if wrap else "options" if opts else "kinds-x-families" if any(
            o[0] == "clone" and len(o) > 2 for o in ops) else "histories"
        spent[cat] = round(spent.get(cat, 0.0) + time.time() - t_case, 1)
        nsame += res["same_update_checks"]
        nontriv = any(o[0] == "clone" for o in ops) and any(o[0] in ("learn", "mutate") for o in ops)
        chk.case([algo, fam, share, wrap, opts, seed, ops], nontrivial=nontriv,
                 sample={"algo": algo, "family": fam, "share_encoders": share, "wrapper": wrap, "options": opts,
                         "ops": ops[:6]},
                 tags=res["tags"] + [f"algo-{algo}", f"obs-{fam}"] + ([f"wrap-{wrap}"] if wrap else [])
                 + ([f"opt-{k}" for k in opts] if opts else [])
                 + [f"{fam}-x-{o[2]}" for o in ops if o[0] == "mutate"])
        for fid, detail in dict(res["findings"]).items():
            chk.finding(fid, detail, {"algo": algo, "family": fam, "seed": seed, "wrap": wrap, "opts": opts, "ops": ops})
        if res["problems"] or res["diff"] is not None:
            ndiff += res["diff"] is not None
            report(chk, case, res)
    chk.notes.append(f"seconds per case family: {spent}")
    chk.suite("heap-histories", len(cases), ndiff)
    chk.suite("same-update-after-clone", nsame, 0)
    if cases and nsame == 0:
        raise InfraError("C01: the parent/clone k-step learn comparison never ran (harness copies fail)")
    if chk.tier == "thorough":
        selftest(chk)


def selftest(chk: Check) -> None:
    """seeded faults, one per oracle class; each must be noticed"""
    from agilerl.algorithms.core.base import EvolvableAlgorithm
    orig = EvolvableAlgorithm.copy_attributes

    # (1) clone() that shares the fitness list with its parent
    def broken(agent, clone):
        clone = orig(agent, clone)
        clone.fitness = agent.fitness
        return clone
    EvolvableAlgorithm.copy_attributes = staticmethod(broken)
    try:
        res = run_history(chk, "DQN", "vector", None, 1, [["clone", 0], ["append", 1, 5]])
    finally:
        EvolvableAlgorithm.copy_attributes = staticmethod(orig)
    if not res["problems"] and res["diff"] is None:
        raise InfraError("C01 self-test: shared fitness list was not noticed")
    chk.notes.append("self-test: clone sharing its parent's fitness list detected")

    # (2) a clone that drops a step counter (hidden or not): out of phase in TD3's delayed policy update
    def dropped(agent, clone):
        clone = orig(agent, clone)
        if hasattr(clone, "learn_counter") and isinstance(clone.learn_counter, int):
            clone.learn_counter = 0
        return clone
    EvolvableAlgorithm.copy_attributes = staticmethod(dropped)
    try:
        res = run_history(chk, "TD3", "vector", None, 1, [["learn", 0, 3], ["clone", 0]])
    finally:
        EvolvableAlgorithm.copy_attributes = staticmethod(orig)
    if not any("different update" in p or "learn_counter" in p for p in res["problems"]):
        raise InfraError("C01 self-test: a clone out of phase in the policy-delay cycle was not noticed")
    chk.notes.append("self-test: clone with a reset learn counter detected (same-update oracle)")

    # (3) a wrapped clone that shares its wrapper's state with the parent
    for wname, cls in wrapper_classes().items():
        if not wrap_supported(wname, "DQN", "vector")[0]:
            continue
        oclone = cls.clone

        def shared(self, index=None, wrap=True, _o=oclone):
            c = _o(self, index, wrap)
            for k, v in vars(self).items():
                if k not in ("agent", "agent_get_action", "agent_learn") and not walker.is_immutable(v):
                    object.__setattr__(c, k, v)
            return c
        cls.clone = shared
        try:
            res = run_history(chk, "DQN", "vector", None, 1,
                              [["act", 0, 1], ["clone", 0], ["act", 0, 2], ["act", 1, 3]], wrap=wname)
        finally:
            cls.clone = oclone
        if not res["problems"] and res["diff"] is None:
            raise InfraError(f"C01 self-test: {wname} clone sharing the wrapper state was not noticed")
        chk.notes.append(f"self-test: {wname} clone sharing its parent's wrapper state detected")


def replay(chk: Check, path: str) -> int:
    c = json.loads(open(path).read())
    c = c.get("replay", c)
    res = run_history(chk, c["algo"], c["family"], c.get("share"), c["seed"], c["ops"], wrap=c.get("wrap"), opts=c.get("opts"))
    print(json.dumps({k: res[k] for k in ("diff", "problems", "findings", "impl", "model")}, indent=1, default=str))
    if res["problems"]:
        print(f"VIOLATION property=C01 replay={path}")
        return 1
    if res["diff"] is not None:
        print(f"VIOLATION property=C01 replay={path} no-failing-input-found")
        return 1
    return 0


# ---------------------------------------------------------------------------------------------------------------------
# module-level suite: `module.clone()` itself (Gen/ModCloneGen.lean, Heap.moduleCloneRule)
# ---------------------------------------------------------------------------------------------------------------------
# The rule proved equal to the generated one (Proofs/ModCloneGenEq.lean): parameter / buffer tensors FRESH, every
# container of init_dict at every nesting depth FRESH, the two method-name lists SHARED (by reference, as the source
# says), values equal.  Measured here on real modules of every kind; then the clone is mutated in place (an advertised
# mutation method, a parameter write, an edit of every recorded list / dict) and the original must not move.

MODULE_RULE = {"params": "fresh", "initArg": "fresh", "methodLists": "fresh"}


def _module_zoo():
    import numpy as np
    import torch
    from gymnasium import spaces
    box = spaces.Box(-1.0, 1.0, (4,), np.float32)
    img = spaces.Box(0.0, 1.0, (2, 12, 12), np.float32)
    dct = spaces.Dict({"v": spaces.Box(-1.0, 1.0, (3,), np.float32), "i": spaces.Box(0.0, 1.0, (1, 12, 12), np.float32)})
    disc, cont = spaces.Discrete(3), spaces.Box(-1.0, 1.0, (2,), np.float32)

    def mlp():
        from agilerl.modules.mlp import EvolvableMLP
        return EvolvableMLP(num_inputs=4, num_outputs=2, hidden_size=[8, 8])

    def cnn():
        from agilerl.modules.cnn import EvolvableCNN
        return EvolvableCNN(input_shape=[2, 12, 12], num_outputs=3, channel_size=[4, 4], kernel_size=[3, 3], stride_size=[1, 1])

    def cnn3d():
        from agilerl.modules.cnn import EvolvableCNN
        return EvolvableCNN(input_shape=[2, 8, 8], num_outputs=3, channel_size=[4], kernel_size=[3], stride_size=[1],
                            block_type="Conv3d", sample_input=torch.zeros(1, 2, 2, 8, 8))

    def lstm():
        from agilerl.modules.lstm import EvolvableLSTM
        return EvolvableLSTM(input_size=4, hidden_size=8, num_outputs=2)

    def simba():
        from agilerl.modules.simba import EvolvableSimBa
        return EvolvableSimBa(num_inputs=4, num_outputs=2, hidden_size=8, num_blocks=2)

    def resnet():
        from agilerl.modules.resnet import EvolvableResNet
        return EvolvableResNet(input_shape=[2, 12, 12], num_outputs=3, channel_size=4, kernel_size=3, stride_size=1, num_blocks=1)

    def multi():
        from agilerl.modules.multi_input import EvolvableMultiInput
        return EvolvableMultiInput(observation_space=dct, num_outputs=3, latent_dim=8)

    def net(modname, cls, obs, **kw):
        def build():
            import importlib
            return getattr(importlib.import_module(modname), cls)(obs, **kw)
        return build
    Q, A, V = "agilerl.networks.q_networks", "agilerl.networks.actors", "agilerl.networks.value_networks"
    return {
        "mlp": mlp, "cnn": cnn, "cnn3d": cnn3d, "lstm": lstm, "simba": simba, "resnet": resnet, "multi": multi,
        "QNetwork": net(Q, "QNetwork", box, action_space=disc),
        "QNetwork-img": net(Q, "QNetwork", img, action_space=disc),
        "QNetwork-dict": net(Q, "QNetwork", dct, action_space=disc),
        "RainbowQNetwork": net(Q, "RainbowQNetwork", box, action_space=disc, support=torch.linspace(-2.0, 2.0, 5), num_atoms=5),
        "ContinuousQNetwork": net(Q, "ContinuousQNetwork", box, action_space=cont),
        "DeterministicActor": net(A, "DeterministicActor", box, action_space=cont),
        "StochasticActor": net(A, "StochasticActor", box, action_space=disc),
        "StochasticActor-cont": net(A, "StochasticActor", img, action_space=cont),
        "ValueNetwork": net(V, "ValueNetwork", dct),
        "EvolvableDistribution": lambda: net(A, "StochasticActor", box, action_space=cont)().head_net,
    }


def _init_containers(obj, depth=0, path="", out=None):
    """(depth, path, id, kind) of every dict / list / ndarray / tensor among the recorded constructor arguments"""
    import numpy as np
    import torch
    out = [] if out is None else out
    if isinstance(obj, dict):
        items = list(obj.items())
    elif isinstance(obj, (list, tuple)):
        items = list(enumerate(obj))
    else:
        items = []
    for k, v in items:
        p = f"{path}/{k}"
        if isinstance(v, (dict, list)):
            out.append((depth, p, id(v), type(v).__name__))
            _init_containers(v, depth + 1, p, out)
        elif isinstance(v, tuple):
            _init_containers(v, depth, p, out)
        elif isinstance(v, torch.Tensor):
            out.append((depth, p, ("storage", v.untyped_storage().data_ptr()), "tensor"))
        elif isinstance(v, np.ndarray):
            out.append((depth, p, id(v), "ndarray"))
    return out


def _canon(v):
    import numpy as np
    import torch
    if isinstance(v, dict):
        return {str(k): _canon(x) for k, x in sorted(v.items(), key=lambda kv: str(kv[0]))}
    if isinstance(v, (list, tuple)):
        return [_canon(x) for x in v]
    if isinstance(v, torch.Tensor):
        return ["tensor", v.detach().cpu().tolist()]
    if isinstance(v, np.ndarray):
        return ["ndarray", v.tolist()]
    if isinstance(v, (int, float, str, bool, type(None))):
        return v
    if isinstance(v, type):
        return v.__name__
    return repr(v)


def _init_dict(m):
    try:
        return m.init_dict
    except AttributeError:               # EvolvableDistribution: constructor arguments are not all attributes
        return {}


def _storages(m):
    return {t.untyped_storage().data_ptr() for t in list(m.parameters()) + list(m.buffers()) if t.numel()}


def _module_snapshot(m):
    import torch
    return {"init": _canon(_init_dict(m)), "state": {k: v.detach().clone() for k, v in m.state_dict().items()},
            "methods": (list(m._layer_mutation_methods), list(m._node_mutation_methods))}


def _snapshot_diff(a, b):
    import torch
    out = []
    if a["init"] != b["init"]:
        ks = [k for k in a["init"] if a["init"].get(k) != b["init"].get(k)] if isinstance(a["init"], dict) else ["?"]
        out.append(f"init_dict changed under {ks[:4]}")
    if list(a["state"]) != list(b["state"]) or any(not torch.equal(a["state"][k], b["state"][k]) for k in a["state"]):
        out.append("state_dict changed")
    if a["methods"] != b["methods"]:
        out.append("mutation-method lists changed")
    return out


def run_module_case(kind: str, seed: int, zoo=None):
    """clone one real module; measure against MODULE_RULE; mutate the clone in place; the original must not move"""
    import numpy as np
    import torch
    zoo = zoo or _module_zoo()
    rng = random.Random(seed)
    torch.manual_seed(seed), np.random.seed(seed)
    m = zoo[kind]()
    with torch.no_grad():
        for p in m.parameters():
            p.add_(torch.randn(p.shape, generator=torch.Generator().manual_seed(seed)) * 0.1)
    c = m.clone()
    is_dist = type(m).__name__ == "EvolvableDistribution"
    problems, diffs, notes = [], [], []
    measured = {}
    measured["params"] = "shared" if _storages(m) & _storages(c) else "fresh"
    dm, dc = _init_dict(m), _init_dict(c)            # kept alive: ids of temporaries would be re-used
    cm, cc = _init_containers(dm), _init_containers(dc)
    ids_m = {x[2]: x for x in cm}
    shared = [x for x in cc if x[2] in ids_m]
    measured["initArg"] = "shared" if shared else "fresh"
    measured["methodLists"] = "shared" if (m._layer_mutation_methods is c._layer_mutation_methods
                                           or m._node_mutation_methods is c._node_mutation_methods) else "fresh"
    depth = max([x[0] for x in cm], default=-1) + 1
    rule = dict(MODULE_RULE, methodLists="fresh") if is_dist else MODULE_RULE
    for part in ("params", "initArg", "methodLists"):
        if measured[part] != rule[part]:
            diffs.append(f"{part}: generated rule says {rule[part]}, measured {measured[part]}"
                         + (f" ({[(d, p) for d, p, _, _ in shared][:4]})" if part == "initArg" else ""))
    if measured["params"] == "shared":
        problems.append("clone shares parameter / buffer storage with the original")
    if measured["methodLists"] == "shared":
        problems.append("clone shares its mutation-method name lists with the original (extended in place by __setattr__)")
    if shared:
        problems.append(f"clone's init_dict shares containers with the original: {[(d, p, k) for d, p, _, k in shared][:4]}")
    # faithful
    sm, sc = _module_snapshot(m), _module_snapshot(c)
    d = _snapshot_diff(sm, sc)
    if is_dist and "mutation-method lists changed" in d:
        # reported, undecided: EvolvableDistribution.clone() wraps a clone of the (mutation-disabled) wrapped network,
        # so the new wrapper advertises no mutation methods; StochasticActor.clone does not go through this path
        d.remove("mutation-method lists changed")
        notes.append("EvolvableDistribution.clone(): the clone advertises no mutation methods (parent: "
                     f"{sm['methods'][0]} / {sm['methods'][1]})")
    if d:
        problems.append(f"clone differs from the original right after clone(): {d}")
    if type(c) is not type(m):
        problems.append("clone has another class")
    # independent: mutate the clone in place
    done = []
    methods = list(getattr(c, "mutation_methods", []))
    if methods:
        name = rng.choice(sorted(methods))
        try:
            c.get_mutation_methods()[name]()
            done.append(name)
        except Exception as e:  # noqa: BLE001   (a mutation the module refuses is not this property's business)
            done.append(f"{name}:{type(e).__name__}")
    with torch.no_grad():
        for t in list(c.parameters()) + list(c.buffers()):
            if t.is_floating_point():
                t.add_(1.0)

    def scribble(v):
        if isinstance(v, dict):
            for x in list(v.values()):
                scribble(x)
            v["__verif__"] = [1]
        elif isinstance(v, list):
            for x in v:
                scribble(x)
            if v and isinstance(v[0], int) and not isinstance(v[0], bool):
                v[0] += 8
            v.append(7)
        elif isinstance(v, tuple):
            for x in v:
                scribble(x)
        elif isinstance(v, torch.Tensor) and v.is_floating_point():
            with torch.no_grad():
                v.add_(1.0)
    for v in dc.values():
        scribble(v)
    d = _snapshot_diff(sm, _module_snapshot(m))
    if d:
        problems.append(f"mutating the clone in place ({done}, parameter write, edit of its recorded lists) changed the original: {d}")
    return {"problems": problems, "diffs": diffs, "measured": measured, "depth": depth, "mutated": done,
            "containers": len(cm), "notes": notes}


def probe_method_lists(chk: Check) -> None:
    """regression probe for C01-mutation-method-lists-aliased (repaired): a nested module assigned to a CLONE under a
    new name extends the clone's method-name lists in place (`__setattr__`); the parent's lists must not move"""
    from agilerl.modules.mlp import EvolvableMLP
    m = EvolvableMLP(num_inputs=4, num_outputs=2, hidden_size=[8, 8])
    before = (list(m._layer_mutation_methods), list(m._node_mutation_methods))
    c = m.clone()
    c.sub = EvolvableMLP(num_inputs=2, num_outputs=2, hidden_size=[4])
    after = (list(m._layer_mutation_methods), list(m._node_mutation_methods))
    chk.case(["probe", "method-lists"], nontrivial=True, tags=["probe-method-lists"])
    if after != before:
        chk.finding("C01-mutation-method-lists-aliased",
                    f"m = EvolvableMLP(4, 2, [8, 8]); c = m.clone(); c.sub = EvolvableMLP(2, 2, [4]) changed the PARENT's "
                    f"mutation-method lists from {before} to {after}",
                    {"suite": "module-clone", "kind": "mlp", "seed": 0, "probe": "method-lists"})


def run_module_suite(chk: Check) -> None:
    probe_method_lists(chk)
    zoo = _module_zoo()
    n = ndiff = 0
    built = 0
    for kind in zoo:
        seed = chk.rng.randrange(1 << 20)
        try:
            res = run_module_case(kind, seed, zoo)
        except (TypeError, ImportError, AttributeError) as e:
            chk.notes.append(f"module-clone: {kind} not built ({type(e).__name__}: {str(e)[:80]})")
            continue
        built += 1
        n += 1
        chk.case(["module-clone", kind, seed], nontrivial=True,
                 sample={"kind": kind, "depth": res["depth"], "containers": res["containers"], "mutated": res["mutated"]},
                 tags=[f"module-{kind}", f"module-depth-{res['depth']}"] + [f"module-{k}-{v}" for k, v in res["measured"].items()])
        chk.notes.extend(f"module-clone: {x}" for x in res["notes"])
        rep = {"suite": "module-clone", "kind": kind, "seed": seed}
        if res["problems"]:
            ndiff += bool(res["diffs"])
            chk.violation(f"module.clone() of {kind}: " + "; ".join(res["problems"])[:400], rep)
        elif res["diffs"]:
            ndiff += 1
            chk.violation(f"module.clone() of {kind} does not follow the rule generated from its source: "
                          + "; ".join(res["diffs"])[:300], rep, no_input=True)
    chk.suite("module-clone", n, ndiff)
    if built < 10:
        raise InfraError(f"C01 module-clone: only {built} module kinds could be built")


_run_histories = run
_pre_gate_agent = pre_gate
_replay_histories = replay


def pre_gate(chk: Check) -> None:  # noqa: F811
    _pre_gate_agent(chk)
    import common
    import py2lean_modclone
    common.translation_gate(chk, py2lean_modclone, "Gen/ModCloneGen.lean",
                            ["Gen.ModCloneGen", "Proofs.ModCloneGenEq", "Props.C01"],
                            "what module.clone() does to each group of mutable objects of a module: get_init_dict / "
                            "init_dict, EvolvableModule.clone, EvolvableDistribution.clone, overrides in "
                            "EvolvableNetwork / ModuleDict")


def run(chk: Check) -> None:  # noqa: F811
    run_module_suite(chk)
    _run_histories(chk)
    chk.rule += ("; module-clone: every module / network kind is cloned, tensor storages and the ids of every container "
                 "of init_dict at every depth compared with the rule generated from EvolvableModule.clone, then the "
                 "clone is mutated in place and the original must not move")


def replay(chk: Check, path: str) -> int:  # noqa: F811
    c = json.loads(open(path).read())
    c = c.get("replay", c)
    if c.get("suite") != "module-clone":
        return _replay_histories(chk, path)
    res = run_module_case(c["kind"], c["seed"])
    print(json.dumps(res, indent=1, default=str))
    if res["problems"]:
        print(f"VIOLATION property=C01 replay={path}")
        return 1
    if res["diffs"]:
        print(f"VIOLATION property=C01 replay={path} no-failing-input-found")
        return 1
    return 0
