"""
C01 — a cloned agent is a faithful and fully independent copy of its parent.

Correspondence: histories of clone / learn / mutate / discard on real agents of all eleven
algorithms; after every operation the object-graph walker (walker.py) measures, per attribute
group, which mutable cells each live agent reaches and their value fingerprints.  The Lean heap
model (Model/Heap.lean, repaired rule table) is driven with the same history and must predict
(a) exactly the set of cross-agent alias pairs (only the by-reference constructor arguments:
spaces, net_config, …) and (b) value equalities: whatever the model says is equal (child = parent
right after a clone; bystanders unchanged by an operation) is bit-equal in the implementation.

Oracle (the statement itself): after a clone the child picks the same greedy actions and computes
the same update from the same batch as its parent; training / mutating / discarding one agent
changes no other agent's weights, optimizer moments, step counters, registry or score lists.
"""
from __future__ import annotations

import copy
import json
import os
import random

import numpy as np
import torch

from common import ROOT, Check, InfraError, ddmin
import walker

# attributes that the algorithm re-derives on every copy — allowed by the property text (target
# re-synchronised with the online network) …
RESYNC = {"DQN": {"net:actor_target": "net:actor"}}
# … (the bandits' init_params hook also runs on the clone, but copy_attributes then copies the
# parent's sigma_inv / theta_0 over the re-initialised ones, so nothing differs: measured, not assumed)
REINIT: dict = {}
# bookkeeping attributes that legitimately differ between parent and child
DIFFER_OK = {"attr:index", "attr:c01_tag"}

MUT_KINDS = ["arch", "param", "act", "rl_hp", "none"]


def mutations(kind: str, seed: int):
    from agilerl.hpo.mutation import Mutations
    p = {"none": 0, "arch": 0, "param": 0, "act": 0, "rl_hp": 0}
    p[kind] = 1
    return Mutations(no_mutation=p["none"], architecture=p["arch"], new_layer_prob=0.5, parameters=p["param"],
                     activation=p["act"], rl_hp=p["rl_hp"], mutation_sd=0.1, rand_seed=seed, device="cpu")


class Pop:
    """real population + the model op lines that mirror it"""

    def __init__(self, chk: Check, algo: str, family: str, share, seed: int, mode: str = "repaired"):
        import agents as A
        self.A, self.chk, self.algo, self.family, self.seed = A, chk, algo, family, seed
        kw = {}
        if os.environ.get("C01_EXPLICIT_ACT"):      # development aid: side-step the encoder default
            cfg = A.default_net_config(algo, family)
            if "hidden_size" in cfg["encoder_config"] or "channel_size" in cfg["encoder_config"]:
                cfg["encoder_config"]["activation"] = "ReLU"
            kw["net_config"] = cfg
        root = A.build(algo, family, seed=seed, share_encoders=share, hp_config=A.default_hp_config(algo), **kw)
        root.c01_tag = 0                     # parent marker used by the `select` op (copied by clone)
        self.agents: dict[int, object] = {0: root}
        self.next = 1
        self.groups = {0: walker.agent_groups(root)}
        self.names = list(self.groups[0].keys())
        self.idx = {n: k for k, n in enumerate(self.names)}
        self.vid = 1000
        # a target is re-synchronised on every copy only while the algorithm registers the hook doing it
        hooks = [getattr(h, "__name__", str(h)) for h in getattr(root.registry, "hooks", [])]
        self.resync = RESYNC.get(algo, {}) if any("init_hook" in h for h in hooks) else {}
        specs = []
        for n in self.names:
            g = self.groups[0][n]
            tok = g["kind"]
            src = self.resync.get(n)
            if src is not None:
                tok = f"tgt{self.idx[src]}"
            specs.append(tok)
        sizes = [1 if self.groups[0][n]["cells"] else 0 for n in self.names]
        self.lines = [f"heap mode {mode}", "heap new " + " ".join(specs) + " / " + " ".join(map(str, sizes))]
        self.specs = specs
        self.problems: list[str] = []
        self.findings: list[tuple[str, str]] = []
        self.tags: list[str] = []

    # ------------------------------------------------------------------ measuring
    def remeasure(self, ids=None):
        for i in (ids if ids is not None else list(self.agents)):
            self.groups[i] = walker.agent_groups(self.agents[i])
            if list(self.groups[i].keys()) != self.names:
                new = set(self.groups[i]) ^ set(self.names)
                self.problems.append(f"agent {i} has a different attribute set than the root: {sorted(new)}")

    def values(self, i):
        return {n: walker.group_value(g) for n, g in self.groups[i].items()}

    def cellsets(self, i):
        return {n: frozenset(g["cells"]) for n, g in self.groups[i].items()}

    def fresh(self):
        self.vid += 1
        return self.vid

    # ------------------------------------------------------------------ operations
    def op(self, op) -> None:
        kind = op[0]
        before_vals = {i: self.values(i) for i in self.agents}
        before_cells = {i: self.cellsets(i) for i in self.agents}
        actor = op[1] if len(op) > 1 and kind != "select" else None
        if actor is not None and actor not in self.agents:
            return
        if kind == "clone":
            child = self.agents[actor].clone(index=self.next)
            j = self.next
            self.next += 1
            self.agents[j] = child
            self.lines.append(f"heap clone {self.model_index(actor)}")
            self.remeasure([j] + [actor])
            self.after_clone(actor, j)
            # after_clone acts with parent and child (bandits: the confidence matrix is saved and restored,
            # i.e. re-bound to a new tensor): measure again so that no stale storage address is kept —
            # a freed address can be reused by another agent's tensor and would look like sharing
            self.remeasure()
            changed_actor = actor
            self.tags.append("clone")
        elif kind == "learn":
            self.A.learn_once(self.agents[actor], self.algo, self.family, seed=op[2])
            self.remeasure()
            changed_actor = actor
            self.tags.append("learn")
        elif kind == "mutate":
            m = mutations(op[2], op[3])
            out = m.mutation([self.agents[actor]])
            self.agents[actor] = out[0]
            self.remeasure()
            changed_actor = actor
            self.tags.append("mutate-" + op[2])
        elif kind == "discard":
            if len(self.agents) <= 1:
                return
            del self.agents[actor]
            del self.groups[actor]
            import gc
            gc.collect()
            self.lines.append(f"heap discard {self.model_index(actor, dead_ok=True)}")
            self.remeasure()
            changed_actor = actor
            self.tags.append("discard")
        elif kind == "select":
            # one tournament round over the live agents (elitism on): the elite and every member of the new
            # generation are clones; the old agents stay alive here so that they are observed as bystanders
            from agilerl.hpo.tournament import TournamentSelection
            live = sorted(self.agents)
            if len(live) > 3 or len(live) < 2:
                return
            for t, i in enumerate(live):
                ag = self.agents[i]
                ag.fitness = list(ag.fitness) + [float((op[1] * (t + 3)) % 7)]
                ag.c01_tag = i
            self.remeasure()                  # the scores just assigned are part of the "before" picture
            before_vals = {i: self.values(i) for i in self.agents}
            before_cells = {i: self.cellsets(i) for i in self.agents}
            ts = TournamentSelection(tournament_size=2, elitism=True, population_size=len(live), eval_loop=1)
            np.random.seed(op[1] % (2 ** 31))
            elite, newpop = ts.select([self.agents[i] for i in live])
            e_parent = elite.c01_tag
            e_id = self.next
            self.next += 1
            self.agents[e_id] = elite
            self.lines.append(f"heap clone {e_parent}")
            pairs = [(e_parent, e_id)]
            for k, member in enumerate(newpop):
                parent = e_id if k == 0 else member.c01_tag       # slot 0 is a copy of the elite object
                j = self.next
                self.next += 1
                self.agents[j] = member
                self.lines.append(f"heap clone {parent}")
                pairs.append((parent, j))
            self.remeasure()
            for parent, child in pairs:
                self.after_clone(parent, child)
            self.remeasure()
            changed_actor = None
            kind = "select"
            self.tags.append("select")
        elif kind == "append":
            ag = self.agents[actor]
            ag.fitness.append(float(op[2]))
            ag.scores.append(float(op[2]))
            ag.steps.append(ag.steps[-1] + 10 if ag.steps else 10)
            self.remeasure()
            changed_actor = actor
            self.tags.append("append")
        else:
            raise InfraError(f"unknown op {op}")
        # --- frame oracle: nobody but the actor changed
        for i in self.agents:
            if i == changed_actor or i not in before_vals:
                continue
            now = self.values(i)
            for n in self.names:
                if now.get(n) != before_vals[i].get(n):
                    self.problems.append(
                        f"{kind} on agent {changed_actor} changed {n} of agent {i} (independence broken)")
        # --- mirror the actor's own changes into the model so that its views stay in step
        if changed_actor in self.agents and kind not in ("clone", "select"):
            now_v, now_c = self.values(changed_actor), self.cellsets(changed_actor)
            mi = self.model_index(changed_actor)
            for n in self.names:
                k = self.idx[n]
                if now_c[n] != before_cells[changed_actor][n]:
                    if now_c[n]:
                        self.lines.append(f"heap rebind {mi} {k} {self.fresh()}")
                    else:
                        self.lines.append(f"heap rebind {mi} {k}")
                elif now_v[n] != before_vals[changed_actor][n] and now_c[n]:
                    self.lines.append(f"heap write {mi} {k} 0 {self.fresh()}")

    # model agent numbering = creation order including discarded ones
    def model_index(self, i, dead_ok=False):
        return i

    def after_clone(self, parent: int, child: int) -> None:
        A = self.A
        pv, cv = self.values(parent), self.values(child)
        mi = self.model_index(child)
        for n in self.names:
            if n in DIFFER_OK:
                continue
            if n in REINIT.get(self.algo, []):
                if pv[n] != cv[n]:
                    self.findings.append(("C01-bandit-clone-reinit",
                                          f"{self.algo}.clone() re-initialises {n}: child differs from parent"))
                    self.lines.append(f"heap rebind {mi} {self.idx[n]} {self.fresh()}")
                continue
            src = self.resync.get(n)
            want = pv[src] if src is not None else pv[n]
            # a re-synchronised target must equal the parent's online net: compare tensor lists
            if src is not None:
                ok = self.same_tensors(self.groups[parent][src], self.groups[child][n])
            else:
                ok = cv[n] == want
            if not ok:
                self.problems.append(f"clone of agent {parent}: {n} of the child is not "
                                     f"{'the online network ' + src if src else 'equal to the parent'}")
        # behavioural part of the statement: same greedy action, same update from the same batch
        pa, ca = self.agents[parent], self.agents[child]
        try:
            obs = A.sample_obs(pa, self.algo, self.family, 4, seed=self.seed + child)
            a1 = A.greedy_action(pa, self.algo, obs, torch_seed=7)
            a2 = A.greedy_action(ca, self.algo, obs, torch_seed=7)
            if not same_value(a1, a2):
                if self.algo in REINIT:
                    self.findings.append(("C01-bandit-clone-reinit", "greedy action of the clone differs (sigma_inv reset)"))
                else:
                    self.problems.append(f"clone of agent {parent} picks different greedy actions than its parent")
        except Exception as e:  # pragma: no cover
            self.problems.append(f"greedy action on parent/clone raised {type(e).__name__}: {e}")

    @staticmethod
    def same_tensors(g1, g2) -> bool:
        v1 = sorted((p.split(".", 1)[-1], v) for p, v in g1["cells"].values())
        v2 = sorted((p.split(".", 1)[-1], v) for p, v in g2["cells"].values())
        return v1 == v2

    # ------------------------------------------------------------------ correspondence
    def observe(self) -> list[str]:
        """canonical observable lines of the implementation, in the order of `probe_lines`"""
        live = sorted(self.agents)
        pairs = walker.alias_pairs({i: self.groups[i] for i in live})
        txt = " ".join(sorted(f"{i}.{self.idx[a]}={j}.{self.idx[b]}" for i, a, j, b in pairs
                              if a in self.idx and b in self.idx))
        return [txt]

    def probe_lines(self) -> list[str]:
        return ["heap alias"]


def same_value(a, b) -> bool:
    if isinstance(a, dict):
        return isinstance(b, dict) and a.keys() == b.keys() and all(same_value(a[k], b[k]) for k in a)
    if isinstance(a, (list, tuple)):
        return len(a) == len(b) and all(same_value(x, y) for x, y in zip(a, b))
    if isinstance(a, torch.Tensor):
        a = a.detach().cpu().numpy()
    if isinstance(b, torch.Tensor):
        b = b.detach().cpu().numpy()
    return np.array_equal(np.asarray(a), np.asarray(b))


def sort_pairs(line: str) -> str:
    return " ".join(sorted(line.split()))


def run_history(chk: Check, algo: str, family: str, share, seed: int, ops, mode="repaired"):
    """returns dict(diff, problems, findings, tags, impl, model)"""
    pop = Pop(chk, algo, family, share, seed, mode)
    impl_lines: list[str] = []
    probe_at: list[int] = []
    for op in ops:
        try:
            pop.op(op)
        except InfraError:
            raise
        except Exception as e:
            pop.problems.append(f"{op[0]} on agent {op[1] if len(op) > 1 else '?'} raised {type(e).__name__}: {str(e)[:200]}")
            break
        probe_at.append(len(pop.lines))
        pop.lines += pop.probe_lines()
        impl_lines += pop.observe()
    out = chk.driver.run(["reset"] + pop.lines)[1:]
    model_lines = [sort_pairs(out[i]) for i in probe_at]
    bad = [o for o in out if o in ("bad-op",)]
    if bad:
        raise InfraError(f"driver rejected a C01 op: {pop.lines}")
    diff = next((i for i, (a, b) in enumerate(zip(impl_lines, model_lines)) if sort_pairs(a) != b), None)
    return {"diff": diff, "problems": pop.problems, "findings": pop.findings, "tags": pop.tags,
            "impl": impl_lines, "model": model_lines, "names": pop.names, "specs": pop.specs}


def gen_history(rng: random.Random, length: int):
    ops = [["learn", 0, rng.randrange(1000)], ["clone", 0]]
    n = 2
    if rng.random() < 0.5:
        # one tournament round early on: elite + a new generation of two (ids 2, 3, 4), old agents stay alive
        ops += [["learn", 1, rng.randrange(1000)], ["select", rng.randrange(1, 1000)]]
        n = 5
    for _ in range(length):
        r = rng.random()
        i = rng.randrange(n)
        if r < 0.30:
            ops.append(["learn", i, rng.randrange(1000)])
        elif r < 0.50:
            ops.append(["clone", i])
            n += 1
        elif r < 0.80:
            ops.append(["mutate", i, rng.choice(MUT_KINDS), rng.randrange(1000)])
        elif r < 0.86:
            ops.append(["append", i, rng.randrange(100)])
        elif r < 0.93:
            ops.append(["select", rng.randrange(1, 1000)])
            n += 0            # ids of the new generation are allocated by the harness; later ops address old ids
        else:
            ops.append(["discard", i])
    # always end by training the latest clone and its parent
    ops.append(["learn", n - 1, rng.randrange(1000)])
    ops.append(["learn", 0, rng.randrange(1000)])
    return ops


def case_list(chk: Check):
    import agents as A
    rng = chk.rng
    cases = []
    for f in sorted((ROOT / "corpus" / "C01").glob("*.json")):
        c = json.loads(f.read_text())
        cases.append((c["algo"], c["family"], c.get("share"), c["seed"], c["ops"]))
    fams = {"quick": ["vector"], "thorough": ["vector", "image", "dict", "discrete"]}[chk.tier]
    reps = 1 if chk.tier == "quick" else 2
    length = 5 if chk.tier == "quick" else 12
    for algo in A.ALGOS:
        for fam in fams:
            if not A.supported(algo, fam) or A.known_broken(algo, fam):
                continue
            shares = [None]
            if algo in A.SHARE_ENCODER_ALGOS:
                shares = [True, False] if (chk.tier == "thorough" or fam == "vector") else [True]
            for share in shares:
                for _ in range(reps):
                    cases.append((algo, fam, share, rng.randrange(1 << 20), gen_history(rng, length)))
    # in the quick tier add one random non-vector family per run
    if chk.tier == "quick":
        for _ in range(3):
            algo = rng.choice(A.ALGOS)
            fam = rng.choice(["image", "dict", "discrete", "tuple"])
            if A.supported(algo, fam) and not A.known_broken(algo, fam):
                cases.append((algo, fam, None, rng.randrange(1 << 20), gen_history(rng, length)))
    return cases


def report(chk: Check, case, res, shrink=True):
    algo, fam, share, seed, ops = case
    replay = {"algo": algo, "family": fam, "share": share, "seed": seed, "ops": ops,
              "impl_alias": res["impl"], "model_alias": res["model"], "groups": res.get("names"),
              "problems": res["problems"], "correspondence": "harness/c01.py + walker.py vs Model/Heap.lean",
              "theorems": chk.gate["theorems"]}
    if res["problems"]:
        if shrink:
            def fails(sub):
                try:
                    return bool(run_history(chk, algo, fam, share, seed, sub)["problems"])
                except Exception:
                    return False
            small = ddmin(ops, fails)
            r2 = run_history(chk, algo, fam, share, seed, small)
            if r2["problems"]:
                replay.update(ops=small, problems=r2["problems"], impl_alias=r2["impl"], model_alias=r2["model"])
        chk.violation(f"{algo}/{fam}/share={share}: {replay['problems'][0]}", replay)
    elif res["diff"] is not None:
        d = res["diff"]
        extra = set(res["impl"][d].split()) - set(res["model"][d].split())
        missing = set(res["model"][d].split()) - set(res["impl"][d].split())
        names = res["names"]

        def nm(p):
            a, b = p.split("=")
            return f"agent{a.split('.')[0]}.{names[int(a.split('.')[1])]} ~ agent{b.split('.')[0]}.{names[int(b.split('.')[1])]}"
        if extra:
            # the implementation shares mutable state the model says is private: that IS the property
            chk.violation(f"{algo}/{fam}: agents share mutable state: " + "; ".join(nm(p) for p in sorted(extra)[:4]), replay)
        else:
            chk.violation(f"{algo}/{fam}: model expects by-reference sharing that the implementation no longer has: "
                          + "; ".join(nm(p) for p in sorted(missing)[:4]) + " (property oracle holds)", replay, no_input=True)


def run(chk: Check) -> None:
    chk.rule = ("histories of clone / learn / mutate(kind) / append / discard on real agents of all eleven "
                "algorithms (tiny networks); after every op the walker measures cross-agent aliasing and value "
                "fingerprints per attribute group; distinct = distinct (algo, family, share_encoders, seed, history); "
                "non-trivial = history contains at least one clone followed by a learn or mutate of parent or child")
    chk.assumptions = ["the walker reaches every mutable object an agent owns (attributes reported by "
                       "inspect_attributes, networks incl. detached tensors, optimizer state and param_groups)",
                       "torch CPU kernels are deterministic for identical inputs and seeds"]
    cases = case_list(chk)
    ndiff = 0
    for case in cases:
        algo, fam, share, seed, ops = case
        try:
            res = run_history(chk, algo, fam, share, seed, ops)
        except InfraError:
            raise
        nontriv = any(o[0] == "clone" for o in ops) and any(o[0] in ("learn", "mutate") for o in ops)
        chk.case([algo, fam, share, seed, ops], nontrivial=nontriv,
                 sample={"algo": algo, "family": fam, "share_encoders": share, "ops": ops[:6]},
                 tags=res["tags"] + [f"algo-{algo}", f"obs-{fam}"])
        for fid, detail in dict(res["findings"]).items():
            chk.finding(fid, detail, {"algo": algo, "family": fam, "seed": seed, "ops": ops})
        if res["problems"] or res["diff"] is not None:
            ndiff += res["diff"] is not None
            report(chk, case, res)
    chk.suite("heap-histories", len(cases), ndiff)
    if chk.tier == "thorough":
        selftest(chk)


def selftest(chk: Check) -> None:
    """seeded fault: clone() that shares the fitness list with its parent must be flagged"""
    from agilerl.algorithms.core.base import EvolvableAlgorithm
    orig = EvolvableAlgorithm.copy_attributes

    def broken(agent, clone):
        clone = orig(agent, clone)
        clone.fitness = agent.fitness
        return clone
    EvolvableAlgorithm.copy_attributes = staticmethod(broken)
    try:
        res = run_history(chk, "DQN", "vector", None, 1, [["clone", 0], ["append", 1, 5]])
    finally:
        EvolvableAlgorithm.copy_attributes = staticmethod(orig)
    if not res["problems"] and res["diff"] is None:
        raise InfraError("C01 self-test: shared fitness list was not noticed")
    chk.notes.append("self-test: clone sharing its parent's fitness list detected")


def replay(chk: Check, path: str) -> int:
    c = json.loads(open(path).read())
    c = c.get("replay", c)
    res = run_history(chk, c["algo"], c["family"], c.get("share"), c["seed"], c["ops"])
    print(json.dumps({k: res[k] for k in ("diff", "problems", "findings", "impl", "model")}, indent=1, default=str))
    if res["problems"]:
        print(f"VIOLATION property=C01 replay={path}")
        return 1
    if res["diff"] is not None:
        print(f"VIOLATION property=C01 replay={path} no-failing-input-found")
        return 1
    return 0
