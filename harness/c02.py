"""
C02 — after any mutation an agent is coherent: optimizers, targets and critics follow.

Correspondence (vs Model/Coherence.lean, token `coh`): multi-generation histories
(tournament select -> `Mutations.mutation(pop)` -> learn) on real populations of all eleven
algorithms AND of a family of synthetic algorithms defined here through the public registry API
(`syn_shapes`: policy with / without target x 0..2 extra evaluation groups with / without target x
one optimizer per network / one over several networks x separate / shared lr attributes x list
groups), because `Mutations` is driven by the registry, not by the built-ins' particular shapes.
The registry descriptor of every agent (network groups, roles, optimizers, their
networks and lr attribute, the mutation hook as visible in which tensors are detached) is read from
the live object and handed to the model.  The kind each agent draws is recorded by wrapping the
mutation options (and `HyperparameterConfig.sample`); the applied architecture method is read from
the policy.  After every population mutation, per agent, the harness prints what the property talks
about — for each optimizer its parameter objects as *positions* in the current parameter lists of
the registered networks (`x` = an object no registered network owns any more), every group's lr and
the agent's lr attribute as exact rationals, for each shared network whether `init_dict` and
weights equal the evaluation network's, `mut`, the index, and after an architecture mutation
for every evaluation module (per sub-agent for the multi-agent algorithms) the applied change:
`last_mutation_attr` AND what it did to the architecture (element-wise change of hidden / channel /
kernel sizes, appended layers, latent dimension — i.e. the effect of the sampled arguments) — and
diffs it with the model's prediction (module j of every evaluation network carries the change of
module j of the policy).  Before
a learn step the model says which registered networks the step writes; the harness reports which
ones really moved.

Agents built from USER-SUPPLIED networks (`actor_network(s)=` / `critic_network(s)=` of DDPG, TD3, PPO, MADDPG, MATD3,
IPPO; per-network architectures of the synthetic algorithms) whose heads differ in depth and bounds between the policy
and the other evaluation networks: the numpy draws of the mutation methods are recorded (passed through unchanged) and
`offered_check` re-enacts the statement on clones taken before the mutation - every other evaluation network must be
exactly what the policy's applied method with the policy's returned arguments makes of it (its own fallback / bound).

Oracle (the statement itself, independent of the model): optimizer parameter lists ARE the
concatenation of the registered networks' current parameters; group lr == agent's lr attribute;
shared networks equal their evaluation network in `init_dict` and weights right after mutation;
critic j received the method and the architecture change of policy module j; every agent can act; a learn round changes at least one
element of every trained module and nothing of any other agent; size, order and indices of the
population are preserved; `mut` names the mutation that was drawn.
"""
from __future__ import annotations

import contextlib
import json
import random
import warnings

import numpy as np
import torch

from common import ROOT, Check, InfraError, ddmin, frac
import walker

torch.set_num_threads(1)

KINDS = ["none", "arch", "param", "act", "rl_hp"]
# Mutations.activation_mutation returns early for these (agilerl/hpo/mutation.py)
ACT_EXEMPT = ["PPO", "DDPG", "TD3", "IPPO", "MADDPG", "MATD3"]
OPTION_KIND = {"no_mutation": "none", "architecture_mutate": "arch", "parameter_mutation": "param",
               "activation_mutation": "act", "rl_hyperparam_mutation": "rl_hp"}


# ------------------------------------------------------------------------------ live descriptor
def mods_of(agent, name):
    o = getattr(agent, name)
    ms = o if isinstance(o, list) else [o]
    return [getattr(m, "_orig_mod", m) for m in ms]


def net_layout(agent):
    """[(name, role token, eval index or None)] — evaluation network of each group followed by its
    shared networks, in registry order"""
    out = []
    for g in agent.registry.groups:
        k = len(out)
        out.append((g.eval, "p" if g.policy else "e", None))
        shared = g.shared if g.shared is not None else []
        shared = shared if isinstance(shared, list) else [shared]
        for s in shared:
            if isinstance(s, list):          # list of lists of names (not used by the library's algorithms)
                raise InfraError("nested shared-network lists are outside the model")
            out.append((s, f"s{k}", k))
    return out


def split_tensors(m):
    """(encoder tensor names, other tensor names, set of parameter names) of a module; tensors that
    were parameters but are detached copies now count as tensors, buffers do not"""
    pn = [n for n, _ in m.named_parameters()]
    names = list(pn)
    # `TensorDict.to_module` with detached values removes the entry from `_parameters` of the layer
    # and leaves a plain tensor attribute of the same name on that (leaf) layer module
    for prefix, sub in m.named_modules():
        if any(True for _ in sub.children()):
            continue
        dot = prefix + "." if prefix else ""
        for n, v in sub.__dict__.items():
            if isinstance(v, torch.Tensor) and v.is_floating_point() and not n.startswith("_") \
                    and dot + n not in names and n not in sub._buffers:
                names.append(dot + n)
    enc = [n for n in names if n.startswith("encoder.")]
    rest = [n for n in names if not n.startswith("encoder.")]
    return enc, rest, set(pn)


def det_of(m) -> str:
    enc, rest, pn = split_tensors(m)
    det_enc = [n for n in enc if n not in pn]
    det_rest = [n for n in rest if n not in pn]
    if not det_enc and not det_rest:
        return "none"
    if det_rest or not pn:
        return "all"
    return "enc"


def sizes_of(m) -> str:
    enc, rest, _ = split_tensors(m)
    return f"{len(enc)},{len(rest)}"


def lr_names(agent) -> list:
    out = []
    for oc in agent.registry.optimizers:
        if oc.lr not in out:
            out.append(oc.lr)
    return out


def descriptor_line(agent) -> str:
    layout = net_layout(agent)
    idx = {n: k for k, (n, _, _) in enumerate(layout)}
    pol = [k for k, (_, r, _) in enumerate(layout) if r == "p"]
    if len(pol) != 1:
        raise InfraError(f"expected exactly one policy group, found {len(pol)}")
    dets = {}
    for k, (n, _, _) in enumerate(layout):
        ds = {det_of(m) for m in mods_of(agent, n)}
        if len(ds) != 1:
            raise InfraError(f"modules of {n} are detached differently: {ds}")
        dets[k] = ds.pop()
    enc_t = [k for k, d in dets.items() if d == "enc"]
    all_t = [k for k, d in dets.items() if d == "all"]
    if enc_t and all_t:
        raise InfraError("two kinds of detachment in one agent are outside the model")
    if (enc_t or all_t) and not agent.registry.hooks:
        raise InfraError("detached tensors without a registered mutation hook")
    if enc_t:
        hook = f"share {pol[0]} " + ",".join(map(str, enc_t))
    elif all_t:
        hook = f"detach {pol[0]} " + ",".join(map(str, all_t))
    else:
        hook = "none"
    nets = " ".join(f"{r}:" + "+".join(sizes_of(m) for m in mods_of(agent, n)) for n, r, _ in layout)
    lrs = lr_names(agent)
    opts = " ".join("+".join(str(idx[n]) for n in oc.networks) + f"@{lrs.index(oc.lr)}" +
                    ("m" if isinstance(getattr(agent, oc.name).optimizer, list) else "s")
                    for oc in agent.registry.optimizers)
    ex = 1 if agent.algo in ACT_EXEMPT else 0
    return f"coh new {agent.index} {ex} {hook} ; {nets} ; {opts} ; " + " ".join(frac(getattr(agent, n)) for n in lrs)


# ------------------------------------------------------------------------------ observation
def canon(x):
    """order- and address-free rendering of an init_dict"""
    if isinstance(x, dict):
        return {str(k): canon(v) for k, v in sorted(x.items(), key=lambda kv: str(kv[0]))}
    if isinstance(x, (list, tuple)):
        return [canon(v) for v in x]
    if isinstance(x, torch.Tensor):
        return ["tensor", list(x.shape), x.detach().cpu().reshape(-1).tolist()]
    if isinstance(x, np.ndarray):
        return ["ndarray", list(x.shape), x.reshape(-1).tolist()]
    if isinstance(x, np.generic):
        return x.item()
    if isinstance(x, (int, float, str, bool, type(None))):
        return x
    if isinstance(x, torch.device):
        return str(x)
    return repr(x)


def same_arch(a, b) -> bool:
    try:
        return json.dumps(canon(a.init_dict), sort_keys=True, default=str) == \
            json.dumps(canon(b.init_dict), sort_keys=True, default=str)
    except Exception:
        return False


def same_weights(a, b) -> bool:
    ta, tb = walker.module_tensors(a), walker.module_tensors(b)
    if list(ta.keys()) != list(tb.keys()):
        return sorted(ta.keys()) == sorted(tb.keys()) and all(
            ta[k].shape == tb[k].shape and torch.equal(ta[k], tb[k]) for k in ta)
    return all(ta[k].shape == tb[k].shape and torch.equal(ta[k], tb[k]) for k in ta)


def opt_groups(agent, oc):
    w = getattr(agent, oc.name)
    multi = isinstance(w.optimizer, list)
    subs = w.optimizer if multi else [w.optimizer]
    groups = []
    for o in subs:
        inner = getattr(o, "optimizer", o)
        for g in inner.param_groups:
            groups.append(g)
    return multi, groups


def observe(agent, problems: list, where: str, after_mutation: bool) -> str:
    """the canonical line of `Coherence.showAgent`, measured on the live agent; also evaluates the
    wiring part of the oracle"""
    layout = net_layout(agent)
    index = {}
    plist = {}
    for k, (n, r, _) in enumerate(layout):
        if r.startswith("s"):
            continue
        for j, m in enumerate(mods_of(agent, n)):
            ps = list(m.parameters())
            plist[(k, j)] = [id(p) for p in ps]
            for i, p in enumerate(ps):
                index.setdefault(id(p), (k, j, i))
    name_idx = {n: k for k, (n, _, _) in enumerate(layout)}
    opts = []
    for q, oc in enumerate(agent.registry.optimizers):
        multi, groups = opt_groups(agent, oc)
        lr_attr = getattr(agent, oc.lr)
        gs = []
        got = []
        for gi, g in enumerate(groups):
            ids = [id(p) for p in g["params"]]
            got.append(ids)
            toks = [index.get(i) for i in ids]
            if not toks:
                body = "-"
            elif toks[0] is not None and toks[0][2] == 0 and ids == plist.get((toks[0][0], toks[0][1])):
                body = f"{toks[0][0]}.{toks[0][1]}*{len(ids)}"
            else:
                body = ",".join("x" if t is None else f"{t[0]}.{t[1]}.{t[2]}" for t in toks)
            gs.append(body + "@" + frac(g["lr"]))
            if g["lr"] != lr_attr:
                problems.append(f"{where}: {oc.name} (param group {gi} of {len(groups)}) trains with lr {g['lr']!r} "
                                f"but agent.{oc.lr} is {lr_attr!r}")
        # oracle: the optimizer steps exactly the current parameters of its registered networks
        want = [plist.get((name_idx[n], j), []) for n in oc.networks for j in range(len(mods_of(agent, n)))]
        if got != want:
            stale = sum(1 for ids in got for i in ids if i not in index)
            problems.append(f"{where}: {oc.name} does not hold the current parameters of {oc.networks} "
                            f"({stale} stale objects, {sum(map(len, got))} held, {sum(map(len, want))} expected)")
        opts.append(f"o{q}{'m' if multi else 's'} lr={frac(lr_attr)} [" + " ".join(gs) + "]")
    sh = []
    for k, (n, r, src) in enumerate(layout):
        if src is None:
            continue
        sm, em = mods_of(agent, n), mods_of(agent, layout[src][0])
        a_ok = len(sm) == len(em) and all(same_arch(x, y) for x, y in zip(sm, em))
        w_ok = a_ok and all(same_weights(x, y) for x, y in zip(sm, em))
        sh.append(f"sh{k}:a{int(a_ok)}w{int(w_ok)}")
        if not a_ok:
            problems.append(f"{where}: shared network {n} does not have the architecture of {layout[src][0]}")
        elif after_mutation and not w_ok:
            problems.append(f"{where}: shared network {n} does not hold the weights of {layout[src][0]} right after the mutation")
    return f"idx={agent.index} mut={agent.mut} | " + " | ".join(opts) + " | " + " ".join(sh)


def lma_line(agent, problems: list, where: str, changes: dict, offered_ok: dict | None = None) -> str:
    """per evaluation module the applied change (method and what it did to the architecture); the
    oracle: module j (sub-agent j) of every network trained alongside the policy received the same
    change as module j of the policy.  `offered_ok` (agents built from user-supplied networks whose
    architectures / bounds differ): {(network, j): the module is exactly what being handed the policy's
    applied method with the policy's returned arguments makes of it (own fallback, own bounds)} as
    judged by `offered_check`; such a module carries the policy's change in the model's sense"""
    layout = net_layout(agent)
    pol = changes[[n for n, r, _ in layout if r == "p"][0]]
    if offered_ok is not None:
        changes = {n: [(pol[j] if j < len(pol) else pol[0]) if offered_ok.get((n, j)) else c for j, c in enumerate(l)]
                   for n, l in changes.items()}
    parts, rows = [], []
    for k, (n, r, _) in enumerate(layout):
        if r.startswith("s"):
            continue
        l = changes[n]
        rows.append((n, l))
        parts.append(f"{k}:" + ",".join(change_token(m, d) for m, d in l))
    followed = True
    for n, l in rows:
        for j in range(min(len(l), len(pol))):
            if l[j] != pol[j]:
                followed = False
                if offered_ok is not None:
                    continue                      # reported by offered_check with the expected outcome
                what = "method" if l[j][0] != pol[j][0] else "change"
                problems.append(f"{where}: module {j} of the policy received {pol[j][0]} ({pol[j][1]}) but module {j} of "
                                f"{n} received {l[j][0]} ({l[j][1]}): a network trained alongside the policy did not "
                                f"receive the same architecture {what}")
    return " ".join(parts) + f" followed={int(followed)}"


ARCH_KEYS = {"hidden_size", "channel_size", "kernel_size", "stride_size", "latent_dim", "num_blocks", "num_layers"}


def arch_sig(m) -> dict:
    """the size parameters of a module's architecture, by path in its init_dict"""
    out = {}

    def walk(x, path):
        if isinstance(x, dict):
            for k, v in x.items():
                if k in ARCH_KEYS:
                    out[path + k] = v
                elif isinstance(v, dict):
                    walk(v, path + k + ".")
    walk(canon(m.init_dict), "")
    return out


def _flat(v) -> list:
    if isinstance(v, list):
        r = []
        for e in v:
            r += _flat(e)
        return r
    return [v]


def arch_delta(before: dict, after: dict) -> str:
    """the change of the architecture in a form that can be compared between the policy and the
    networks trained alongside it (element-wise differences, appended layers): what the mutation
    method's sampled arguments (which layer, how many nodes / channels, kernel size …) did"""
    parts = []
    for k in sorted(set(before) | set(after)):
        x, y = before.get(k), after.get(k)
        if x == y:
            continue
        if isinstance(x, list) and isinstance(y, list):
            n = min(len(x), len(y))
            fx, fy = _flat(x[:n]), _flat(y[:n])
            if len(fx) == len(fy) and all(isinstance(v, (int, float)) for v in fx + fy):
                d = ".".join(f"{q - p:+g}" for p, q in zip(fx, fy))
            else:
                d = "?"
            tail = ("new" + ".".join(str(v) for v in _flat(y[n:]))) if len(y) > n else ""
            parts.append(f"{k}:len{len(y) - len(x):+d}[{d}]{tail}")
        elif isinstance(x, (int, float)) and isinstance(y, (int, float)) and not isinstance(x, bool):
            parts.append(f"{k}:{y - x:+g}")
        else:
            parts.append(f"{k}:chg")
    return "&".join(parts) or "0"


def eval_sigs(agent) -> dict:
    return {n: [arch_sig(m) for m in mods_of(agent, n)] for n, r, _ in net_layout(agent) if not r.startswith("s")}


def change_token(method, delta: str) -> str:
    """`method~change` as the model prints it; `_` = nothing applied, nothing changed"""
    if method is None and delta == "0":
        return "_"
    return f"{method}~{delta}"


def applied_changes(agent, before: dict) -> dict:
    """{evaluation network: [(last_mutation_attr, architecture change) per module / sub-agent]}"""
    out = {}
    for n, r, _ in net_layout(agent):
        if r.startswith("s"):
            continue
        ms = mods_of(agent, n)
        b = before.get(n, [])
        out[n] = [(getattr(m, "last_mutation_attr", None),
                   arch_delta(b[j], arch_sig(m)) if j < len(b) else "?") for j, m in enumerate(ms)]
    return out


def applied_of(agent, changes: dict) -> list:
    pol = [g.eval for g in agent.registry.groups if g.policy][0]
    return changes[pol]


def arch_sizes(agent) -> str:
    layout = net_layout(agent)
    return " ".join(f"{k}=" + "+".join(sizes_of(m) for m in mods_of(agent, n))
                    for k, (n, r, _) in enumerate(layout) if not r.startswith("s"))


def eval_param_ids(agent) -> list:
    return [[id(p) for m in mods_of(agent, n) for p in m.parameters()]
            for n, r, _ in net_layout(agent) if not r.startswith("s")]


def eval_archs(agent) -> str:
    return json.dumps([[canon(m.init_dict) for m in mods_of(agent, n)]
                       for n, r, _ in net_layout(agent) if not r.startswith("s")], sort_keys=True, default=str)


def opt_state_sizes(agent) -> list:
    out = []
    for oc in agent.registry.optimizers:
        w = getattr(agent, oc.name)
        subs = w.optimizer if isinstance(w.optimizer, list) else [w.optimizer]
        out.append(sum(len(getattr(o, "optimizer", o).state) for o in subs))
    return out


def targets_in_sync(agent):
    """None when the agent has no shared network, else whether every one equals its evaluation network"""
    layout = net_layout(agent)
    pairs = [(n, layout[src][0]) for n, _, src in layout if src is not None]
    if not pairs:
        return None
    return all(len(mods_of(agent, a)) == len(mods_of(agent, b)) and
               all(same_weights(x, y) for x, y in zip(mods_of(agent, a), mods_of(agent, b))) for a, b in pairs)


def fingerprint(agent) -> dict:
    """value fingerprint of everything a learn step may legitimately change in ITS agent"""
    out = {}
    for n, _, _ in net_layout(agent):
        for j, m in enumerate(mods_of(agent, n)):
            for tn, t in walker.module_tensors(m).items():
                out[f"{n}[{j}].{tn}"] = walker.tensor_value(t)
    for oc in agent.registry.optimizers:
        cells = {}
        walker.optimizer_cells(getattr(agent, oc.name), cells, oc.name)
        for c, (p, v) in cells.items():
            out["opt:" + p] = v
    for n in lr_names(agent) + ["batch_size", "learn_step"]:
        if hasattr(agent, n):
            out["hp:" + n] = repr(getattr(agent, n))
    return out


def param_values(agent) -> dict:
    out = {}
    for oc in agent.registry.optimizers:
        for n in oc.networks:
            for j, m in enumerate(mods_of(agent, n)):
                out[(n, j)] = [p.detach().clone() for p in m.parameters()]
    return out


# ------------------------------------------------------------------------------ recording
class Recorder:
    """wraps the mutation options of one `Mutations` object, `HyperparameterConfig.sample` and
    `EvolvableAlgorithm.clone` so that the harness knows what was drawn for whom"""

    def __init__(self):
        self.kinds = {}        # id(agent) -> kind
        self.hp = {}           # id(agent) -> sampled hyper-parameter name
        self.parents = {}      # id(child) -> parent object
        self.draws = {}        # id(agent) -> [(function, arguments, value)] numpy draws made while it was mutated
        self._current = None

    def wrap_mutations(self, m):
        def wrap(fn):
            # by identity with the class attribute, so that a patched method is still recognised
            kind = next((k for a, k in OPTION_KIND.items()
                         if getattr(fn, "__func__", None) is getattr(type(m), a, None)), None)
            if kind is None:
                raise InfraError(f"unknown mutation option {fn!r}")

            def wrapped(individual, _fn=fn, _kind=kind):
                self.kinds[id(individual)] = _kind
                self._current = individual
                try:
                    return _fn(individual)
                finally:
                    self._current = None
            wrapped.__name__ = fn.__name__
            return wrapped
        m.mut_options = tuple(wrap(f) for f in m.mut_options)
        m.pretraining_mut_options = tuple(wrap(f) for f in m.pretraining_mut_options)

    @contextlib.contextmanager
    def patched(self):
        from agilerl.algorithms.core.registry import HyperparameterConfig
        from agilerl.algorithms.core.base import EvolvableAlgorithm
        o_sample, o_clone = HyperparameterConfig.sample, EvolvableAlgorithm.clone
        rec = self

        def sample(cfg):
            r = o_sample(cfg)
            if rec._current is not None:
                rec.hp[id(rec._current)] = r[0]
            return r

        def clone(agent, *a, **k):
            c = o_clone(agent, *a, **k)
            rec.parents[id(c)] = agent
            return c
        # the draws the mutation methods of the networks make (which layer, how many nodes, kernel ...): passed
        # through unchanged and recorded per agent, so that `offered_check` can re-enact a mutation
        o_ri, o_ch = np.random.randint, np.random.choice

        def randint(*a, **k):
            v = o_ri(*a, **k)
            if rec._current is not None:
                rec.draws.setdefault(id(rec._current), []).append(("randint", draw_sig(a, k), v))
            return v

        def choice(*a, **k):
            v = o_ch(*a, **k)
            if rec._current is not None:
                rec.draws.setdefault(id(rec._current), []).append(("choice", draw_sig(a, k), v))
            return v
        HyperparameterConfig.sample = sample
        EvolvableAlgorithm.clone = clone
        np.random.randint, np.random.choice = randint, choice
        try:
            yield
        finally:
            HyperparameterConfig.sample = o_sample
            EvolvableAlgorithm.clone = o_clone
            np.random.randint, np.random.choice = o_ri, o_ch


def draw_sig(a, k) -> str:
    def c(x):
        if isinstance(x, (list, tuple, np.ndarray)):
            return [c(y) for y in x]
        return int(x) if isinstance(x, (int, np.integer)) else repr(x)
    return json.dumps([[c(x) for x in a], {n: c(v) for n, v in sorted(k.items()) if n != "dtype"}])


class ReplayDraws:
    """serves np.random.randint / np.random.choice from a recorded list, in order; a call that does not
    fit the next record gets a fresh draw and sets `unaligned`"""

    def __init__(self, log: list):
        self.log, self.pos, self.unaligned = list(log), 0, False
        self._o = None

    def _serve(self, name, a, k, real):
        if self.pos < len(self.log) and self.log[self.pos][0] == name and self.log[self.pos][1] == draw_sig(a, k):
            v = self.log[self.pos][2]
            self.pos += 1
            return v.copy() if isinstance(v, np.ndarray) else v
        self.unaligned = True
        return real(*a, **k)

    def __enter__(self):
        self._o = (np.random.randint, np.random.choice)
        o_ri, o_ch = self._o
        np.random.randint = lambda *a, **k: self._serve("randint", a, k, o_ri)
        np.random.choice = lambda *a, **k: self._serve("choice", a, k, o_ch)
        return self

    def __exit__(self, *exc):
        np.random.randint, np.random.choice = self._o


def sig_text(sig: dict) -> str:
    return " ".join(f"{k}={v}" for k, v in sorted(sig.items()) if k.endswith("hidden_size") or k.endswith("channel_size"))


def shadow_evals(agent) -> dict:
    """clones of every evaluation module of an agent (taken before a mutation)"""
    return {n: [m.clone() for m in mods_of(agent, n)] for n, r, _ in net_layout(agent) if not r.startswith("s")}


def offered_check(agent, shadow: dict, log: list, where: str, problems: list, tags: list):
    """Oracle for agents whose evaluation networks differ in architecture / bounds (user-supplied networks), the
    statement re-enacted on clones taken before the mutation: module j of the policy applied method A_j
    (`last_mutation_attr`) and returned arguments K_j; module j of every other evaluation network must be exactly
    what `getattr(its old self, A_j)(**K_j)` makes of it - same constructor sizes, same `last_mutation_attr` (its
    OWN fallback and bounds allowed, nothing else).  The numpy draws recorded during the real mutation are served
    in the same order (policy modules first, then the other networks in registry order).
    -> {(network, j): as expected} or None when the policy's own step cannot be re-enacted from the record"""
    layout = net_layout(agent)
    pol = [n for n, r, _ in layout if r == "p"][0]
    others = [n for n, r, _ in layout if r == "e"]
    ok: dict = {}
    A, K = [], []
    with ReplayDraws(log) as rp, warnings.catch_warnings():
        warnings.simplefilter("ignore")
        for real, sh in zip(mods_of(agent, pol), shadow[pol]):
            a = getattr(real, "last_mutation_attr", None)
            k = {}
            if a is not None:
                try:
                    k = getattr(sh, a)() or {}
                except Exception:
                    tags.append("shadow-unaligned")
                    return None
                if sh.last_mutation_attr != a or arch_sig(sh) != arch_sig(real) or rp.unaligned:
                    tags.append("shadow-unaligned")
                    return None
            A.append(a)
            K.append(k)
        for n in others:
            for j, (real, sh) in enumerate(zip(mods_of(agent, n), shadow[n])):
                a, k = (A[j], K[j]) if j < len(A) else (A[0], K[0])
                before = arch_sig(sh)
                if a is None:
                    sh.last_mutation_attr = None
                else:
                    try:
                        getattr(sh, a)(**k)
                    except Exception:
                        continue                   # the real call raised as well: reported as the failure of the op
                got = getattr(real, "last_mutation_attr", None)
                same = sh.last_mutation_attr == got and arch_sig(sh) == arch_sig(real)
                ok[(n, j)] = same
                kk = {x: (int(y) if isinstance(y, (int, np.integer)) else y) for x, y in k.items()}
                if not same:
                    problems.append(
                        f"{where}: module {j} of the policy applied {a} and returned {kk}; handed that, {n}[{j}] "
                        f"({sig_text(before)}) applies {sh.last_mutation_attr} ({arch_delta(before, arch_sig(sh))}), "
                        f"but the agent's {n}[{j}] applied {got} ({arch_delta(before, arch_sig(real))}): a network "
                        f"trained alongside the policy was not handed the policy's mutation")
                elif sh.last_mutation_attr != a:
                    tags.append("hetero-own-fallback")
                elif a is not None and arch_sig(sh) == before:
                    tags.append("hetero-own-bound")
    return ok


# ------------------------------------------------------------------------------ one history
def seed_all(s: int) -> None:
    random.seed(s)
    np.random.seed(s % (2 ** 32))
    torch.manual_seed(s)


def make_hp_config(algo: str, hps):
    import agents as A
    if hps is None:
        return A.default_hp_config(algo)
    from agilerl.algorithms.core.registry import HyperparameterConfig, RLParameter
    kw = {}
    for h in hps:
        if h in ("batch_size", "learn_step"):
            kw[h] = RLParameter(min=2, max=64, dtype=int)
        else:
            kw[h] = RLParameter(min=1e-6, max=1e-1)
    return HyperparameterConfig(**kw)


# ------------------------------------------------------------------------------ synthetic algorithms
# `Mutations` is driven by the registry, not by the eleven built-in algorithms: the family below is
# defined through the public API (RLAlgorithm subclass, NetworkGroup, OptimizerWrapper, tiny
# EvolvableMLPs, a trivial learn) and varies the registry shape systematically.
#   shape = {"pt": policy has a target, "extras": [target? per extra evaluation group (0..2)],
#            "opt": "per-net" | "joint" (one optimizer over every evaluation network) |
#                   "joint-extras" (policy optimizer + one optimizer over all extra networks),
#            "lr": "separate" | "shared" | "mixed" (extras share one lr attribute), "multi": list groups}
SYN = "SYN"
_SYN: dict = {}
SYN_LR_NAMES = ["lr", "lr_b", "lr_c"]


def syn_lr_plan(shape: dict) -> list:
    """lr attribute name of each optimizer, in registration order"""
    n_ex = len(shape["extras"])
    n_opt = {"per-net": 1 + n_ex, "joint": 1, "joint-extras": 2 if n_ex else 1}[shape["opt"]]
    mode = shape.get("lr", "separate")
    if mode == "shared":
        return ["lr"] * n_opt
    if mode == "mixed":
        return ["lr"] + ["lr_b"] * (n_opt - 1)
    return SYN_LR_NAMES[:n_opt]


def syn_class():
    if "cls" in _SYN:
        return _SYN["cls"]
    import torch.optim as optim
    from agilerl.algorithms.core import RLAlgorithm
    from agilerl.algorithms.core.registry import NetworkGroup
    from agilerl.algorithms.core.wrappers import OptimizerWrapper
    from agilerl.modules.mlp import EvolvableMLP

    class SynAlgo(RLAlgorithm):
        """registry-shaped toy algorithm; every NetworkGroup / OptimizerWrapper is created directly in
        __init__ (the library infers attribute names from the caller's frame)"""

        def __init__(self, observation_space, action_space, index=0, shape=None, lr=0.001, lr_b=0.002, lr_c=0.004,
                     batch_size=8, tau=0.5, hp_config=None, device="cpu", accelerator=None, wrap=True):
            super().__init__(observation_space, action_space, index=index, hp_config=hp_config, device=device,
                             accelerator=accelerator, name="SynAlgo")
            self.shape = shape
            self.lr, self.lr_b, self.lr_c = lr, lr_b, lr_c
            self.batch_size, self.tau = batch_size, tau
            n_obs, n_act = observation_space.shape[0], action_space.shape[0]
            multi, n_sub = bool(shape.get("multi")), 2

            def mlp(n_out, k=0):
                a = (shape.get("archs") or [])[k:k + 1]
                if a:        # network k (0 = policy, then the extra groups) with its own depth and bounds
                    return EvolvableMLP(n_obs, n_out, hidden_size=list(a[0]["h"]), min_hidden_layers=a[0]["ll"],
                                        max_hidden_layers=a[0]["hl"], min_mlp_nodes=a[0]["ln"], max_mlp_nodes=a[0]["hn"],
                                        device=device)
                return EvolvableMLP(n_obs, n_out, hidden_size=[32, 32] if shape.get("deep") else [32], min_mlp_nodes=8,
                                    max_mlp_nodes=128, device=device)

            # networks: policy first, then the extra evaluation groups, each followed by its target
            if multi:
                self.actors = [mlp(n_act) for _ in range(n_sub)]
                if shape["pt"]:
                    self.actor_targets = [mlp(n_act) for _ in range(n_sub)]
                    for t, e in zip(self.actor_targets, self.actors):
                        t.load_state_dict(e.state_dict())
            else:
                self.actor = mlp(n_act)
                if shape["pt"]:
                    self.actor_target = mlp(n_act)
                    self.actor_target.load_state_dict(self.actor.state_dict())
            for k, has_t in enumerate(shape["extras"]):
                if multi:
                    setattr(self, f"critics_{k + 1}", [mlp(1, k + 1) for _ in range(n_sub)])
                    if has_t:
                        setattr(self, f"critic_targets_{k + 1}", [mlp(1, k + 1) for _ in range(n_sub)])
                        for t, e in zip(getattr(self, f"critic_targets_{k + 1}"), getattr(self, f"critics_{k + 1}")):
                            t.load_state_dict(e.state_dict())
                else:
                    setattr(self, f"critic_{k + 1}", mlp(1, k + 1))
                    if has_t:
                        setattr(self, f"critic_target_{k + 1}", mlp(1, k + 1))
                        getattr(self, f"critic_target_{k + 1}").load_state_dict(getattr(self, f"critic_{k + 1}").state_dict())
            pol = "actors" if multi else "actor"
            ex = [(f"critics_{k + 1}" if multi else f"critic_{k + 1}") for k in range(len(shape["extras"]))]
            plan = [getattr(self, n) for n in syn_lr_plan(shape)]
            # optimizers
            if shape["opt"] == "joint" and not multi:
                self.optimizer = OptimizerWrapper(optim.Adam, networks=[getattr(self, n) for n in [pol] + ex]
                                                  if ex else getattr(self, pol), lr=plan[0])
            else:
                if multi:
                    self.actor_optimizers = OptimizerWrapper(optim.Adam, networks=self.actors, lr=plan[0], multiagent=True)
                else:
                    self.actor_optimizer = OptimizerWrapper(optim.Adam, networks=self.actor, lr=plan[0])
                if shape["opt"] == "joint-extras" and not multi and len(ex) > 1:
                    self.critics_optimizer = OptimizerWrapper(optim.Adam, networks=[getattr(self, n) for n in ex], lr=plan[1])
                else:
                    for k, n in enumerate(ex):
                        if multi:
                            setattr(self, f"critic_{k + 1}_optimizers",
                                    OptimizerWrapper(optim.Adam, networks=getattr(self, n), lr=plan[min(k + 1, len(plan) - 1)],
                                                     multiagent=True))
                        else:
                            setattr(self, f"critic_{k + 1}_optimizer",
                                    OptimizerWrapper(optim.Adam, networks=getattr(self, n), lr=plan[min(k + 1, len(plan) - 1)]))
            # registry
            if multi:
                self.register_network_group(NetworkGroup(eval=self.actors, shared=self.actor_targets if shape["pt"] else None,
                                                         policy=True, multiagent=True))
            else:
                self.register_network_group(NetworkGroup(eval=self.actor, shared=self.actor_target if shape["pt"] else None,
                                                         policy=True))
            for k, has_t in enumerate(shape["extras"]):
                if multi:
                    self.register_network_group(NetworkGroup(
                        eval=getattr(self, f"critics_{k + 1}"),
                        shared=getattr(self, f"critic_targets_{k + 1}") if has_t else None, multiagent=True))
                else:
                    self.register_network_group(NetworkGroup(
                        eval=getattr(self, f"critic_{k + 1}"),
                        shared=getattr(self, f"critic_target_{k + 1}") if has_t else None))

        def _eval_target_pairs(self):
            for g in self.registry.groups:
                sh = g.shared if g.shared is not None else []
                for s in (sh if isinstance(sh, list) else [sh]):
                    yield g.eval, s

        def get_action(self, obs, *args, **kwargs):
            pol = self.registry.policy
            nets = getattr(self, pol)
            x = torch.as_tensor(np.asarray(obs), dtype=torch.float32)
            with torch.no_grad():
                outs = [m(x).numpy() for m in (nets if isinstance(nets, list) else [nets])]
            return np.concatenate(outs, axis=-1)

        def learn(self, experiences, **kwargs):
            x = experiences
            loss = 0.0
            for g in self.registry.groups:
                nets = getattr(self, g.eval)
                for m in (nets if isinstance(nets, list) else [nets]):
                    loss = loss + ((m(x) - 1.0) ** 2).mean()
            opts = []
            for oc in self.registry.optimizers:
                w = getattr(self, oc.name)
                opts += list(w.optimizer) if isinstance(w.optimizer, list) else [w.optimizer]
            for o in opts:
                o.zero_grad()
            loss.backward()
            for o in opts:
                o.step()
            for e, t in self._eval_target_pairs():        # soft update
                en, tn = getattr(self, e), getattr(self, t)
                for em, tm in zip(en if isinstance(en, list) else [en], tn if isinstance(tn, list) else [tn]):
                    for tp, ep in zip(tm.parameters(), em.parameters()):
                        tp.data.copy_(self.tau * ep.data + (1 - self.tau) * tp.data)
            return float(loss)

        def test(self, *args, **kwargs):
            return 0.0

    _SYN["cls"] = SynAlgo
    return SynAlgo


def syn_build(case: dict, i: int):
    from gymnasium import spaces
    from agilerl.algorithms.core.registry import HyperparameterConfig, RLParameter
    shape = case["shape"]
    names = case.get("hps") or (sorted(set(syn_lr_plan(shape))) + ["batch_size"])
    kw = {h: (RLParameter(min=2, max=64, dtype=int) if h == "batch_size" else RLParameter(min=1e-6, max=1e-1)) for h in names}
    # distinct float objects with distinct values: OptimizerWrapper infers lr_name by identity
    return syn_class()(spaces.Box(-1, 1, (4,), dtype=np.float32), spaces.Box(-1, 1, (2,), dtype=np.float32), index=i,
                       shape=shape, lr=float("0.0009765625"), lr_b=float("0.001953125"), lr_c=float("0.00390625"),
                       hp_config=HyperparameterConfig(**kw))


def syn_shapes():
    """the registry shapes, systematically: policy with / without target x 0..2 extra evaluation groups
    with / without target x optimizer layout x lr sharing x list groups"""
    out = []
    for pt in (False, True):
        for extras in ([], [False], [True], [True, False], [False, True], [True, True]):
            layouts = ["per-net"] + (["joint"] if extras else []) + (["joint-extras"] if len(extras) > 1 else [])
            for opt in layouts:
                lrs = ["separate"] if opt == "joint" or not extras else ["separate", "shared", "mixed"]
                if opt == "joint-extras":
                    lrs = ["separate", "shared"]
                for lr in lrs:
                    if lr == "mixed" and len(extras) < 2:
                        continue
                    out.append({"pt": pt, "extras": extras, "opt": opt, "lr": lr, "multi": False})
            for lr in (["separate", "shared"] if extras else ["separate"]):
                out.append({"pt": pt, "extras": extras, "opt": "per-net", "lr": lr, "multi": True})
    return out


def deep_net_config(algo: str, fam: str) -> dict:
    """the smallest networks with TWO hidden layers everywhere, so that node / channel mutations have a
    layer to choose (incl. layer 0)"""
    import agents as A
    cfg = A.default_net_config(algo, fam)

    def deepen(c):
        for k, v in list(c.items()):
            if k in ("hidden_size",) and isinstance(v, list):
                c[k] = [v[0], v[0]]
            elif k in ("channel_size", "kernel_size", "stride_size") and isinstance(v, list):
                c[k] = [v[0], v[0]]
            elif isinstance(v, dict):
                deepen(v)
    deepen(cfg)
    return cfg


# constructor arguments through which the algorithms accept user-supplied networks (policy, other evaluation networks)
NET_ARGS = {"DDPG": ("actor_network", "critic_network", "one"), "PPO": ("actor_network", "critic_network", "one"),
            "TD3": ("actor_network", "critic_networks", "list"), "MADDPG": ("actor_networks", "critic_networks", "one"),
            "IPPO": ("actor_networks", "critic_networks", "one"), "MATD3": ("actor_networks", "critic_networks", "list")}


def is_hetero(case: dict) -> bool:
    return bool(case.get("nets")) or bool((case.get("shape") or {}).get("archs"))


def user_networks(algo: str, fam: str, seed: int, nets: list) -> dict:
    """the networks a user would hand to the constructor: those of a default agent, re-built from their own
    constructor description with the head (depth, widths, bounds) of `nets[g]` for registry group g"""
    import copy
    import agents as A
    donor = A.build(algo, fam, seed=seed, hp_config=A.default_hp_config(algo))

    def remake(net, a):
        d = copy.deepcopy(getattr(net, "_orig_mod", net).init_dict)
        d["head_config"] = dict(d.get("head_config") or {}, hidden_size=list(a["h"]), min_hidden_layers=a["ll"],
                                max_hidden_layers=a["hl"], min_mlp_nodes=a["ln"], max_mlp_nodes=a["hn"])
        if a.get("enc"):
            d["encoder_config"] = dict(d.get("encoder_config") or {}, hidden_size=list(a["enc"]), min_mlp_nodes=a["ln"],
                                       max_mlp_nodes=a["hn"])
        return type(getattr(net, "_orig_mod", net))(**d)
    groups = []
    for g, a in zip(donor.registry.groups, nets):
        o = getattr(donor, g.eval)
        groups.append([remake(n, a) for n in o] if isinstance(o, list) else remake(o, a))
    p_arg, c_arg, form = NET_ARGS[algo]
    return {p_arg: groups[0], c_arg: groups[1] if form == "one" else groups[1:]}


def build_population(case: dict):
    import agents as A
    algo, fam = case["algo"], case["family"]
    idx = case.get("indices") or list(range(case["size"]))
    if algo == SYN:
        return [syn_build(case, idx[i]) for i in range(case["size"])]
    pop = []
    for i in range(case["size"]):
        kw = {}
        if algo in ("DDPG", "TD3", "MADDPG", "MATD3"):
            # distinct float objects (see known finding C06-lr-name-by-identity)
            kw = dict(lr_actor=float("0.0001220703125"), lr_critic=float("0.0009765625"))
        if case.get("deep"):
            kw["net_config"] = deep_net_config(algo, fam)
        if case.get("nets"):
            with A._PreservedRNG():
                kw.update(user_networks(algo, fam, case["seed"] + 17 * i, case["nets"]))
        ag = A.build(algo, fam, seed=case["seed"] + 17 * i, share_encoders=case.get("share"),
                     hp_config=make_hp_config(algo, case.get("hps")), index=idx[i], **kw)
        pop.append(ag)
    return pop


def learn_round(agent, algo: str, fam: str, seed: int) -> None:
    import agents as A
    if algo == SYN:
        g = torch.Generator().manual_seed(seed)
        agent.learn(torch.randn(int(agent.batch_size), 4, generator=g))
        return
    for r in range(int(getattr(agent, "policy_freq", 1) or 1)):
        A.learn_once(agent, algo, fam, seed=seed + r)


def run_history(chk: Check, case: dict, mode: str = "repaired") -> dict:
    """returns dict(diff, problems, tags, impl, model, lines)"""
    import agents as A
    from agilerl.hpo.mutation import Mutations
    from agilerl.hpo.tournament import TournamentSelection
    algo, fam, N = case["algo"], case["family"], case["size"]
    problems: list[str] = []
    tags: list[str] = []
    lines = [f"coh mode {mode}"]
    impl: list[str | None] = [None]          # None = model line whose answer is not compared ("ok")
    rec = Recorder()
    with warnings.catch_warnings(), rec.patched():
        warnings.simplefilter("ignore")
        seed_all(case["seed"])
        try:
            pop = build_population(case)
        except Exception as e:
            raise InfraError(f"cannot build {algo}/{fam}: {type(e).__name__}: {e}")
        for i, ag in enumerate(pop):
            lines.append(descriptor_line(ag))
            impl.append(None)
            lines.append(f"coh show {i}")
            impl.append(observe(ag, problems, f"fresh agent {i}", False))
        aborted = False
        for t, op in enumerate(case["ops"]):
            where = f"op {t} {op[0]}"
            try:
                if op[0] == "select":
                    seed_all(op[1])
                    rng = random.Random(op[1])
                    for ag in pop:
                        ag.fitness.append(float(rng.randint(0, 100)))
                    ts = TournamentSelection(tournament_size=2, elitism=bool(op[2]), population_size=N, eval_loop=1)
                    _, new = ts.select(pop)
                    spec = []
                    for c in new:
                        p = rec.parents.get(id(c))
                        hops = 0
                        while p is not None and all(p is not x for x in pop) and hops < 5:
                            p = rec.parents.get(id(p))
                            hops += 1
                        if p is None or all(p is not x for x in pop):
                            raise InfraError("could not trace a selected agent back to its parent")
                        spec.append(f"{[x is p for x in pop].index(True)}:{c.index}")
                    if len(new) != N:
                        problems.append(f"{where}: selection returned {len(new)} agents for population size {N}")
                    pop = new
                    lines.append("coh select " + " ".join(spec))
                    impl.append(None)
                    tags.append("select")
                elif op[0] == "mutate":
                    probs, pre, mseed, elite = op[1], bool(op[2]), op[3], bool(op[4])
                    before_idx = [ag.index for ag in pop]
                    before_ids = [eval_param_ids(ag) for ag in pop]
                    before_arch = [eval_archs(ag) for ag in pop]
                    before_sig = [eval_sigs(ag) for ag in pop]
                    changes = {}
                    offered = {}
                    shadows = {id(ag): shadow_evals(ag) for ag in pop} if is_hetero(case) and probs[1] else {}
                    before_state = [opt_state_sizes(ag) for ag in pop]
                    before_sync = [targets_in_sync(ag) for ag in pop]
                    m = Mutations(no_mutation=probs[0], architecture=probs[1],
                                  new_layer_prob=op[5] if len(op) > 5 else 0.5, parameters=probs[2],
                                  activation=probs[3], rl_hp=probs[4], mutation_sd=0.1, rand_seed=mseed,
                                  mutate_elite=elite, device="cpu")
                    rec.wrap_mutations(m)
                    rec.kinds.clear()
                    rec.hp.clear()
                    rec.draws.clear()
                    out = m.mutation(pop, pre_training_mut=pre)
                    # ---- oracle: size, order, indices
                    if len(out) != len(pop):
                        problems.append(f"{where}: mutation returned {len(out)} agents for {len(pop)}")
                    elif [ag.index for ag in out] != before_idx:
                        problems.append(f"{where}: indices {before_idx} became {[ag.index for ag in out]}")
                    # ---- oracle: output[i] is the mutated input[i]: pairwise distinct agents, in the order given
                    if len({id(x) for x in out}) != len(out):
                        dup = [[j for j, y in enumerate(out) if y is x] for x in out]
                        problems.append(f"{where}: the returned population holds the same agent object at positions "
                                        f"{max(dup, key=len)} (input indices {before_idx}): agents were lost")
                    else:
                        for i, x in enumerate(out):
                            j = next((j for j, y in enumerate(pop) if y is x), None)
                            if j is not None and j != i:
                                problems.append(f"{where}: position {i} of the returned population is input agent {j} "
                                                f"(input indices {before_idx}): order not preserved")
                                break
                    pop = list(out)
                    choices = []
                    for i, ag in enumerate(pop):
                        kind = rec.kinds.get(id(ag), "none")
                        label = str(ag.mut)
                        tags.append("kind-" + kind)
                        if i < len(before_state):
                            # measured, not judged: the property does not forbid losing the Adam moments
                            st = opt_state_sizes(ag)
                            if any(b > 0 for b in before_state[i]):
                                lost = sum(1 for b, a in zip(before_state[i], st) if b > 0 and a == 0)
                                tags.append(f"optstate-{'dropped' if lost else 'kept'}-{kind}")
                            if before_sync[i] is False and targets_in_sync(ag):
                                tags.append(f"targets-hard-synced-{kind}")
                        touched = i < len(before_ids) and eval_param_ids(ag) != before_ids[i]
                        rearch = i < len(before_arch) and eval_archs(ag) != before_arch[i]
                        if kind == "none":
                            choices.append("none")
                            want = "None"
                            if touched or rearch:
                                problems.append(f"{where}: agent {i} drew no mutation but its evaluation networks changed")
                        elif kind == "param":
                            choices.append("param")
                            want = "param"
                        elif kind == "act":
                            choices.append("act")
                            # what it received is what can be seen: networks rebuilt or left alone
                            want = "act" if (touched or rearch) else "None"
                        elif kind == "rl_hp":
                            name = rec.hp.get(id(ag))
                            if name is None:          # empty hp_config: the code reports "None"
                                choices.append("none")
                                want = "None"
                            else:
                                lrs = lr_names(ag)
                                if name in lrs:
                                    choices.append(f"hp {name} {lrs.index(name)} {frac(getattr(ag, name))}")
                                    tags.append("hp-lr")
                                else:
                                    choices.append(f"hp {name} _ _")
                                want = name
                        else:
                            changes[i] = applied_changes(ag, before_sig[i] if i < len(before_sig) else {})
                            ap = applied_of(ag, changes[i])
                            if id(ag) in shadows:
                                tags.append("hetero-arch")
                                offered[i] = offered_check(ag, shadows[id(ag)], rec.draws.get(id(ag), []),
                                                           f"{where}: agent {i}", problems, tags)
                            choices.append("arch " + ",".join(change_token(m, d) for m, d in ap) + " " + arch_sizes(ag))
                            want = str(ap[0][0])
                            if len({d for _, d in ap}) > 1:
                                tags.append("arch-subagents-differ")
                            tags.append("arch-" + ("noop" if ap[0][0] is None else str(ap[0][0]).split(".")[-1]))
                            if ap[0][0] is None and rearch:
                                problems.append(f"{where}: agent {i} reports that no architecture method was applied "
                                                "but the architecture of an evaluation network changed")
                        # ---- oracle: the agent reports the mutation it received
                        if label != want:
                            problems.append(f"{where}: agent {i} drew {kind} ({want}) but reports mut={label!r}")
                    lines.append("coh mutate " + " | ".join(choices))
                    impl.append(None)
                    for i, ag in enumerate(pop):
                        lines.append(f"coh show {i}")
                        impl.append(observe(ag, problems, f"{where}: agent {i} after {rec.kinds.get(id(ag), 'none')}", True))
                        if rec.kinds.get(id(ag)) == "arch" and not (is_hetero(case) and offered.get(i) is None):
                            lines.append(f"coh lma {i}")
                            impl.append(lma_line(ag, problems, f"{where}: agent {i}", changes[i], offered.get(i)))
                    # ---- oracle: every agent can still act
                    for i, ag in enumerate(pop):
                        try:
                            if algo == SYN:
                                act = ag.get_action(np.random.default_rng(mseed + i).uniform(-1, 1, (2, 4)))
                            else:
                                obs = A.sample_obs(ag, algo, fam, 2, seed=mseed + i)
                                act = A.greedy_action(ag, algo, obs, torch_seed=3)
                            flat = np.concatenate([np.asarray(v, dtype=np.float64).reshape(-1) for v in
                                                   (act.values() if isinstance(act, dict) else [act])])
                            if not np.all(np.isfinite(flat)):
                                problems.append(f"{where}: agent {i} returns non-finite actions after {rec.kinds.get(id(ag))}")
                        except Exception as e:
                            problems.append(f"{where}: agent {i} cannot act after {rec.kinds.get(id(ag), 'none')}: "
                                            f"{type(e).__name__}: {str(e)[:160]}")
                    tags.append("mutate-pre" if pre else "mutate")
                elif op[0] == "learn":
                    i = op[1] % len(pop)
                    ag = pop[i]
                    lines.append(f"coh moved {i}")
                    others = {j: fingerprint(x) for j, x in enumerate(pop) if j != i}
                    before = param_values(ag)
                    learn_round(ag, algo, fam, op[2])
                    after = param_values(ag)
                    layout = net_layout(ag)
                    name_idx = {n: k for k, (n, _, _) in enumerate(layout)}
                    moved = set()
                    for oc in ag.registry.optimizers:
                        for n in oc.networks:
                            ok = True
                            for j in range(len(mods_of(ag, n))):
                                b, a = before[(n, j)], after[(n, j)]
                                same_objs = len(a) == len(b)
                                ch = same_objs and any(not torch.equal(x, y) for x, y in zip(b, a))
                                if not ch:
                                    ok = False
                                    problems.append(f"{where}: a learn step on agent {i} did not change any parameter "
                                                    f"of {n}[{j}] (registered with {oc.name})")
                            if ok:
                                moved.add(name_idx[n])
                    impl.append(" ".join(map(str, sorted(moved))))
                    for j, fp in others.items():
                        now = fingerprint(pop[j])
                        if now != fp:
                            ks = [k for k in fp if now.get(k) != fp[k]][:3]
                            problems.append(f"{where}: a learn step on agent {i} changed {ks} of agent {j}")
                    lines.append(f"coh learn {i}")
                    impl.append(None)
                    lines.append(f"coh show {i}")
                    impl.append(mask_w(observe(ag, problems, f"{where}: agent {i} after learn", False)))
                    tags.append("learn")
                else:
                    raise InfraError(f"unknown op {op}")
            except InfraError:
                raise
            except Exception as e:
                problems.append(f"{where} raised {type(e).__name__}: {str(e)[:200]}")
                aborted = True
            if aborted:
                break
    out = chk.driver.run(["reset"] + lines)[1:]
    if any(o == "bad-op" for o in out):
        k = out.index("bad-op")
        raise InfraError(f"driver answered bad-op to {lines[k]!r}")
    model = []
    for ln, o, im in zip(lines, out, impl):
        if im is None:
            model.append(None)
            if o not in ("ok",):
                raise InfraError(f"driver answered {o!r} to {ln!r}")
        elif ln.startswith("coh show") and im.startswith("~"):
            model.append(mask_w(o))
        else:
            model.append(o)
    diff = next((k for k, (a, b) in enumerate(zip(impl, model)) if a != b), None)
    return {"diff": diff, "problems": problems, "tags": tags, "impl": impl, "model": model, "lines": lines}


def mask_w(line: str) -> str:
    """after a learn step the weights of target networks legitimately differ: hide the w flags"""
    import re
    return "~" + re.sub(r"(sh\d+:a\d)w\d", r"\1w?", line.lstrip("~"))


# ------------------------------------------------------------------------------ generation
UNIT = {k: [1 if j == i else 0 for j in range(5)] for i, k in enumerate(KINDS)}


def gen_probs(rng: random.Random):
    r = rng.random()
    if r < 0.5:
        return list(UNIT[rng.choice(KINDS)])
    if r < 0.75:
        return [0.2, 0.2, 0.2, 0.2, 0.2]
    v = [rng.choice([0, 0, 1, 2, 3]) for _ in range(5)]
    if sum(v) == 0:
        v[rng.randrange(5)] = 1
    return v


def gen_ops(rng: random.Random, gens: int, size: int, first_kind: str | None = None):
    ops = []
    for g in range(gens):
        pre = g == 0 and rng.random() < 0.4
        if not pre:
            ops.append(["select", rng.randrange(1 << 20), int(rng.random() < 0.7)])
        probs = list(UNIT[first_kind]) if (g == 0 and first_kind) else gen_probs(rng)
        ops.append(["mutate", probs, int(pre), rng.randrange(1 << 16), int(rng.random() < 0.85)])
        for i in rng.sample(range(size), k=rng.randint(1, size)):
            ops.append(["learn", i, rng.randrange(1 << 16)])
    return ops


def gen_net_arch(rng: random.Random) -> dict:
    """one network's head: depth at or near its own layer bounds, widths near its own node bounds"""
    ll = rng.choice([1, 1, 2])
    hl = rng.choice([ll + 1, 3])               # the constructors require min < max
    depth = rng.choice([ll, hl, rng.randint(ll, hl)])
    ln, hn = rng.choice([8, 16]), rng.choice([32, 48, 64, 128])
    return {"h": [rng.choice([w for w in (16, 24, 32) if ln <= w <= hn]) for _ in range(depth)],
            "ll": ll, "hl": hl, "ln": ln, "hn": hn}


def gen_hetero(rng: random.Random, n_groups: int) -> list:
    """architectures for the policy and the other evaluation networks such that a layer method the POLICY really applies
    makes at least one of the others fall back (it is at its own bound); with two others, mostly such that the first falls
    back and the second does not (what the first one did must not leak into what the second is handed)"""
    def blocked(a):          # layer methods this network cannot apply itself
        return {m for m, b in (("remove_layer", len(a["h"]) <= a["ll"]), ("add_layer", len(a["h"]) >= a["hl"])) if b}
    chain = n_groups > 2 and rng.random() < 0.75
    while True:
        a = [gen_net_arch(rng) for _ in range(n_groups)]
        free = {"remove_layer", "add_layer"} - blocked(a[0])
        if chain and not any(m in blocked(a[1]) and m not in blocked(a[2]) for m in free):
            continue
        if any(free & blocked(c) for c in a[1:]):
            return a


_BASELINE: dict = {}


def baseline_ok(chk: Check, algo: str, fam: str) -> bool:
    """can a freshly built, never mutated agent of this (algorithm, observation family) act and learn
    at all?  Combinations that cannot are outside this property (nothing was mutated) and are skipped."""
    import agents as A
    key = (algo, fam)
    if key not in _BASELINE:
        with A._PreservedRNG(), warnings.catch_warnings():
            warnings.simplefilter("ignore")
            try:
                ag = A.build(algo, fam, seed=1, hp_config=A.default_hp_config(algo))
                A.greedy_action(ag, algo, A.sample_obs(ag, algo, fam, 2, seed=1))
                learn_round(ag, algo, fam, 1)
                _BASELINE[key] = True
            except Exception as e:
                _BASELINE[key] = False
                chk.notes.append(f"skipped {algo}/{fam}: a fresh, unmutated agent cannot act/learn "
                                 f"({type(e).__name__}: {str(e)[:80]})")
                chk.dist[f"skipped-baseline-{algo}-{fam}"] += 1
    return _BASELINE[key]


def case_list(chk: Check):
    import agents as A
    rng = chk.rng
    cases = []
    for f in sorted((ROOT / "corpus" / "C02").glob("*.json")):
        c = json.loads(f.read_text())
        c = c.get("replay", c)
        cases.append({k: c[k] for k in ("algo", "family", "share", "seed", "size", "ops", "shape", "deep", "indices", "nets") if k in c} |
                     ({"hps": c["hps"]} if c.get("hps") else {}) | {"origin": f.name})
    quick = chk.tier == "quick"
    for algo in A.ALGOS:
        # one history per unit vector would be too slow for the quick tier: each algorithm gets the five
        # kinds as first-generation kinds spread over its histories, the rest is drawn
        firsts = rng.sample(KINDS, k=3) if quick else KINDS + [None, None]
        for fk in firsts:
            share = None
            if algo in A.SHARE_ENCODER_ALGOS:
                share = rng.random() < 0.7
            gens = rng.randint(1, 3) if quick else 6
            size = rng.choice([2, 2, 3])
            cases.append({"algo": algo, "family": "vector", "share": share, "seed": rng.randrange(1 << 20),
                          "size": size, "ops": gen_ops(rng, gens, size, fk)})
    # learning-rate mutations where one lr attribute feeds several optimizers
    # (PPO: ONE optimizer over [actor, critic] = two param groups on one lr attribute — every group is read)
    for algo, hp in ([("TD3", "lr_critic"), ("IPPO", "lr"), ("PPO", "lr")] if quick else
                     [("TD3", "lr_critic"), ("MATD3", "lr_critic"), ("IPPO", "lr"), ("PPO", "lr"), ("DDPG", "lr_actor")]):
        cases.append({"algo": algo, "family": "vector", "share": None, "seed": rng.randrange(1 << 20), "size": 2,
                      "hps": [hp], "ops": gen_ops(rng, 2, 2, "rl_hp")})
    # multi-agent: several architecture mutations in a row (different numpy seeds), so that the
    # sub-agents' policies draw different arguments (layer, number of nodes) and each critic has
    # to follow the policy of ITS sub-agent
    for algo in ("MADDPG", "MATD3", "IPPO"):
        for _ in range(1 if quick else 3):
            ops = [["mutate", list(UNIT["arch"]), 1, rng.randrange(1 << 16), 1]]
            ops += [["mutate", list(UNIT["arch"]), 0, rng.randrange(1 << 16), 1] for _ in range(2 if quick else 4)]
            ops += [["learn", 0, rng.randrange(1 << 16)], ["select", rng.randrange(1 << 20), 1],
                    ["mutate", list(UNIT["arch"]), 0, rng.randrange(1 << 16), 1], ["learn", 1, rng.randrange(1 << 16)]]
            cases.append({"algo": algo, "family": "vector", "share": None, "seed": rng.randrange(1 << 20), "size": 2,
                          "ops": ops})
    # registry shapes the built-in algorithms do not exercise: synthetic algorithms (public API)
    shapes = syn_shapes()
    must = [sh for sh in shapes if not sh["pt"] and any(sh["extras"])]         # target-less policy, critic with target
    picked = rng.sample(must, k=2 if quick else 6) + rng.sample(shapes, k=8 if quick else 30)
    for sh in picked:
        size = 2
        ops = [["learn", i, rng.randrange(1 << 16)] for i in range(size)]       # in-training: targets lag behind
        ops += gen_ops(rng, 2 if quick else 4, size, rng.choice(KINDS))
        ops += [["mutate", list(UNIT["arch"]), 0, rng.randrange(1 << 16), 1], ["learn", 0, rng.randrange(1 << 16)]]
        cases.append({"algo": SYN, "family": "vector", "share": None, "seed": rng.randrange(1 << 20), "size": size,
                      "shape": sh, "ops": ops})
    # networks with two hidden layers everywhere + node mutations in a row: the layer the policy draws
    # (incl. layer 0) must be the layer every co-trained network changes
    arch_node = lambda: ["mutate", list(UNIT["arch"]), 0, rng.randrange(1 << 16), 1, 0.1]
    deep_syn = [{"pt": True, "extras": [True, True], "opt": "per-net", "lr": "separate", "multi": True, "deep": True},
                {"pt": False, "extras": [True, False], "opt": "joint", "lr": "separate", "multi": False, "deep": True}]
    for sh in deep_syn:
        cases.append({"algo": SYN, "family": "vector", "share": None, "seed": rng.randrange(1 << 20), "size": 2,
                      "shape": sh, "ops": [arch_node() for _ in range(5 if quick else 10)] + [["learn", 0, rng.randrange(1 << 16)]]})
    for algo in (rng.sample(["DDPG", "TD3", "PPO", "MADDPG", "MATD3", "IPPO"], k=3) if quick else
                 ["DDPG", "TD3", "PPO", "MADDPG", "MATD3", "IPPO"]):
        cases.append({"algo": algo, "family": "vector", "share": None, "seed": rng.randrange(1 << 20), "size": 2,
                      "deep": True, "ops": [arch_node() for _ in range(4 if quick else 8)] + [["learn", 1, rng.randrange(1 << 16)]]})
    # agents built from USER-SUPPLIED networks whose heads differ in depth / bounds between the policy and the other
    # evaluation networks (every algorithm that accepts them; synthetic registry shapes with 1-2 extra groups, single
    # and list groups): architecture mutations in a row, layer-heavy and node-heavy, then select / learn; the method a
    # network falls back on and the bound that stops it are its own, the method and arguments it is handed are the policy's
    def arch_at(p):
        return ["mutate", list(UNIT["arch"]), 0, rng.randrange(1 << 16), 1, p]
    het_algos = ["DDPG", "TD3", "PPO"] + ([rng.choice(["MADDPG", "MATD3", "IPPO"])] if quick else ["MADDPG", "MATD3", "IPPO"])
    for algo in het_algos * (1 if quick else 2):
        n_groups = 3 if algo in ("TD3", "MATD3") else 2
        ops = [arch_at(rng.choice([0.9, 0.9, 0.3])) for _ in range(4 if quick else 8)]
        ops += [["learn", 0, rng.randrange(1 << 16)], ["select", rng.randrange(1 << 20), 1], arch_at(0.9),
                ["learn", 1, rng.randrange(1 << 16)]]
        cases.append({"algo": algo, "family": "vector", "share": (rng.random() < 0.5) if algo in A.SHARE_ENCODER_ALGOS else None,
                      "seed": rng.randrange(1 << 20), "size": 2, "nets": gen_hetero(rng, n_groups), "ops": ops})
    het_syn = [{"pt": True, "extras": [True, True], "opt": "per-net", "lr": "separate", "multi": False},
               {"pt": True, "extras": [True, False], "opt": "per-net", "lr": "shared", "multi": True},
               {"pt": False, "extras": [True], "opt": "joint", "lr": "separate", "multi": False},
               {"pt": True, "extras": [False, True], "opt": "joint-extras", "lr": "separate", "multi": False}]
    for sh in (rng.sample(het_syn, 2) if quick else het_syn):
        ops = [arch_at(rng.choice([0.9, 0.9, 0.3])) for _ in range(5 if quick else 10)] + [["learn", 0, rng.randrange(1 << 16)]]
        cases.append({"algo": SYN, "family": "vector", "share": None, "seed": rng.randrange(1 << 20), "size": 2,
                      "shape": dict(sh, archs=gen_hetero(rng, 1 + len(sh["extras"]))), "ops": ops})
    # populations whose indices are duplicated (clones keep the parent's index), unordered, non-contiguous
    idx_algos = [("DQN", None), ("IPPO", None), (SYN, rng.choice(shapes))] + ([] if quick else [("TD3", None), ("PPO", None)])
    for k, (algo, sh) in enumerate(idx_algos):
        indices = [[4, 4, 4], [7, 2, 7], [9, 3, 5]][k % 3] if k < 3 else rng.choice([[1, 1, 0], [6, 6, 6]])
        c = {"algo": algo, "family": "vector", "share": None, "seed": rng.randrange(1 << 20), "size": 3,
             "indices": indices,
             # mutated as given first (tournament selection hands out fresh indices to its clones)
             "ops": [["mutate", gen_probs(rng), int(rng.random() < 0.5), rng.randrange(1 << 16), 1],
                     ["learn", rng.randrange(3), rng.randrange(1 << 16)]] + gen_ops(rng, 1, 3, rng.choice(KINDS))}
        if sh:
            c["shape"] = sh
        cases.append(c)
    # other observation families
    fams = ["image", "dict", "discrete", "tuple"]
    extra = 5 if quick else 16
    tries = 0
    while extra > 0 and tries < 200:
        tries += 1
        algo, fam = rng.choice(A.ALGOS), rng.choice(fams)
        if not A.supported(algo, fam) or A.known_broken(algo, fam) or not baseline_ok(chk, algo, fam):
            continue
        share = (rng.random() < 0.7) if algo in A.SHARE_ENCODER_ALGOS else None
        gens = rng.randint(1, 2) if quick else 4
        cases.append({"algo": algo, "family": fam, "share": share, "seed": rng.randrange(1 << 20), "size": 2,
                      "ops": gen_ops(rng, gens, 2, rng.choice(["arch", "arch", "param", None]))})
        extra -= 1
    return cases


# ------------------------------------------------------------------------------ reporting
def script_for(case: dict) -> str:
    return ("# VERIF_REPO=<tree> /venv/bin/python - <<'EOF'\n"
            "import sys; sys.path.insert(0, '/verif/harness'); import common, c02\n"
            f"case = {json.dumps({k: v for k, v in case.items() if k != 'origin'})}\n"
            "r = c02.run_history(common.Check('C02', 'quick', 0), case)\n"
            "print(r['problems']); print(r['diff'])\nEOF")


def shrink(chk: Check, case: dict, by_oracle: bool) -> dict:
    def fails(ops):
        c = dict(case, ops=ops)
        try:
            r = run_history(chk, c)
        except Exception:
            return False
        return bool(r["problems"]) if by_oracle else (r["diff"] is not None and not r["problems"])
    small = ddmin(case["ops"], fails)
    return dict(case, ops=small)


def report(chk: Check, case: dict, res: dict, do_shrink: bool = True) -> None:
    by_oracle = bool(res["problems"])
    small = case
    if do_shrink:
        try:
            small = shrink(chk, case, by_oracle)
            r2 = run_history(chk, small)
            if bool(r2["problems"]) == by_oracle and (by_oracle or r2["diff"] is not None):
                res = r2
            else:
                small = case
        except InfraError:
            small = case
    d = res["diff"]
    replay = {k: v for k, v in small.items() if k != "origin"}
    replay.update({"problems": res["problems"][:8], "diff_at": d,
                   "impl_line": res["impl"][d] if d is not None else None,
                   "model_line": res["model"][d] if d is not None else None,
                   "model_op": res["lines"][d] if d is not None else None,
                   "script": script_for(small),
                   "correspondence": "harness/c02.py vs Model/Coherence.lean", "theorems": chk.gate["theorems"]})
    head = f"{case['algo']}/{case['family']}/share={case.get('share')}: "
    if case.get("shape"):
        head = f"{case['algo']} {json.dumps(case['shape'], separators=(',', ':'))}: "
    if by_oracle:
        chk.violation(head + res["problems"][0], replay)
    else:
        chk.violation(head + f"implementation and Coherence model disagree at {res['lines'][d]!r}: impl={res['impl'][d]!r} "
                      f"model={res['model'][d]!r}; the property oracle holds on this history and its shrinks",
                      replay, no_input=True)


def syn_tags(case: dict) -> list:
    sh = case.get("shape")
    extra = (["deep-nets"] if case.get("deep") or (sh or {}).get("deep") else []) + \
        (["user-supplied-nets"] if is_hetero(case) else []) + \
        (["indices-" + ("duplicate" if len(set(case["indices"])) < len(case["indices"]) else "unordered")]
         if case.get("indices") else [])
    if not sh:
        return extra
    return [f"syn-policy-{'target' if sh['pt'] else 'no-target'}", f"syn-extras-{''.join('T' if t else 'n' for t in sh['extras']) or '0'}",
            f"syn-opt-{sh['opt']}", f"syn-lr-{sh['lr']}", f"syn-{'multi' if sh['multi'] else 'single'}"] + extra


# ------------------------------------------------------------------------------ OptimizerWrapper (wrappers.py)
# Suite `optimizer-wrapper`: the class the wiring model abstracts as `rebuildOpt`, now inside the model
# (Model/Coherence.lean `wrapInit` / `inferNames` / `inferLr` / `wrapLoad`; Gen/OptWrapGen.lean generated from
# wrappers.py, Proofs/OptWrapGenEq.lean).  Real wrappers are built (a) directly, inside the `__init__` of a bare holder
# object, for every shape: one module / list of 1-3 modules / multi-agent list of 1-3 modules x names passed or
# inferred x aliased attributes x several lr attributes (distinct float objects of equal or different value), and (b) by
# the constructors of all eleven algorithms and of the synthetic ones, then re-created by `Mutations.reinit_opt` after
# the lr attribute was replaced.  `wrap_model` below is the model's `wrapInit` written out on Python ids (exact oracle);
# the property oracle is the statement: the parameter objects of the param groups ARE the registered networks'
# parameters, group by group, in order, every group's lr is the lr passed, the lr name names the attribute holding
# that very object, `load_state_dict(state_dict())` changes neither.

def wrap_model(multi, nets, is_list, list_id, lr_id, names, lr_name, container):
    """Coherence.wrapInit on ids: nets = [(id, [param ids])], container = [(name, id of value)] in attribute order.
    -> None (raises) | dict(names, lr_name, opts=[[group param ids] per optimizer])"""
    if names is None:
        ms = [n for n, v in container if v == lr_id]
        if not ms:
            return None
        if len(ms) == 1:
            lr_name = ms[0]
        else:
            lrish = [m for m in ms if "lr" in m.lower() or "learning_rate" in m.lower()]
            if not lrish:
                return None
            lr_name = lrish[0]
        if multi:
            names = [n for n, v in container if v == (list_id if is_list else 0)]
        else:
            ids = [i for i, _ in nets]
            names = [n for n, v in container if v in ids]
    elif lr_name is None:
        return None
    if not names:
        return None
    if multi:
        if not nets:
            return None
        opts = [[ps] for _, ps in nets]
    elif len(nets) > 1 and len(names) > 1:
        if len(nets) != len(names):
            return None
        opts = [[ps for _, ps in nets]]
    else:
        if not nets:
            return None
        opts = [[nets[0][1]]]
    return {"names": list(names), "lr_name": lr_name, "opts": opts}


def wrapper_view(w):
    """what the property talks about, of a live wrapper"""
    opts = w.optimizer if isinstance(w.optimizer, list) else [w.optimizer]
    return {"names": list(w.network_names), "lr_name": w.lr_name,
            "opts": [[[id(p) for p in g["params"]] for g in o.param_groups] for o in opts],
            "lrs": [[g["lr"] for g in o.param_groups] for o in opts], "is_list": isinstance(w.optimizer, list)}


def direct_case(spec: dict):
    """build one wrapper inside a holder's __init__ (the library reads the caller's `self` from the stack)"""
    import torch.nn as nn
    import torch.optim as optim
    from agilerl.algorithms.core.wrappers import OptimizerWrapper
    seed_all(spec["seed"])
    out = {}

    class Holder:
        def __init__(self):
            lr_objs = [float(v) for v in spec["lrs"]]            # distinct float objects, values may coincide
            mods = [nn.Linear(2, 1 + (k % 2), bias=bool(k % 3)) for k in range(spec["n"])]
            self.gamma = lr_objs[0] if spec.get("lr_shadow") else 0.99
            for k, v in enumerate(lr_objs):
                setattr(self, spec["lr_attrs"][k], v)
            if spec["shape"] == "one":
                self.net = mods[0]
                arg = self.net
                if spec.get("alias"):
                    self.net_alias = mods[0]
            else:
                if spec["multi"]:
                    self.nets = mods
                    arg = self.nets
                    if spec.get("alias"):
                        self.nets_alias = mods
                else:
                    for k, m in enumerate(mods):
                        setattr(self, f"net_{k}", m)
                    arg = list(mods)
            lr = lr_objs[spec["lr_pick"]]
            kw = {"optimizer_kwargs": {"eps": 1e-6}} if spec.get("kwargs") else {}
            if spec["given"] is not None:
                kw.update(network_names=list(spec["given"][0]), lr_name=spec["given"][1])
            out["mods"], out["arg_is_list"], out["lr"], out["arg"] = mods, isinstance(arg, list), lr, arg
            out["container"] = [(k, id(v)) for k, v in vars(self).items()]
            try:
                self.opt = OptimizerWrapper(optim.Adam, networks=arg, lr=lr, multiagent=spec["multi"], **kw)
                out["w"] = self.opt
            except (AssertionError, AttributeError, IndexError, TypeError, ValueError) as e:
                out["err"] = type(e).__name__
    Holder()
    return out


def check_direct(spec: dict, problems: list):
    r = direct_case(spec)
    mods = r["mods"] if (spec["shape"] != "one") else r["mods"][:1]
    nets = [(id(m), [id(p) for p in m.parameters()]) for m in mods]
    given = spec["given"]
    model = wrap_model(spec["multi"], nets, r["arg_is_list"], id(r["arg"]), id(r["lr"]),
                       None if given is None else given[0], None if given is None else given[1], r["container"])
    tag = json.dumps({k: v for k, v in spec.items() if k != "seed"}, separators=(",", ":"))
    if "err" in r or model is None:
        if ("err" in r) != (model is None):
            problems.append(f"wrapper {tag}: constructor {'raised ' + r['err'] if 'err' in r else 'succeeded'} but the model "
                            f"{'rejects' if model is None else 'accepts'} the call")
        return "reject"
    v = wrapper_view(r["w"])
    if v["names"] != model["names"] or v["lr_name"] != model["lr_name"] or v["opts"] != model["opts"]:
        problems.append(f"wrapper {tag}: implementation names={v['names']} lr_name={v['lr_name']} groups(sizes)="
                        f"{[[len(g) for g in o] for o in v['opts']]} but the model gives names={model['names']} "
                        f"lr_name={model['lr_name']} groups(sizes)={[[len(g) for g in o] for o in model['opts']]}")
    # ---- property oracle (the statement; the degenerate list-with-one-name call is outside it: C02_wrapper_drops_networks_witness)
    degenerate = (not spec["multi"]) and len(nets) > 1 and len(v["names"]) <= 1
    flat = [g for o in v["opts"] for g in o]
    if not degenerate and flat != [ps for _, ps in nets]:
        problems.append(f"wrapper {tag}: the param groups do not hold exactly the parameters of the networks passed, in order")
    if any(x != r["lr"] for o in v["lrs"] for x in o):
        problems.append(f"wrapper {tag}: a param group trains with lr {v['lrs']} instead of the lr passed {r['lr']}")
    if spec["multi"] != v["is_list"]:
        problems.append(f"wrapper {tag}: multiagent={spec['multi']} but optimizer is {'a list' if v['is_list'] else 'single'}")
    if given is None:
        holders = [n for n, i in r["container"] if i == id(r["lr"])]
        if len(holders) == 1 and v["lr_name"] != holders[0]:
            problems.append(f"wrapper {tag}: lr_name inferred as {v['lr_name']!r} but the object passed is held by {holders[0]!r} only")
    # ---- state_dict / load_state_dict
    w = r["w"]
    sd = w.state_dict()
    if isinstance(sd, list) != spec["multi"]:
        problems.append(f"wrapper {tag}: state_dict() is {'a list' if isinstance(sd, list) else 'a dict'}")
    import copy
    sd2 = copy.deepcopy(sd)
    for d in (sd2 if isinstance(sd2, list) else [sd2]):
        for g in d["param_groups"]:
            g["lr"] = 0.015625
    w.load_state_dict(sd2)
    v2 = wrapper_view(w)
    if v2["opts"] != v["opts"]:
        problems.append(f"wrapper {tag}: load_state_dict changed the parameter objects of the groups")
    if any(x != 0.015625 for o in v2["lrs"] for x in o):
        problems.append(f"wrapper {tag}: load_state_dict did not take the saved group lr")
    w.load_state_dict(sd)
    v3 = wrapper_view(w)
    if v3["opts"] != v["opts"] or v3["lrs"] != v["lrs"]:
        problems.append(f"wrapper {tag}: load_state_dict(state_dict()) is not the identity on groups / lrs")
    return "multi" if spec["multi"] else ("joint" if len(flat) > 1 else "single")


def direct_specs(rng: random.Random, quick: bool):
    specs = []
    for shape, multi in (("one", False), ("many", False), ("many", True), ("one", True)):
        for n in ((1,) if shape == "one" else (1, 2, 3)):
            for given in (None, "right", "no-lr", "empty", "short"):
                if shape == "one" and multi and given is None:
                    pass                        # a module with multiagent=True: no attribute holds the fresh list -> rejected
                names = (["net"] if shape == "one" else (["nets"] if multi else [f"net_{k}" for k in range(n)]))
                g = None
                if given == "right":
                    g = (names, "lr_b")
                elif given == "no-lr":
                    g = (names, None)
                elif given == "empty":
                    g = ([], "lr_b")
                elif given == "short":
                    if multi or n < 2:
                        continue
                    g = (names[:1], "lr_b")
                for lrs, attrs, pick, shadow in ((["0.001", "0.002"], ["lr_a", "lr_b"], 1, False),
                                                 (["0.001", "0.001"], ["lr_a", "lr_b"], 1, False),
                                                 (["0.001", "0.002"], ["alpha", "lr_b"], 1, True),
                                                 (["0.001"], ["step_size"], 0, False)):
                    if g is not None and g[1] is not None:
                        g = (g[0], attrs[pick])
                    specs.append({"shape": shape, "multi": multi, "n": n, "given": g, "lrs": lrs, "lr_attrs": attrs,
                                  "lr_pick": pick, "lr_shadow": shadow, "alias": False, "kwargs": False})
    for sp in list(specs):
        if sp["given"] is None and rng.random() < 0.5:
            specs.append(dict(sp, alias=True))
        if rng.random() < 0.25:
            specs.append(dict(sp, kwargs=True))
    if quick:
        rng.shuffle(specs)
        keep = [s for s in specs if s["given"] is None or s["given"][1] is not None and s["given"][0]][:70]
        specs = keep + [s for s in specs if s not in keep][:25]
    for k, sp in enumerate(specs):
        sp["seed"] = 1000 + k
    return specs


def check_agent_wrappers(agent, where: str, problems: list) -> int:
    """every registered optimizer of a live agent against the statement and the registry"""
    n = 0
    for oc in agent.registry.optimizers:
        w = getattr(agent, oc.name)
        if not hasattr(w, "network_names"):
            continue
        n += 1
        v = wrapper_view(w)
        if list(oc.networks) != v["names"] or oc.lr != v["lr_name"]:
            problems.append(f"{where}: {oc.name}: registry says networks={oc.networks} lr={oc.lr}, wrapper says "
                            f"{v['names']} / {v['lr_name']}")
        objs = [getattr(agent, nm) for nm in v["names"]]
        if w.multiagent:
            mods = [m for o in objs[:1] for m in (o if isinstance(o, list) else [o])]
            want = [[[id(p) for p in m.parameters()]] for m in mods]
        elif len(objs) > 1:
            want = [[[id(p) for p in m.parameters()] for m in objs]]
        else:
            want = [[[id(p) for p in objs[0].parameters()]]]
        if v["opts"] != want:
            problems.append(f"{where}: {oc.name} does not hold exactly the current parameters of {v['names']}, optimizer by "
                            f"optimizer and group by group (sizes {[[len(g) for g in o] for o in v['opts']]} vs "
                            f"{[[len(g) for g in o] for o in want]})")
        cur = getattr(agent, v["lr_name"])
        if any(x != cur for o in v["lrs"] for x in o):
            problems.append(f"{where}: {oc.name} trains with lr {v['lrs']} but {v['lr_name']}={cur}")
        holders = [k for k, val in vars(agent).items() if val is w.lr]
        if len(holders) == 1 and holders[0] != v["lr_name"]:
            problems.append(f"{where}: {oc.name}: lr_name={v['lr_name']!r} but the lr object is held by {holders[0]!r}")
        model = wrap_model(bool(w.multiagent),
                           [(id(m), [id(p) for p in m.parameters()]) for m in
                            ((objs[0] if isinstance(objs[0], list) else [objs[0]]) if (w.multiagent or len(objs) == 1) else objs)],
                           True, 0, 0, v["names"], v["lr_name"], [])
        if model is None or model["opts"] != v["opts"]:
            problems.append(f"{where}: {oc.name}: the model's wrapInit gives groups "
                            f"{None if model is None else [[len(g) for g in o] for o in model['opts']]}, the implementation "
                            f"{[[len(g) for g in o] for o in v['opts']]}")
    return n


def wrapper_agent_case(case: dict, problems: list) -> int:
    """constructor of a real / synthetic agent, then lr attributes replaced + `Mutations.reinit_opt`"""
    from agilerl.hpo.mutation import Mutations
    seed_all(case["seed"])
    agent = build_population(dict(case, size=1))[0]
    head = f"{case['algo']}{'/' + json.dumps(case['shape'], separators=(',', ':')) if case.get('shape') else ''}"
    n = check_agent_wrappers(agent, head + " after __init__", problems)
    m = Mutations(no_mutation=1, architecture=0, new_layer_prob=0.5, parameters=0, activation=0, rl_hp=0, mutation_sd=0.1,
                  rand_seed=case["seed"], device="cpu")
    before = {oc.name: wrapper_view(getattr(agent, oc.name)) for oc in agent.registry.optimizers
              if hasattr(getattr(agent, oc.name), "network_names")}
    for k, name in enumerate(sorted({oc.lr for oc in agent.registry.optimizers})):
        setattr(agent, name, float(2.0 ** -(9 + k)))
    m.reinit_opt(agent)
    n += check_agent_wrappers(agent, head + " after reinit_opt", problems)
    for oc in agent.registry.optimizers:
        if oc.name in before:
            v = wrapper_view(getattr(agent, oc.name))
            if v["names"] != before[oc.name]["names"] or v["lr_name"] != before[oc.name]["lr_name"] \
                    or v["is_list"] != before[oc.name]["is_list"]:
                problems.append(f"{head}: reinit_opt changed names / lr name / list-ness of {oc.name}")
    return n


def wrapper_suite(chk: Check) -> None:
    import agents as A
    quick = chk.tier != "thorough"
    cases = diffs = 0
    for spec in direct_specs(chk.rng, quick):
        problems: list = []
        kind = check_direct(spec, problems)
        cases += 1
        chk.case(["wrapper", {k: v for k, v in spec.items() if k != "seed"}], nontrivial=kind != "reject",
                 sample=None, tags=[f"wrapper-{kind}", "wrapper-names-" + ("inferred" if spec["given"] is None else "given")])
        if problems:
            diffs += 1
            chk.violation(problems[0], {"kind": "wrapper-direct", "spec": spec, "problems": problems[:6],
                                        "script": "c02.check_direct(spec, problems:=[])",
                                        "correspondence": "harness/c02.py wrap_model = Coherence.wrapInit", "theorems": chk.gate["theorems"]})
    algo_cases = [{"algo": a, "family": "vector", "share": None, "seed": 40 + k} for k, a in enumerate(A.ALGOS)
                  if baseline_ok(chk, a, "vector")]
    shapes = syn_shapes()
    if quick:
        shapes = chk.rng.sample(shapes, 8)
    algo_cases += [{"algo": SYN, "family": "vector", "share": None, "seed": 70 + k, "shape": sh} for k, sh in enumerate(shapes)]
    for case in algo_cases:
        problems = []
        try:
            n = wrapper_agent_case(case, problems)
        except InfraError:
            raise
        cases += 1
        chk.case(["wrapper-agent", case["algo"], case.get("shape")], nontrivial=n > 0, tags=[f"wrapper-agent-{case['algo']}"])
        if problems:
            diffs += 1
            chk.violation(problems[0], {"kind": "wrapper-agent", "case": case, "problems": problems[:6],
                                        "script": "c02.wrapper_agent_case(case, problems:=[])",
                                        "correspondence": "harness/c02.py wrap_model = Coherence.wrapInit", "theorems": chk.gate["theorems"]})
    chk.suite("optimizer-wrapper", cases, diffs)



# ------------------------------------------------------------------------------ registry validation
_REG: dict = {}
REG_ERRORS = {"noGroups": "No network groups", "notRegistered": "could not be found in the registry",
              "noPolicy": "registered as a policy", "hpMissing": "was found in the mutations configuration"}


def reg_class():
    """toy algorithm whose `__init__` is driven by a spec: networks net0.., groups, optimizers (explicit names, so that
    shapes the library does not validate can be registered), hyper-parameter names.  The object is stashed before the
    metaclass runs `_registry_init`, so the registry of a REJECTED constructor can be read as well."""
    if "cls" in _REG:
        return _REG["cls"]
    import torch.optim as optim
    from agilerl.algorithms.core import RLAlgorithm
    from agilerl.algorithms.core.registry import NetworkGroup
    from agilerl.algorithms.core.wrappers import OptimizerWrapper
    from agilerl.modules.mlp import EvolvableMLP

    class RegAlgo(RLAlgorithm):
        def __init__(self, observation_space, action_space, spec=None, hp_config=None):
            super().__init__(observation_space, action_space, index=0, hp_config=hp_config, device="cpu", name="RegAlgo")
            _REG["last"] = self
            self.lr = 0.001
            self.batch_size = 8
            for k in range(spec["n"]):
                setattr(self, f"net{k}", EvolvableMLP(4, 2, hidden_size=[8], device="cpu"))
            for name, nets, lr_name in spec["opts"]:
                setattr(self, name, OptimizerWrapper(optim.Adam, networks=[getattr(self, f"net{k}") for k in nets], lr=self.lr,
                                                     network_names=[f"net{k}" for k in nets], lr_name=lr_name))
            for ev, sh, pol in spec["groups"]:
                shared = None if sh is None else [getattr(self, f"net{k}") for k in sh]
                self.register_network_group(NetworkGroup(eval=getattr(self, f"net{ev}"), shared=shared, policy=pol))

        def get_action(self, *a, **k):
            return None

        def learn(self, *a, **k):
            return 0.0

        def test(self, *a, **k):
            return 0.0

    _REG["cls"] = RegAlgo
    return RegAlgo


def reg_build(spec: dict):
    """-> (verdict, message, registry-as-data read from the live object)"""
    from gymnasium import spaces
    from agilerl.algorithms.core.registry import HyperparameterConfig, RLParameter
    hp = HyperparameterConfig(**{h: RLParameter(min=1e-6, max=1e-1) for h in spec["hps"]})
    _REG.pop("last", None)
    verdict, msg = "accepted", ""
    try:
        with warnings.catch_warnings():
            warnings.simplefilter("ignore")
            reg_class()(spaces.Box(-1, 1, (4,), dtype=np.float32), spaces.Box(-1, 1, (2,), dtype=np.float32), spec=spec, hp_config=hp)
    except AttributeError as e:
        verdict, msg = "AttributeError", str(e)
    a = _REG.get("last")
    if a is None:
        raise InfraError("registry suite: the toy algorithm was not constructed")
    r = a.registry
    data = {"groups": [[g.eval, None if g.shared is None else list(g.shared if isinstance(g.shared, list) else [g.shared]),
                        bool(g.policy)] for g in r.groups],
            "opts": [[o.name, list(o.networks), o.lr] for o in r.optimizers],
            "evolvable": list(a.evolvable_attributes().keys()),
            "hps": list(r.hp_config.names()) if r.hp_config is not None else [],
            "attrs": [h for h in (list(r.hp_config.names()) if r.hp_config is not None else []) if hasattr(a, h)]}
    live = {"policy": r.policy, "all_registered": sorted(r.all_registered()), "optimizer_networks": dict(r.optimizer_networks)}
    return verdict, msg, data, live


def reg_model(d: dict):
    """Coherence.registryCheck / RegData.registered / RegData.policy on the data read from the live object"""
    registered = [g[0] for g in d["groups"]] + [s for g in d["groups"] for s in (g[1] or [])] + [o[0] for o in d["opts"]]
    pol = next((g[0] for g in d["groups"] if g[2]), None)
    if not d["groups"]:
        err = "noGroups"
    elif not all(a in registered for a in d["evolvable"]):
        err = "notRegistered"
    elif not any(g[2] for g in d["groups"]):
        err = "noPolicy"
    elif not all(h in d["attrs"] for h in d["hps"]):
        err = "hpMissing"
    else:
        err = None
    return err, registered, pol


def reg_specs(rng: random.Random, quick: bool) -> list:
    base = {"n": 3, "groups": [[0, [1], True], [2, None, False]], "opts": [["optimizer", [0], "lr"], ["opt_b", [2], "lr"]], "hps": ["lr"]}
    out = [dict(base, tag="well-formed"),
           dict(base, groups=[], tag="no-groups"),
           dict(base, groups=[[0, [1], True]], tag="net-unregistered"),
           dict(base, groups=[[0, [1], False], [2, None, False]], tag="no-policy"),
           dict(base, hps=["lr", "ghost"], tag="hp-missing"),
           dict(base, groups=[[0, [1], True], [2, None, True]], tag="two-policies"),
           dict(base, opts=[["optimizer", [1], "lr"], ["opt_b", [2], "lr"]], tag="opt-over-shared"),
           dict(base, groups=[[0, [1], True], [2, [1], False]], tag="shared-twice"),
           dict(base, groups=[[0, [1, 0], True], [2, None, False]], tag="eval-and-shared"),
           dict(base, opts=[["optimizer", [0], "no_such_lr"], ["opt_b", [2], "lr"]], tag="lr-missing"),
           dict(base, opts=[], tag="no-optimizers")]
    for _ in range(6 if quick else 40):
        n = rng.randint(1, 4)
        groups = []
        for k in rng.sample(range(n), rng.randint(0, n)):
            sh = rng.sample(range(n), rng.randint(0, 2)) if n > 1 and rng.random() < 0.5 else None
            groups.append([k, sh or None, rng.random() < 0.5])
        opts = [[f"opt_{j}", rng.sample(range(n), rng.randint(1, n)), rng.choice(["lr", "lr", "lr_x"])] for j in range(rng.randint(0, 2))]
        out.append({"n": n, "groups": groups, "opts": opts, "hps": rng.choice([[], ["lr"], ["lr", "batch_size"], ["ghost"]]), "tag": "random"})
    return out


def reg_line(d: dict) -> tuple:
    """the registry-as-data as a `coh regcheck` line of the Lean driver (names numbered in order of first appearance)"""
    ids: dict = {}

    def n(x):
        return str(ids.setdefault(x, len(ids)))
    gs = [f"{n(g[0])}:{'N' if g[1] is None else (','.join(n(x) for x in g[1]) or '-')}:{int(g[2])}" for g in d["groups"]]
    os_ = [f"{n(o[0])}:{','.join(n(x) for x in o[1]) or '-'}:{n(o[2])}" for o in d["opts"]]
    parts = [gs, os_, [n(x) for x in d["evolvable"]], [n(x) for x in d["hps"]], [n(x) for x in d["attrs"]]]
    return "coh regcheck " + " ; ".join(" ".join(p) for p in parts), {v: k for k, v in ids.items()}


def check_registry(spec: dict, problems: list, driver=None) -> str:
    verdict, msg, d, live = reg_build(spec)
    err, registered, pol = reg_model(d)
    if driver is None:
        import common
        driver = common.Driver()
    line, names = reg_line(d)
    ans = driver.run(["reset", line])[1]
    want = (f"{err or 'accepted'} policy={'None' if pol is None else [k for k, v in names.items() if v == pol][0]} "
            f"registered={','.join(str(k) for x in registered for k, v in names.items() if v == x)}")
    if ans != want:
        problems.append(f"Lean model Coherence.registryCheck answers {ans!r} to {line!r}, harness oracle {want!r}")
    if (err is None) != (verdict == "accepted"):
        problems.append(f"registry validation: the constructor answers {verdict!r} ({msg[:80]}) but Coherence.registryCheck answers {err} on {d}")
    elif err is not None and REG_ERRORS[err] not in msg:
        problems.append(f"registry validation: the model's first failing check is {err} but the constructor raised {msg[:100]!r}")
    if live["policy"] != pol:
        problems.append(f"registry.policy = {live['policy']!r}, model (first policy group) = {pol!r} on {d['groups']}")
    if live["all_registered"] != sorted(set(registered)):
        problems.append(f"registry.all_registered() = {live['all_registered']}, model = {sorted(set(registered))}")
    if live["optimizer_networks"] != {o[0]: o[1] for o in d["opts"]}:
        problems.append(f"registry.optimizer_networks = {live['optimizer_networks']}, registered = {d['opts']}")
    if [o[0] for o in d["opts"]] != [o[0] for o in spec["opts"]] or [o[1] for o in d["opts"]] != [[f"net{k}" for k in o[1]] for o in spec["opts"]]:
        problems.append(f"__setattr__ registered {d['opts']} for the assigned wrappers {spec['opts']}")
    if verdict == "accepted":
        # the property: what acceptance must give (C02_registry_accepted_sound)
        if pol is None or not any(g[0] == pol and g[2] for g in d["groups"]):
            problems.append(f"accepted registry without a policy evaluation network: {d['groups']}")
        missing = [a for a in d["evolvable"] if a not in live["all_registered"]]
        if missing:
            problems.append(f"accepted registry, evolvable attributes {missing} in no group and no optimizer: mutations would leave them behind")
    # the verdict does not depend on the order of registration (C02_registry_validation_order_invariant)
    if len(spec["groups"]) > 1 or len(spec["opts"]) > 1:
        v2 = reg_build(dict(spec, groups=spec["groups"][::-1], opts=spec["opts"][::-1]))[0]
        if v2 != verdict:
            problems.append(f"registry validation depends on the order of registration: {verdict!r} / reversed {v2!r}")
    return verdict if err is None else err


def registry_suite(chk: Check) -> None:
    cases = diffs = 0
    for spec in reg_specs(chk.rng, chk.tier != "thorough"):
        problems: list = []
        kind = check_registry(spec, problems, chk.driver)
        chk.corr["model_lines"] += 1
        cases += 1
        chk.case(["registry", spec], nontrivial=True, tags=[f"registry-{kind}", f"registry-spec-{spec['tag']}"])
        if problems:
            diffs += 1
            chk.violation(problems[0], {"kind": "registry", "spec": spec, "problems": problems[:6],
                                        "script": "c02.check_registry(spec, problems:=[])",
                                        "correspondence": "driver `coh regcheck` = Coherence.registryCheck / RegData.registered / RegData.policy = harness/c02.py reg_model",
                                        "theorems": chk.gate["theorems"]})
    chk.suite("registry-validation", cases, diffs)


def pre_gate(chk: Check) -> None:
    """Regenerate lean/Gen/MutWireGen.lean from the source text of agilerl/hpo/mutation.py of the tree under test (before
    the Lean gate) and re-check `generated wiring = model wiring` (Proofs/MutWireGenEq.lean) and the theorems over the
    generated wiring (Props/C02.lean, `C02_source_translation_*`)."""
    import common
    import py2lean_mutwire
    import py2lean_optwrap
    import py2lean_registry
    # Props.C02 imports ALL generated files: write them from the tree under test before any gate builds it
    for tr, rel in ((py2lean_mutwire, "Gen/MutWireGen.lean"), (py2lean_optwrap, "Gen/OptWrapGen.lean"),
                    (py2lean_registry, "Gen/RegistryGen.lean")):
        try:
            tr.write_if_changed(tr.translate(common.REPO)[0], common.LEAN_DIR / rel)
        except tr.Unsupported:
            pass                         # reported by the gate below
    common.translation_gate(chk, py2lean_mutwire, "Gen/MutWireGen.lean", ["Gen.MutWireGen", "Proofs.MutWireGenEq", "Props.C02"],
                            "the wiring of Mutations.mutation and the five mutation options: which registry groups are walked for "
                            "target re-creation, which optimizers are re-created and with which learning rate, what is loaded into a "
                            "re-created network, which method and arguments the other evaluation networks receive")
    common.translation_gate(chk, py2lean_optwrap, "Gen/OptWrapGen.lean", ["Gen.OptWrapGen", "Proofs.OptWrapGenEq", "Props.C02"],
                            "the constructor of OptimizerWrapper: one optimizer / one group per network / one optimizer per sub-agent, "
                            "which parameters and which lr every group gets, the inference of network_names and lr_name by identity, "
                            "state_dict / load_state_dict")
    common.translation_gate(chk, py2lean_registry, "Gen/RegistryGen.lean", ["Gen.RegistryGen", "Proofs.RegistryGenEq", "Props.C02"],
                            "the mutation registry and its validation: MutationRegistry.all_registered / policy / optimizer_networks / "
                            "register_* / __eq__, EvolvableAlgorithm._registry_init (which constructors raise) and the registration of "
                            "an assigned OptimizerWrapper by __setattr__ (agilerl/algorithms/core/registry.py + base.py)")


def run(chk: Check) -> None:
    chk.rule = ("multi-generation histories (tournament select -> Mutations.mutation(pop) -> learn; 1-3 generations "
                "quick, 6 thorough; probability vectors incl. the five unit vectors; pre_training_mut; mutate_elite) on "
                "populations of 2-3 real agents of all eleven algorithms (vector observations; image/dict/discrete/tuple "
                "for some; agents built from user-supplied networks whose heads differ in depth / node and layer bounds "
                "between policy and critics: DDPG, TD3, PPO, one multi-agent algorithm (thorough: all six), synthetic shapes); "
                "distinct = distinct (algo, family, share_encoders, seed, history); non-trivial = the history "
                "contains a mutation kind other than 'none' followed by a learn step")
    chk.assumptions = [
        "agents.py builds the algorithms as the library's users do (tiny networks); lr_actor / lr_critic are distinct "
        "float objects (known finding C06-lr-name-by-identity)",
        "`id()` of an nn.Parameter identifies the object an optimizer steps; a detached tensor is not a parameter",
        "the neural effect of a mutation is opaque to the model: it is told how many parameters each rebuilt network has "
        "and which architecture method the policy applied",
        "a learn round = policy_freq consecutive learn() calls (TD3-style delayed policy updates)"]
    chk.trusted_extra = ["registry descriptor (groups, optimizers, hook targets) is extracted from the live agent by c02.descriptor_line"]
    cases = case_list(chk)
    ndiff = 0
    for case in cases:
        res = run_history(chk, case)
        kinds = {t for t in res["tags"] if t.startswith("kind-") and t != "kind-none"}
        chk.case([case["algo"], case["family"], case.get("share"), case["seed"], case["ops"], case.get("hps"),
                  case.get("shape"), case.get("deep"), case.get("indices"), case.get("nets")],
                 nontrivial=bool(kinds) and "learn" in res["tags"],
                 sample={"algo": case["algo"], "family": case["family"], "share_encoders": case.get("share"),
                         "size": case["size"], "ops": case["ops"][:5]},
                 tags=res["tags"] + [f"algo-{case['algo']}", f"obs-{case['family']}"] + syn_tags(case))
        chk.corr["model_lines"] += len(res["lines"])
        if res["problems"] or res["diff"] is not None:
            ndiff += res["diff"] is not None
            report(chk, case, res)
    chk.suite("mutation-histories", len(cases), ndiff)
    wrapper_suite(chk)
    registry_suite(chk)
    if chk.tier == "thorough":
        selftest(chk)
        selftest_wrapper(chk)


# ------------------------------------------------------------------------------ self-test
def selftest(chk: Check) -> None:
    """seeded faults in `Mutations` that break the property must be noticed"""
    from agilerl.hpo.mutation import Mutations

    def must_fail(name: str, case: dict, expect: str) -> None:
        res = run_history(chk, case)
        if not res["problems"] and res["diff"] is None:
            raise InfraError(f"C02 self-test: seeded fault '{name}' was not noticed")
        if not any(expect in p for p in res["problems"]) or res["diff"] is None:
            raise InfraError(f"C02 self-test: seeded fault '{name}' was noticed for the wrong reason: "
                             f"{res['problems'][:2]} diff={res['diff']}")
        chk.notes.append(f"self-test: {name} detected ({'oracle: ' + res['problems'][0][:110] if res['problems'] else 'correspondence'})")

    base = {"family": "vector", "share": None, "seed": 5, "size": 2}
    arch_ops = [["mutate", UNIT["arch"], 0, 11, 1], ["learn", 0, 3], ["learn", 1, 4]]
    # 1. optimizers not rebuilt after an architecture mutation
    o_arch = Mutations.architecture_mutate

    def arch_without_reinit(self, individual):
        keep = self.reinit_opt
        self.reinit_opt = lambda *a, **k: None
        try:
            return o_arch(self, individual)
        finally:
            self.reinit_opt = keep
    Mutations.architecture_mutate = arch_without_reinit
    try:
        must_fail("reinit_opt skipped after an architecture mutation", dict(base, algo="DDPG", ops=arch_ops),
                  "does not hold the current parameters")
    finally:
        Mutations.architecture_mutate = o_arch
    # 2. shared networks not re-created
    o_mut = Mutations.mutation

    def mutation_keeping_targets(self, population, pre_training_mut=False):
        old = [{s: getattr(ag, s) for g in ag.registry.groups if g.shared
                for s in (g.shared if isinstance(g.shared, list) else [g.shared])} for ag in population]
        out = o_mut(self, population, pre_training_mut)
        for ag, d in zip(out, old):
            for s, v in d.items():
                setattr(ag, s, v)
        return out
    Mutations.mutation = mutation_keeping_targets
    try:
        must_fail("shared networks not re-created after an architecture mutation", dict(base, algo="TD3", ops=arch_ops),
                  "does not have the architecture of")
    finally:
        Mutations.mutation = o_mut
    # 3. `mut` label not set
    o_param = Mutations.parameter_mutation

    def param_without_label(self, individual):
        prev = getattr(individual, "mut", None)
        r = o_param(self, individual)
        r.mut = prev
        return r
    Mutations.parameter_mutation = param_without_label
    try:
        must_fail("mut label not set by parameter_mutation",
                  dict(base, algo="DQN", ops=[["mutate", UNIT["param"], 0, 11, 1]]), "but reports mut=")
    finally:
        Mutations.parameter_mutation = o_param
    # 4. only the first optimizer of a mutated learning rate rebuilt (the repaired defect D19)
    o_hp = Mutations.rl_hyperparam_mutation

    def first_only(self, individual):
        keep = self.reinit_opt
        done = []

        def once(ind, optimizer=None):
            if optimizer is not None and done:
                return
            done.append(1)
            keep(ind, optimizer=optimizer)
        self.reinit_opt = once
        try:
            return o_hp(self, individual)
        finally:
            self.reinit_opt = keep
    Mutations.rl_hyperparam_mutation = first_only
    try:
        must_fail("only the first optimizer of a mutated learning rate rebuilt",
                  dict(base, algo="TD3", hps=["lr_critic"], ops=[["mutate", UNIT["rl_hp"], 0, 11, 1]]), "trains with lr")
    finally:
        Mutations.rl_hyperparam_mutation = o_hp


    # 2b. registry shape no built-in has: target-less policy + critic with target; targets only
    #     re-created when the POLICY group has a shared network
    def mutation_policy_targets_only(self, population, pre_training_mut=False):
        old = [{s: getattr(ag, s) for g in ag.registry.groups if g.shared
                for s in (g.shared if isinstance(g.shared, list) else [g.shared])}
               if not any(g.policy and g.shared for g in ag.registry.groups) else {} for ag in population]
        out = o_mut(self, population, pre_training_mut)
        for ag, d in zip(out, old):
            for s, v in d.items():
                setattr(ag, s, v)
        return out
    Mutations.mutation = mutation_policy_targets_only
    try:
        must_fail("targets re-created only when the policy has one (synthetic SAC-like registry)",
                  dict(base, algo=SYN, shape={"pt": False, "extras": [True], "opt": "per-net", "lr": "separate", "multi": False},
                       ops=[["learn", 0, 3], ["learn", 1, 4], ["mutate", UNIT["none"], 0, 11, 1]]),
                  "does not hold the weights of")
    finally:
        Mutations.mutation = o_mut
    # 5. multi-agent: every critic gets the arguments sub-agent 0's actor drew
    o_apply = Mutations._apply_arch_mutation

    def first_args(self, networks, mut_method, applied_mut_dict=None):
        if isinstance(networks, list) and isinstance(applied_mut_dict, list) and applied_mut_dict:
            applied_mut_dict = [applied_mut_dict[0]] * len(networks)
        return o_apply(self, networks, mut_method, applied_mut_dict)
    Mutations._apply_arch_mutation = first_args
    try:
        must_fail("critics of every sub-agent receive sub-agent 0's mutation arguments",
                  dict(base, algo="MADDPG", ops=[["mutate", UNIT["arch"], 0, 11 + k, 1] for k in range(5)]),
                  "did not receive the same architecture change")
    finally:
        Mutations._apply_arch_mutation = o_apply


    # 6. user-supplied networks of different depth: the second critic is handed what the FIRST critic applied (its own
    #    fallback) instead of what the policy applied
    het = {"algo": "TD3", "family": "vector", "share": False, "seed": 11, "size": 2, "nets": [{"h": [16, 16], "ll": 1, "hl": 3, "ln": 8, "hn": 64}, {"h": [16], "ll": 1, "hl": 2, "ln": 8, "hn": 32}, {"h": [16, 16], "ll": 1, "hl": 3, "ln": 8, "hn": 64}],
           "ops": [["mutate", [0, 1, 0, 0, 0], 0, 0, 1, 0.9], ["mutate", [0, 1, 0, 0, 0], 0, 1, 1, 0.9], ["mutate", [0, 1, 0, 0, 0], 0, 2, 1, 0.9], ["mutate", [0, 1, 0, 0, 0], 0, 3, 1, 0.9], ["learn", 0, 5], ["learn", 1, 6]]}

    def chained(self, networks, mut_method, applied_mut_dict=None):
        if applied_mut_dict is not None and getattr(self, "_verif_last", None) is not None:
            mut_method = self._verif_last
        r = o_apply(self, networks, mut_method, applied_mut_dict)
        self._verif_last = r[0]
        return r
    Mutations._apply_arch_mutation = chained
    try:
        must_fail("the second critic is handed the first critic's fallback (user-supplied networks)", het,
                  "was not handed the policy's mutation")
    finally:
        Mutations._apply_arch_mutation = o_apply
    # 7. ... and the agent reports the method of another evaluation network instead of its policy's
    def arch_label_of_last(self, individual):
        r = o_arch(self, individual)
        first_other = [g.eval for g in r.registry.groups if not g.policy][0]
        r.mut = str(mods_of(r, first_other)[0].last_mutation_attr)
        return r
    Mutations.architecture_mutate = arch_label_of_last
    try:
        must_fail("agent.mut names a critic's method (user-supplied networks)", het, "but reports mut=")
    finally:
        Mutations.architecture_mutate = o_arch


def selftest_wrapper(chk: Check) -> None:
    """seeded faults in wrappers.py that break the property must be noticed by the optimizer-wrapper suite"""
    import agilerl.algorithms.core.wrappers as W
    spec = {"shape": "many", "multi": False, "n": 3, "given": None, "lrs": ["0.001", "0.002"], "lr_attrs": ["lr_a", "lr_b"],
            "lr_pick": 1, "lr_shadow": False, "alias": False, "kwargs": False, "seed": 5}
    o_multi, o_single = W.init_from_multiple, W.init_from_single
    W.init_from_multiple = lambda networks, cls, lr, kw: o_multi(networks[:-1], cls, lr, kw)
    try:
        problems: list = []
        check_direct(spec, problems)
        if not any("do not hold exactly" in p for p in problems):
            raise InfraError("C02 self-test: 'last network dropped by init_from_multiple' was not noticed")
    finally:
        W.init_from_multiple = o_multi
    W.init_from_single = lambda network, cls, lr, kw: o_single(network, cls, lr * 2, kw)
    try:
        problems = []
        check_direct(dict(spec, shape="one", n=1), problems)
        if not any("instead of the lr passed" in p for p in problems):
            raise InfraError("C02 self-test: 'init_from_single doubles the lr' was not noticed")
    finally:
        W.init_from_single = o_single
    chk.notes.append("self-test: optimizer-wrapper suite detects a dropped network and a changed lr")


def replay(chk: Check, path: str) -> int:
    c = json.loads(open(path).read())
    c = c.get("replay", c)
    if c.get("kind") in ("wrapper-direct", "wrapper-agent"):
        problems: list = []
        if c["kind"] == "wrapper-direct":
            check_direct(c["spec"], problems)
        else:
            wrapper_agent_case(c["case"], problems)
        print(json.dumps({"kind": c["kind"], "input": c.get("spec") or c.get("case"), "oracle_problems": problems}, indent=1, default=str))
        if problems:
            print(f"VIOLATION property=C02 replay={path}")
            return 1
        return 0
    case = {k: c[k] for k in ("algo", "family", "share", "seed", "size", "ops", "hps", "shape", "deep", "indices", "nets") if k in c}
    case.setdefault("share", None)
    res = run_history(chk, case)
    d = res["diff"]
    print(json.dumps({"case": case, "oracle_problems": res["problems"], "diff_at": d,
                      "model_op": res["lines"][d] if d is not None else None,
                      "impl": res["impl"][d] if d is not None else None,
                      "model": res["model"][d] if d is not None else None}, indent=1, default=str))
    if res["problems"]:
        print(f"VIOLATION property=C02 replay={path}")
        return 1
    if d is not None:
        print(f"VIOLATION property=C02 replay={path} no-failing-input-found")
        return 1
    return 0
