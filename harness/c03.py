"""
C03 — architecture mutations keep every network valid, bounded and rebuildable.

Correspondence: the real evolvable modules (EvolvableMLP, EvolvableCNN 2d/3d, EvolvableLSTM,
EvolvableSimBa, EvolvableResNet, EvolvableMultiInput) and networks (QNetwork, RainbowQNetwork,
ContinuousQNetwork, ValueNetwork, DeterministicActor, StochasticActor; vector / image / sequence /
dict / tuple observations; MLP, CNN, LSTM, SimBa, ResNet and multi-input encoders) against
`Model/Arch.lean`.  The model object is *defined from the live object* (its attributes at the start
of a case) and then evolves on its own; after every step we compare `last_mutation_attr`, the
constructor description (the fields of `init_dict` that describe the architecture and its bounds),
`{name: shape}` of `state_dict()` and the advertised method names.

Methods are invoked the way `Mutations.architecture_mutate` does it: on a fresh `clone()`, through
`getattr(net, name)(**kwargs)`, the name taken from the offspring (`sample_mutation_method` in the
walks); a twin network receives the applied method with the returned kwargs (what the critics get).
Chains without a clone between steps are walked too (the property speaks of any chain of clone and
mutate steps).  The numpy draws made inside a method (`np.random.randint` / `np.random.choice`) are
served and recorded by a seeded stand-in and handed to the model, which answers `reject` if a draw
lies outside the range it expects.

Oracle (independent of Lean) after every step: forward pass finite and of the declared shape for
batch sizes 1..3; `type(m)(**m.init_dict)` rebuilds and loads `m.state_dict()` strictly; `clone()`
works and carries the same tensors; declared bounds hold for every component that started inside
them; the method named by `last_mutation_attr` is the called one or its documented fallback and the
architecture changed accordingly (unchanged only when the bound would be reached or crossed).

Explicit arguments (suite `explicit-args`, `explicit_check`): "changes the architecture in the advertised way" for "all
argument choices" includes that an explicit `hidden_layer` / size / kernel is honoured.  Judged on the component's own
`init_dict` before / after: the only layer whose width / kernel changed is the one requested (clamped to the last), by the
explicit size; every method x every layer index (and one beyond) on components with several layers of distinct widths
(bare blocks, encoders and heads of every network kind, nested blocks of dict / tuple observations, Conv3d) and on the
default-bound subjects.

Probes (`probe_policy`) check the call sites of the defects analysed in the design / build round
one by one and report them through `chk.finding`; the suites do not report those again.

Source translation (`pre_gate`, before the Lean gate): `py2lean_arch.py` translates the source text of the
`@mutation` methods of EvolvableMLP, EvolvableCNN (+ MutableKernelSizes), EvolvableLSTM, EvolvableSimBa,
EvolvableResNet and EvolvableNetwork (latent width) of the tree under test into `lean/Gen/ArchGen.lean`;
`Proofs/ArchGenEq.lean` proves the generated methods equal to the model (`MLP.step`, `CNN.step`, … with the
draw ranges of `Basic.drawsOK`) and `Props/C03.lean` restates the bounds / fallback / returned-dict theorems
over the generated definitions (`C03_source_translation_*`).  If the translator rejects the source or those
proofs stop checking, that is a gate problem naming the broken declaration; the suites below then supply
the failing input if there is one (else the VIOLATION line ends with no-failing-input-found).
`py2lean_kernel.py` does the same for `calc_max_kernel_sizes` (agilerl/utils/evolvable_networks.py) and
`MutableKernelSizes._later_layers_fit` (agilerl/modules/cnn.py) -> `lean/Gen/KernelGen.lean`, proved equal to the
model's `CNN.maxKernels` / `CNN.laterFit` in `Proofs/KernelGenEq.lean` (which discharges the two function
parameters of the translated CNN methods).

Kernel arithmetic (round 5): suite `calc-max-kernel` calls the real `calc_max_kernel_sizes` and the real
`_later_layers_fit` on random (input shape, kernels, strides) — non-square inputs, strides up to 7, kernels larger
than their input, sizes up to 4096 — and compares with the model (`arch maps`, `arch fit`) and with an exact
integer oracle of the statement (every bound in 1..9 and at most a quarter of the layer's own output map;
`_later_layers_fit` = every kernel fits).  Suite `kernel-limit` drives real EvolvableCNNs on 4x4..16x16 images
(strides 1..3, kernels up to the full map) through chains of change_kernel (explicit and drawn, every layer) /
add_layer / remove_layer near the spatial limit, each step on a clone, with the forward pass, the rebuild and the
model as oracle.  Probe `C03-cnn-change-kernel-downstream`: the two replays of the defect found in round 5
(change_kernel inside its own draw range shrank the input of a later layer under its kernel).
"""
from __future__ import annotations

import copy
import json
import random
import re
import warnings

import numpy as np
import torch

import common
import py2lean_arch
import py2lean_kernel
import py2lean_multiinput
from common import REPO, ROOT, Check, InfraError, ddmin

warnings.filterwarnings("ignore")
torch.set_num_threads(1)      # tiny networks: threads only add contention

FIND_HEAD = "C03-stochastic-head-mutations-dead"
FIND_KERNEL = "C03-cnn-explicit-kernel-unchecked"
FIND_LSTM_DENSE = "C03-lstm-get-output-dense-key"
FIND_RESNET = "C03-resnet-channel-int"
FIND_KERNEL3D = "C03-cnn-change-kernel-tuple-kwargs"
FIND_STALE = "C03-nested-methods-stale-after-recreate"
FIND_LAYER = "C03-encoder-layer-mutations-reenabled"
FIND_CK_DEAD = "C03-encoder-change-kernel-dead"
FIND_DUELING = "C03-dueling-head-init-dict"
FIND_DOWNSTREAM = "C03-cnn-change-kernel-downstream"

NODE_CHOICES = {"mlp": [16, 32, 64], "lstm": [16, 32, 64], "simba": [16, 32, 64],
                "cnn": [8, 16, 32], "resnet": [8, 16, 32], "latent": [8, 16, 32]}
FALLBACKS = {
    "mlp": {"add_layer": ["add_node"], "remove_layer": ["add_node"]},
    "lstm": {"add_layer": ["add_node"], "remove_layer": ["add_node"]},
    "simba": {"add_block": ["add_node"], "remove_block": ["add_node"]},
    "resnet": {"add_block": ["add_channel"], "remove_block": ["add_channel"]},
    "cnn": {"add_layer": ["add_channel"], "remove_layer": ["add_channel"],
            "change_kernel": ["add_layer", "add_channel"]},
}


# ----------------------------------------------------------------------------- whose exception is it?
_HARNESS_DIR = str(ROOT / "harness")


def impl_fault(e: BaseException):
    """An exception raised by the IMPLEMENTATION on a legal call (constructor, mutation method,
    re-creation, forward pass, clone, rebuild, load_state_dict, attribute of the module) is a finding
    about the implementation, never an infrastructure error.  Returns its text if a frame of the
    traceback lies inside the tree under test or the exception was raised outside the harness' own
    code (torch / numpy on behalf of the module); None if the harness itself is at fault."""
    if isinstance(e, InfraError):
        return None
    files = []
    tb = e.__traceback__
    while tb is not None:
        files.append(tb.tb_frame.f_code.co_filename)
        tb = tb.tb_next
    if any(f.startswith(str(REPO)) for f in files) or (files and not files[-1].startswith(_HARNESS_DIR)):
        return f"{type(e).__name__}: {str(e)[:200]}"
    return None


def fault_text(e: BaseException) -> str:
    """text of an implementation fault; a fault of the harness itself is re-raised as InfraError"""
    msg = impl_fault(e)
    if msg is None:
        if isinstance(e, InfraError):
            raise e
        raise InfraError(f"harness bug: {type(e).__name__}: {e}") from e
    return msg


# ----------------------------------------------------------------------------- numpy draws
class Draws:
    """stand-in for np.random.randint / np.random.choice inside mutation methods: seeded, biased to
    the ends of the range, every draw recorded"""

    def __init__(self, seed: int, mode: str = "rand"):
        self.rng = random.Random(seed)
        self.mode = mode
        self.log: list = []

    def _pick(self, n: int) -> int:
        if self.mode == "lo":
            return 0
        if self.mode == "hi":
            return n - 1
        r = self.rng.random()
        if r < 0.25:
            return 0
        if r < 0.5:
            return n - 1
        return self.rng.randrange(n)

    def randint(self, low, high=None, size=None, dtype=int):
        if high is None:
            low, high = 0, low
        low, high = int(low), int(high)
        if high <= low:
            raise ValueError("low >= high")
        v = low + self._pick(high - low)
        self.log.append(("randint", low, high, size is not None, v))
        return v if size is None else np.array([v], dtype=np.int64)

    def choice(self, a, size=None, replace=True, p=None):
        a = list(a)
        v = a[self._pick(len(a))]
        self.log.append(("choice", [int(x) for x in a], int(v)))
        return np.int64(v) if size is None else np.array([v], dtype=np.int64)


class patched_numpy:
    def __init__(self, draws: Draws):
        self.d = draws

    def __enter__(self):
        self.o = (np.random.randint, np.random.choice)
        np.random.randint, np.random.choice = self.d.randint, self.d.choice

    def __exit__(self, *a):
        np.random.randint, np.random.choice = self.o


# ----------------------------------------------------------------------------- subjects
def _spaces():
    from gymnasium import spaces
    return spaces


def small_mlp_cfg(hidden, lo_l=1, hi_l=3, lo_n=2, hi_n=4, **kw):
    d = dict(hidden_size=list(hidden), min_hidden_layers=lo_l, max_hidden_layers=hi_l,
             min_mlp_nodes=lo_n, max_mlp_nodes=hi_n)
    d.update(kw)
    return d


def small_cnn_cfg(ch=(2,), k=(3,), s=(1,), lo_l=1, hi_l=3, lo_c=2, hi_c=6, **kw):
    d = dict(channel_size=list(ch), kernel_size=list(k), stride_size=list(s), min_hidden_layers=lo_l,
             max_hidden_layers=hi_l, min_channel_size=lo_c, max_channel_size=hi_c)
    d.update(kw)
    return d


def obs_space(name: str):
    sp = _spaces()
    f = np.float32
    if name == "vec":
        return sp.Box(-1, 1, (3,), dtype=f)
    if name == "img":
        return sp.Box(0, 1, (2, 16, 16), dtype=f)
    if name == "img20":
        return sp.Box(0, 1, (2, 20, 20), dtype=f)
    if name == "imgtall":
        return sp.Box(0, 1, (3, 40, 8), dtype=f)
    if name == "imgwide":
        return sp.Box(0, 1, (3, 8, 40), dtype=f)
    if name == "seq":
        return sp.Box(-1, 1, (4, 3), dtype=f)
    if name == "dict":
        return sp.Dict({"v": sp.Box(-1, 1, (3,), dtype=f), "i": sp.Box(0, 1, (2, 16, 16), dtype=f),
                        "d": sp.Discrete(3)})
    if name == "tuple":
        return sp.Tuple((sp.Box(-1, 1, (2,), dtype=f), sp.Box(0, 1, (2, 16, 16), dtype=f)))
    if name == "dictseq":
        return sp.Dict({"v": sp.Box(-1, 1, (3,), dtype=f), "s": sp.Box(-1, 1, (4, 3), dtype=f)})
    raise ValueError(name)


def act_space(name: str):
    sp = _spaces()
    return {"disc": sp.Discrete(3), "box": sp.Box(-1, 1, (2,), dtype=np.float32),
            "mdisc": sp.MultiDiscrete([2, 3])}[name]


def multi_cfg(small: bool, **kw):
    if not small:
        return dict(kw)
    d = dict(latent_dim=4, min_latent_dim=2, max_latent_dim=8,
             cnn_config=small_cnn_cfg(layer_norm=False), mlp_config=small_mlp_cfg([3]),
             lstm_config=dict(hidden_size=3, num_layers=1, min_hidden_size=2, max_hidden_size=5,
                              min_layers=1, max_layers=2))
    d.update(kw)
    return d


def build(spec: dict):
    """the real module / network described by `spec` (a JSON-able dict)"""
    from agilerl.modules import (EvolvableCNN, EvolvableLSTM, EvolvableMLP, EvolvableMultiInput,
                                 EvolvableResNet, EvolvableSimBa)
    kind = spec["kind"]
    cfg = copy.deepcopy(spec.get("cfg", {}))
    torch.manual_seed(spec.get("seed", 0))
    if kind == "mlp":
        return EvolvableMLP(**cfg)
    if kind == "cnn":
        return EvolvableCNN(**cfg)
    if kind == "cnn3d":
        shape = cfg["input_shape"]
        return EvolvableCNN(block_type="Conv3d",
                            sample_input=torch.zeros(1, shape[0], spec["depth"], shape[1], shape[2]), **cfg)
    if kind == "lstm":
        return EvolvableLSTM(**cfg)
    if kind == "simba":
        return EvolvableSimBa(**cfg)
    if kind == "resnet":
        return EvolvableResNet(**cfg)
    if kind == "multi":
        return EvolvableMultiInput(observation_space=obs_space(spec["obs"]), **cfg)
    if kind == "net":
        from agilerl.networks.actors import DeterministicActor, StochasticActor
        from agilerl.networks.q_networks import ContinuousQNetwork, QNetwork, RainbowQNetwork
        from agilerl.networks.value_networks import ValueNetwork
        cls = {"QNetwork": QNetwork, "RainbowQNetwork": RainbowQNetwork, "ContinuousQNetwork": ContinuousQNetwork,
               "ValueNetwork": ValueNetwork, "DeterministicActor": DeterministicActor,
               "StochasticActor": StochasticActor}[spec["cls"]]
        kw = dict(cfg)
        if spec.get("sample_depth"):       # multi-agent image observations: Conv3d over the stacked agents
            shape = obs_space(spec["obs"]).shape
            kw["encoder_config"] = dict(kw["encoder_config"],
                                        sample_input=torch.zeros(1, shape[0], spec["sample_depth"], shape[1], shape[2]))
        if spec["cls"] != "ValueNetwork":
            kw["action_space"] = act_space(spec["act"])
        if spec["cls"] == "RainbowQNetwork":
            kw["support"] = torch.linspace(-1, 1, 5)
            kw["num_atoms"] = 5
        return cls(obs_space(spec["obs"]), **kw)
    raise ValueError(kind)


def sample_obs(space, b: int, depth=None):
    sp = _spaces()
    if isinstance(space, sp.Dict):
        return {k: sample_obs(s, b) for k, s in space.spaces.items()}
    if isinstance(space, sp.Tuple):
        return tuple(sample_obs(s, b) for s in space.spaces)
    if isinstance(space, sp.Discrete):     # networks receive preprocessed (one-hot) observations
        return torch.nn.functional.one_hot(torch.randint(0, int(space.n), (b,)), int(space.n)).float()
    if isinstance(space, sp.MultiDiscrete):
        return torch.cat([torch.nn.functional.one_hot(torch.randint(0, int(n), (b,)), int(n)).float()
                          for n in space.nvec], dim=1)
    return torch.rand(b, *space.shape) * 2 - 1


def forward_check(spec: dict, m, batches=(1, 2, 3)) -> list[str]:
    """module(x) finite and of the declared shape"""
    problems = []
    kind = spec["kind"]
    m.eval() if hasattr(m, "eval") else None
    for b in batches:
        torch.manual_seed(1000 + b)
        try:
            with torch.no_grad():
                if kind == "mlp":
                    out, want = m(torch.randn(b, m.num_inputs)), (b, m.num_outputs)
                elif kind == "simba":
                    out, want = m(torch.randn(b, m.num_inputs)), (b, m.num_outputs)
                elif kind in ("cnn", "resnet"):
                    out, want = m(torch.rand(b, *m.input_shape)), (b, m.num_outputs)
                elif kind == "cnn3d":
                    c, h, w = m.input_shape
                    out, want = m(torch.rand(b, c, spec["depth"], h, w)), (b, m.num_outputs)
                elif kind == "lstm":
                    out, want = m(torch.randn(b, 4, m.input_size)), (b, m.num_outputs)
                elif kind == "multi":
                    out, want = m(sample_obs(obs_space(spec["obs"]), b)), (b, m.num_outputs)
                else:
                    sp = _spaces()
                    obs = sample_obs(obs_space(spec["obs"]), b)
                    if spec.get("sample_depth"):
                        c_, h_, w_ = obs_space(spec["obs"]).shape
                        obs = torch.rand(b, c_, spec["sample_depth"], h_, w_)
                    cls = spec["cls"]
                    if cls == "ContinuousQNetwork":
                        out, want = m(obs, torch.rand(b, 2)), (b, 1)
                    elif cls == "ValueNetwork":
                        out, want = m(obs), (b, 1)
                    elif cls == "StochasticActor":
                        act, logp, _ent = m(obs)
                        a = act_space(spec["act"])
                        want = (b,) if isinstance(a, sp.Discrete) else (b, *a.shape)
                        out = act
                        if not torch.isfinite(logp).all() or tuple(logp.shape) != (b,):
                            problems.append(f"log_prob shape {tuple(logp.shape)} / non-finite for batch {b}")
                    else:
                        out = m(obs)
                        a = act_space(spec["act"])
                        want = (b, int(sp.flatdim(a)))
            if tuple(out.shape) != tuple(want):
                problems.append(f"forward: output shape {tuple(out.shape)} != declared {tuple(want)} (batch {b})")
            elif not torch.isfinite(out.float()).all():
                problems.append(f"forward: non-finite output (batch {b})")
        except Exception as e:
            problems.append(f"forward raised {fault_text(e)} (batch {b})")
            break
    return problems


# ----------------------------------------------------------------------------- describing the live object
def block_kind(mod) -> str:
    from agilerl.modules import (EvolvableCNN, EvolvableLSTM, EvolvableMLP, EvolvableMultiInput,
                                 EvolvableResNet, EvolvableSimBa)
    for cls, k in ((EvolvableMultiInput, "multi"), (EvolvableCNN, "cnn"), (EvolvableLSTM, "lstm"),
                   (EvolvableSimBa, "simba"), (EvolvableResNet, "resnet"), (EvolvableMLP, "mlp")):
        if isinstance(mod, cls):
            return k
    raise InfraError(f"unknown block {type(mod).__name__}")


def b01(x) -> str:
    return "1" if x else "0"


def lst(xs) -> str:
    return "[" + ",".join(str(int(x)) for x in xs) + "]"


def block_fields(mod) -> tuple[str, list[tuple[str, str]], list[str]]:
    """(kind, [(key, text)] in the order of `toInitDict`, driver tokens of the `def` line)"""
    k = block_kind(mod)
    i = int
    if k == "mlp":
        adv = i(mod.num_actions * mod.num_atoms) if hasattr(mod, "advantage_net") else 0
        f = [("name", mod.name), ("num_inputs", i(mod.num_inputs)), ("num_outputs", i(mod.num_outputs)),
             ("hidden_size", lst(mod.hidden_size)), ("min_hidden_layers", i(mod.min_hidden_layers)),
             ("max_hidden_layers", i(mod.max_hidden_layers)), ("min_mlp_nodes", i(mod.min_mlp_nodes)),
             ("max_mlp_nodes", i(mod.max_mlp_nodes)), ("layer_norm", b01(mod.layer_norm)),
             ("output_layernorm", b01(mod.output_layernorm)), ("noisy", b01(mod.noisy)), ("adv_outputs", adv)]
        toks = ["mlp", mod.name, i(mod.num_inputs), i(mod.num_outputs), i(mod.min_hidden_layers),
                i(mod.max_hidden_layers), i(mod.min_mlp_nodes), i(mod.max_mlp_nodes), b01(mod.layer_norm),
                b01(mod.output_layernorm), b01(mod.noisy), adv] + [i(h) for h in mod.hidden_size]
    elif k == "cnn":
        c, h, w = [i(x) for x in mod.input_shape[-3:]]
        depth = "_" if mod.block_type == "Conv2d" else str(i(mod.sample_input.size(2)))
        f = [("name", mod.name), ("in_channels", c), ("in_height", h), ("in_width", w), ("depth", depth),
             ("num_outputs", i(mod.num_outputs)), ("channel_size", lst(mod.channel_size)),
             ("kernel_size", lst(mod.kernel_size)), ("stride_size", lst(mod.stride_size)),
             ("min_hidden_layers", i(mod.min_hidden_layers)), ("max_hidden_layers", i(mod.max_hidden_layers)),
             ("min_channel_size", i(mod.min_channel_size)), ("max_channel_size", i(mod.max_channel_size)),
             ("layer_norm", b01(mod.layer_norm))]
        toks = ["cnn", mod.name, c, h, w, depth, i(mod.num_outputs), i(mod.min_hidden_layers),
                i(mod.max_hidden_layers), i(mod.min_channel_size), i(mod.max_channel_size), b01(mod.layer_norm),
                len(mod.channel_size)] + [i(x) for x in mod.channel_size] + [i(x) for x in mod.kernel_size] + \
               [i(x) for x in mod.stride_size]
    elif k == "lstm":
        f = [("name", mod.name), ("input_size", i(mod.input_size)), ("hidden_size", i(mod.hidden_size)),
             ("num_outputs", i(mod.num_outputs)), ("num_layers", i(mod.num_layers)),
             ("min_hidden_size", i(mod.min_hidden_size)), ("max_hidden_size", i(mod.max_hidden_size)),
             ("min_layers", i(mod.min_layers)), ("max_layers", i(mod.max_layers))]
        toks = ["lstm"] + [v for _, v in f]
    elif k == "simba":
        f = [("name", mod.name), ("num_inputs", i(mod.num_inputs)), ("num_outputs", i(mod.num_outputs)),
             ("hidden_size", i(mod.hidden_size)), ("num_blocks", i(mod.num_blocks)),
             ("scale_factor", i(mod.scale_factor)), ("min_blocks", i(mod.min_blocks)),
             ("max_blocks", i(mod.max_blocks)), ("min_mlp_nodes", i(mod.min_mlp_nodes)),
             ("max_mlp_nodes", i(mod.max_mlp_nodes))]
        toks = ["simba"] + [v for _, v in f]
    elif k == "resnet":
        c, h, w = [i(x) for x in mod.input_shape[-3:]]
        f = [("name", mod.name), ("in_channels", c), ("in_height", h), ("in_width", w),
             ("num_outputs", i(mod.num_outputs)), ("channel_size", i(mod.channel_size)),
             ("kernel_size", i(mod.kernel_size)), ("stride_size", i(mod.stride_size)),
             ("num_blocks", i(mod.num_blocks)), ("scale_factor", i(mod.scale_factor)),
             ("min_blocks", i(mod.min_blocks)), ("max_blocks", i(mod.max_blocks)),
             ("min_channel_size", i(mod.min_channel_size)), ("max_channel_size", i(mod.max_channel_size))]
        toks = ["resnet"] + [v for _, v in f]
    else:
        raise InfraError(k)
    return k, [(a, str(b)) for a, b in f], [str(t) for t in toks]


def basic_summary(mod) -> str:
    k, f, _ = block_fields(mod)
    return k + "{" + ";".join(f"{a}={b}" for a, b in f) + "}"


def latent_text(mod) -> str:
    return (f"latent_dim={int(mod.latent_dim)};min_latent_dim={int(mod.min_latent_dim)};"
            f"max_latent_dim={int(mod.max_latent_dim)}")


def multi_subs(mi) -> list:
    return list(mi.feature_net.modules().items())


def multi_vec_dims(mi) -> int:
    return int(mi.total_vector_dims * (1 - int(bool(mi.vector_space_mlp))))


def enc_summary(mod) -> str:
    if block_kind(mod) == "multi":
        return (f"multi{{name={mod.name};{latent_text(mod)};num_outputs={int(mod.num_outputs)};"
                f"vec_dims={multi_vec_dims(mod)}}}" + "".join(f"|{k}:{basic_summary(s)}" for k, s in multi_subs(mod)))
    return basic_summary(mod)


def head_of(net):
    h = net.head_net
    return h.wrapped if hasattr(h, "wrapped") else h


def summary(spec: dict, m) -> str:
    if spec["kind"] == "net":
        h = head_of(m)
        extra = int(h.num_inputs) - int(m.latent_dim)
        return f"net{{{latent_text(m)};head_extra={extra}}}|encoder:{enc_summary(m.encoder)}|head:{basic_summary(h)}"
    return enc_summary(m)


def shapes(m) -> str:
    return " ".join(sorted(f"{k}:{'x'.join(str(int(d)) for d in v.shape)}" for k, v in m.state_dict().items()))


def define_lines(spec: dict, m, policy: dict) -> list[str]:
    """driver lines that make the model's current object equal to the live object `m`"""
    # the forwarding switch concerns heads inside an EvolvableWrapper only (StochasticActor)
    fwd = policy["forward_head"] or not (spec["kind"] == "net" and hasattr(m.head_net, "wrapped"))
    lines = [f"arch policy {b01(fwd)} {b01(policy['clamp_kernel'])} {b01(policy.get('fit_later', True))}"]

    def define_enc(mod, reg):
        if block_kind(mod) == "multi":
            regs = []
            for j, (key, sub) in enumerate(multi_subs(mod)):
                if sub.name != key:
                    raise InfraError(f"feature extractor {key!r} is named {sub.name!r}")
                lines.append(f"arch def {reg}_s{j} " + " ".join(block_fields(sub)[2]))
                regs.append(f"{reg}_s{j}")
            lines.append(f"arch multi {reg} {mod.name} {int(mod.latent_dim)} {int(mod.min_latent_dim)} "
                         f"{int(mod.max_latent_dim)} {int(mod.num_outputs)} {multi_vec_dims(mod)} " + " ".join(regs))
        else:
            lines.append(f"arch def {reg} " + " ".join(block_fields(mod)[2]))

    if spec["kind"] == "net":
        define_enc(m.encoder, "enc")
        h = head_of(m)
        lines.append("arch def head " + " ".join(block_fields(h)[2]))
        wrapped = hasattr(m.head_net, "wrapped")
        prefix = "head_net._wrapped." if wrapped else "head_net."
        known = set()
        extra = []
        for k, v in m.state_dict().items():
            if not k.startswith("encoder.") and not k.startswith(prefix):
                extra.append(f"{k}:{'x'.join(str(int(d)) for d in v.shape)}")
        lines.append(f"arch net enc head {int(m.latent_dim)} {int(m.min_latent_dim)} {int(m.max_latent_dim)} "
                     f"{int(h.num_inputs) - int(m.latent_dim)} 0 {prefix} " + " ".join(extra))
    else:
        define_enc(m, "top")
        lines.append("arch use top")
    return lines


# ----------------------------------------------------------------------------- one mutation step
def resolve(m, dotted: str):
    """(module owning the method, leaf name, kind) for a dotted advertised name"""
    parts = dotted.split(".")
    obj = m
    for p in parts[:-1]:
        obj = obj[p] if hasattr(obj, "keys") and p in obj.keys() else getattr(obj, p)
    if hasattr(obj, "wrapped"):
        obj = obj.wrapped
    leaf = parts[-1]
    if leaf in ("add_latent_node", "remove_latent_node"):
        return obj, leaf, "latent"
    return obj, leaf, block_kind(obj)


def arch_state(owner, kind: str) -> dict:
    if kind == "latent":
        return {"latent": int(owner.latent_dim)}
    if kind == "mlp":
        return {"layers": len(owner.hidden_size), "nodes": [int(x) for x in owner.hidden_size]}
    if kind == "cnn":
        return {"layers": len(owner.channel_size), "nodes": [int(x) for x in owner.channel_size],
                "kernels": [int(x) for x in owner.kernel_size], "strides": [int(x) for x in owner.stride_size]}
    if kind == "lstm":
        return {"layers": int(owner.num_layers), "nodes": [int(owner.hidden_size)]}
    if kind == "simba":
        return {"layers": int(owner.num_blocks), "nodes": [int(owner.hidden_size)]}
    if kind == "resnet":
        return {"layers": int(owner.num_blocks), "nodes": [int(owner.channel_size)]}
    raise InfraError(kind)


def bounds_of(owner, kind: str):
    """(min layers, max layers, min nodes, max nodes) as declared on the object"""
    if kind == "latent":
        return None, None, int(owner.min_latent_dim), int(owner.max_latent_dim)
    if kind == "mlp":
        return owner.min_hidden_layers, owner.max_hidden_layers, owner.min_mlp_nodes, owner.max_mlp_nodes
    if kind == "cnn":
        return owner.min_hidden_layers, owner.max_hidden_layers, owner.min_channel_size, owner.max_channel_size
    if kind == "lstm":
        return owner.min_layers, owner.max_layers, owner.min_hidden_size, owner.max_hidden_size
    if kind == "simba":
        return owner.min_blocks, owner.max_blocks, owner.min_mlp_nodes, owner.max_mlp_nodes
    if kind == "resnet":
        return owner.min_blocks, owner.max_blocks, owner.min_channel_size, owner.max_channel_size
    raise InfraError(kind)


def all_blocks(spec, m):
    """[(label, module, kind)] of every bounded component"""
    out = []

    def enc(mod, label):
        k = block_kind(mod)
        if k == "multi":
            out.append((label + "latent", mod, "latent"))
            for key, s in multi_subs(mod):
                out.append((f"{label}feature_net.{key}", s, block_kind(s)))
        else:
            out.append((label.rstrip(".") or "self", mod, k))
    if spec["kind"] == "net":
        out.append(("latent", m, "latent"))
        enc(m.encoder, "encoder.")
        out.append(("head_net", head_of(m), "mlp"))
    else:
        enc(m, "")
    return out


def bounds_check(spec, m, start_ok: dict) -> list[str]:
    problems = []
    for label, mod, kind in all_blocks(spec, m):
        lo_l, hi_l, lo_n, hi_n = bounds_of(mod, kind)
        st = arch_state(mod, kind)
        if kind == "latent":
            ok = lo_n <= st["latent"] <= hi_n
        else:
            ok = lo_l <= st["layers"] <= hi_l and all(lo_n <= x <= hi_n for x in st["nodes"])
        if start_ok.get(label, True) and not ok:
            problems.append(f"bounds: {label} {st} outside layers [{lo_l},{hi_l}] / nodes [{lo_n},{hi_n}]")
    return problems


def start_bounds(spec, m) -> dict:
    """which components start inside their declared bounds (some library defaults do not)"""
    d = {}
    for label, mod, kind in all_blocks(spec, m):
        d[label] = not bounds_check_one(mod, kind)
    return d


def bounds_check_one(mod, kind) -> bool:
    lo_l, hi_l, lo_n, hi_n = bounds_of(mod, kind)
    st = arch_state(mod, kind)
    if kind == "latent":
        return not (lo_n <= st["latent"] <= hi_n)
    return not (lo_l <= st["layers"] <= hi_l and all(lo_n <= x <= hi_n for x in st["nodes"]))


def effect_check(kind: str, called: str, applied: str | None, before: dict, after: dict, kwargs: dict,
                 log: list, owner) -> list[str]:
    """the advertised change happened, or the named fallback's"""
    if applied is None:
        return [f"advertised method {called} changed nothing and reported last_mutation_attr=None"]
    allowed = [called] + FALLBACKS.get(kind, {}).get(called, [])
    if applied not in allowed:
        return [f"{called} resolved to {applied}, which is neither it nor its documented fallback {allowed[1:]}"]
    lo_l, hi_l, lo_n, hi_n = bounds_of(owner, kind)
    p = []
    if kind == "latent":
        n = int(kwargs.get("numb_new_nodes", next((d[2] for d in log if d[0] == "choice"), 0)))
        b, a = before["latent"], after["latent"]
        if applied == "add_latent_node" and not (a == b + n or (a == b and b + n >= hi_n)):
            p.append(f"add_latent_node({n}): {b} -> {a} (max {hi_n})")
        if applied == "remove_latent_node" and not (a == b - n or (a == b and b - n <= lo_n)):
            p.append(f"remove_latent_node({n}): {b} -> {a} (min {lo_n})")
        return p
    if applied in ("add_layer", "add_block"):
        if after["layers"] != before["layers"] + 1 or after["layers"] > hi_l:
            p.append(f"{applied}: layers {before['layers']} -> {after['layers']} (max {hi_l})")
        elif kind in ("mlp", "cnn") and (after["nodes"][:-1] != before["nodes"] or after["nodes"][-1] != before["nodes"][-1]):
            p.append(f"{applied}: widths {before['nodes']} -> {after['nodes']} (new layer must copy the last width)")
    elif applied in ("remove_layer", "remove_block"):
        if after["layers"] != before["layers"] - 1 or after["layers"] < lo_l:
            p.append(f"{applied}: layers {before['layers']} -> {after['layers']} (min {lo_l})")
        elif kind in ("mlp", "cnn") and after["nodes"] != before["nodes"][:-1]:
            p.append(f"{applied}: widths {before['nodes']} -> {after['nodes']}")
    elif applied == "change_kernel":
        diff = [j for j, (x, y) in enumerate(zip(before["kernels"], after["kernels"])) if x != y]
        if after["layers"] != before["layers"] or after["nodes"] != before["nodes"] or len(diff) > 1:
            p.append(f"change_kernel altered more than one kernel: {before} -> {after}")
    else:   # node / channel methods
        sign = 1 if applied.startswith("add") else -1
        if after["layers"] != before["layers"]:
            p.append(f"{applied}: number of layers changed {before['layers']} -> {after['layers']}")
        else:
            diff = [(j, y - x) for j, (x, y) in enumerate(zip(before["nodes"], after["nodes"])) if x != y]
            n = kwargs.get("numb_new_nodes", kwargs.get("numb_new_channels"))
            if n is None:
                n = next((d[2] for d in log if d[0] == "choice"), None)
            if len(diff) > 1 or (diff and n is not None and diff[0][1] != sign * int(n)):
                p.append(f"{applied}({n}): widths {before['nodes']} -> {after['nodes']}")
            if not diff and n is not None and called == applied:
                hl = kwargs.get("hidden_layer")
                if hl is None:
                    hl = next((d[4] for d in log if d[0] == "randint" and d[3] and d[1] == 0), 0)
                j = min(int(hl), len(before["nodes"]) - 1)
                v = before["nodes"][j]
                stopped = v + int(n) >= hi_n if sign > 0 else v - int(n) <= lo_n
                if not stopped and int(n) != 0:
                    p.append(f"{applied}({n}) at layer {j}: width {v} unchanged although [{lo_n},{hi_n}] allows it")
    return p


def init_sizes(owner, kind: str) -> dict:
    """the sizes of a component as ITS OWN constructor description (`init_dict`) states them"""
    d = owner.init_dict
    if kind == "latent":
        return {"latent": int(d["latent_dim"])}
    if kind == "mlp":
        return {"nodes": [int(x) for x in d["hidden_size"]]}
    if kind == "cnn":
        return {"nodes": [int(x) for x in d["channel_size"]],
                "kernels": [int(k[-1]) if isinstance(k, (tuple, list)) else int(k) for k in d["kernel_size"]]}
    if kind in ("lstm", "simba"):
        return {"nodes": [int(d["hidden_size"])]}
    if kind == "resnet":
        return {"nodes": [int(d["channel_size"])]}
    raise InfraError(kind)


def explicit_check(kind: str, called: str, applied: str | None, ib: dict, ia: dict, kwargs: dict) -> list[str]:
    """an explicit argument is honoured (part of "changes the architecture in the advertised way", quantified over
    "all argument choices"): when the called method itself was applied (no fallback), the layer named by
    `hidden_layer` (clamped to the last one) is the only one whose width / kernel changed in the constructor
    description, a changed width changed by exactly the explicit size, a changed kernel is the explicit kernel or
    smaller (the spatial bound).  Judged on the implementation's own init_dict before / after."""
    if applied != called or not kwargs or not ib or not ia:
        return []
    p = []
    n = kwargs.get("numb_new_nodes", kwargs.get("numb_new_channels"))
    sign = 1 if called.startswith("add") else -1
    args = ", ".join(f"{k}={int(v) if not isinstance(v, (tuple, list)) else tuple(v)}" for k, v in kwargs.items())
    if kind == "latent":
        b, a = ib["latent"], ia["latent"]
        if n is not None and a != b and a - b != sign * int(n):
            p.append(f"{called}({args}): init_dict latent_dim {b} -> {a}, not the explicit size")
        return p
    if called == "change_kernel":
        bk, ak = ib.get("kernels"), ia.get("kernels")
        if bk is None or ak is None or len(bk) != len(ak):
            return p
        changed = [j for j, (x, y) in enumerate(zip(bk, ak)) if x != y]
        if "hidden_layer" in kwargs:
            j = min(int(kwargs["hidden_layer"]), len(bk) - 1)
            wrong = [c for c in changed if c != j]
            if wrong:
                p.append(f"change_kernel({args}): init_dict kernel_size {bk} -> {ak}: the kernel of layer {wrong[0]} "
                         f"changed, layer {j} was requested (an explicit argument is not honoured)")
        if "kernel_size" in kwargs:
            ks = kwargs["kernel_size"]
            k = int(ks[-1] if isinstance(ks, (tuple, list)) else ks)
            for c in changed:
                if not 1 <= ak[c] <= max(k, 1):
                    p.append(f"change_kernel({args}): init_dict kernel_size {bk} -> {ak}: layer {c} got a kernel "
                             f"larger than the explicit size {k}")
        return p
    if called not in ("add_node", "remove_node", "add_channel", "remove_channel"):
        return p
    bn, an = ib["nodes"], ia["nodes"]
    if len(bn) != len(an):
        return p
    what = {"mlp": "hidden_size", "cnn": "channel_size"}.get(kind, "size")
    changed = [j for j, (x, y) in enumerate(zip(bn, an)) if x != y]
    if "hidden_layer" in kwargs:
        j = min(int(kwargs["hidden_layer"]), len(bn) - 1)
        wrong = [c for c in changed if c != j]
        if wrong:
            p.append(f"{called}({args}): init_dict {what} {bn} -> {an}: layer {wrong[0]} changed, layer {j} was "
                     f"requested (an explicit argument is not honoured)")
    if n is not None:
        for c in changed:
            if an[c] - bn[c] != sign * int(n):
                p.append(f"{called}({args}): init_dict {what} {bn} -> {an}: layer {c} changed by {an[c] - bn[c]:+d}, "
                         f"not by the explicit size")
    return p


def model_kwargs(kind: str, called_leaf: str, applied_leaf: str | None, kwargs: dict, log: list) -> str:
    """the `k=v` tokens of the model's `mut` line: explicit arguments and recorded draws"""
    t = {}
    if called_leaf == "change_kernel":
        if "hidden_layer" in kwargs:
            t["kl"], t["xkl"] = int(kwargs["hidden_layer"]), 1
        if "kernel_size" in kwargs:
            ks = kwargs["kernel_size"]
            t["k"], t["xk"] = int(ks[-1] if isinstance(ks, (tuple, list)) else ks), 1
    else:
        if "hidden_layer" in kwargs:
            t["hl"], t["xhl"] = int(kwargs["hidden_layer"]), 1
        for key in ("numb_new_nodes", "numb_new_channels"):
            if key in kwargs:
                t["n"], t["xn"] = int(kwargs[key]), 1
    free = [d for d in log if d[0] == "randint" and not d[3]]
    for d in log:
        if d[0] == "choice":
            t.setdefault("n", d[2])
        elif d[3] and d[1] == 0:
            t.setdefault("hl", d[4])
        elif d[3]:
            t.setdefault("kl", d[4])
    if applied_leaf == "change_kernel" and free:
        t.setdefault("k", free[0][4])
    elif applied_leaf == "add_layer" and len(free) >= 2:
        t["k"], t["s"] = free[0][4], free[1][4]
    return " ".join(f"{k}={v}" for k, v in t.items())


class StepResult:
    __slots__ = ("applied", "ret", "log", "problems", "raised", "mline", "tags", "before", "after")


def do_step(spec: dict, m, step: dict, start_ok: dict, oracle: bool = True) -> StepResult:
    """apply one advertised method to the live object `m` (in place) and evaluate the oracle"""
    r = StepResult()
    name, kwargs = step["method"], dict(step.get("kwargs", {}))
    if "kernel_size" in kwargs and isinstance(kwargs["kernel_size"], list):
        kwargs["kernel_size"] = tuple(kwargs["kernel_size"])
    if step.get("nptype"):        # sizes / indices as numpy integers: what the kwargs returned by a draw contain
        T = getattr(np, step["nptype"])
        kwargs = {k: (T(v) if isinstance(v, int) and not isinstance(v, bool) else v) for k, v in kwargs.items()}
    r.problems, r.tags, r.raised, r.ret, r.applied, r.log = [], [], None, None, None, []
    r.before = r.after = {}
    r.mline = f"arch mut {name}"
    try:
        owner, leaf, kind = resolve(m, name)
        r.before = arch_state(owner, kind)
        init_before = init_sizes(owner, kind) if (oracle and kwargs) else None
    except Exception as e:
        r.raised = fault_text(e)
        r.problems.append(f"advertised method {name} cannot be resolved / its module read: {r.raised}")
        return r
    draws = Draws(step.get("seed", 0), step.get("draw", "rand"))
    try:
        with patched_numpy(draws):
            r.ret = getattr(m, name)(**kwargs)
    except Exception as e:
        r.raised = f"{type(e).__name__}: {str(e)[:200]}"
    r.log = draws.log
    r.applied = m.last_mutation_attr if r.raised is None else None
    applied_leaf = r.applied.split(".")[-1] if r.applied else None
    # the owner may have been replaced (latent mutations re-create encoder and head)
    try:
        owner2, _, _ = resolve(m, name)
        r.after = arch_state(owner2, kind)
    except Exception:
        owner2, r.after = owner, r.before
    r.mline = f"arch mut {name} " + model_kwargs(kind, leaf, applied_leaf, kwargs, r.log)
    r.tags = [f"m-{leaf}", f"k-{kind}"]
    if applied_leaf and applied_leaf != leaf:
        r.tags.append("fallback")
    if r.after == r.before:
        r.tags.append("stopped-by-bound")
    if kwargs:
        r.tags.append("explicit-args")
    if r.raised is not None:
        r.problems.append(f"{name}({kwargs}) raised {r.raised}")
        return r
    if not oracle:
        return r
    try:
        r.problems += effect_check(kind, leaf, applied_leaf, r.before, r.after, kwargs, r.log, owner2)
        if init_before is not None:
            r.problems += explicit_check(kind, leaf, applied_leaf, init_before, init_sizes(owner2, kind), kwargs)
        if r.applied is not None and "." in name and r.applied.rsplit(".", 1)[0] != name.rsplit(".", 1)[0]:
            r.problems.append(f"{name} reported as {r.applied}")
        r.problems += bounds_check(spec, m, start_ok)
    except Exception as e:
        r.problems.append(f"reading the mutated architecture raised {fault_text(e)}")
    r.problems += forward_check(spec, m)
    r.problems += rebuild_check(m)
    return r


def rebuild_check(m) -> list[str]:
    problems = []
    try:
        sd = m.state_dict()
    except Exception as e:
        return [f"state_dict() raised {fault_text(e)}"]
    try:
        init = m.init_dict
        re = type(m)(**copy.deepcopy(init))
    except Exception as e:
        return [f"type(m)(**m.init_dict) raised {type(e).__name__}: {str(e)[:160]}"]
    try:
        re.load_state_dict(sd, strict=True)
    except Exception as e:
        problems.append(f"rebuilt network rejects the weights: {str(e)[:200]}")
    try:
        c = m.clone()
        csd = c.state_dict()
        if set(csd.keys()) != set(sd.keys()):
            problems.append("clone() has different state_dict keys")
        else:
            bad = [k for k in sd if csd[k].shape != sd[k].shape or not torch.equal(csd[k], sd[k])]
            if bad:
                problems.append(f"clone() does not carry the weights: {bad[:3]}")
    except Exception as e:
        problems.append(f"clone() raised {type(e).__name__}: {str(e)[:160]}")
    return problems


def observe(spec, m, applied) -> list[str]:
    return [str(applied), summary(spec, m), shapes(m), " ".join(sorted(m.mutation_methods))]


def canon_model(lines: list[str]) -> list[str]:
    """model answers for (mut, init, shapes, methods) in the harness' canonical form"""
    a, s, sh, me = lines
    return [a, s, " ".join(sorted(sh.split())), " ".join(sorted(me.split()))]


# ----------------------------------------------------------------------------- running a chain
def run_chain(chk: Check, spec: dict, steps: list[dict], policy: dict, oracle: bool = True):
    """fresh object, apply `steps` in order (each optionally on a clone, as the pipeline does).
    returns dict(problems, diff, impl, model, tags, applied)"""
    impl, tags, problems, applied = [], [], [], []
    try:
        m = build(spec)
        start_ok = start_bounds(spec, m)
        lines = ["reset"] + define_lines(spec, m, policy)
        first = [summary(spec, m), shapes(m), " ".join(sorted(m.mutation_methods))]
    except Exception as e:
        return {"problems": [f"constructing / describing {spec.get('id')} raised {fault_text(e)}"], "diff": None,
                "impl": [], "model": [], "tags": [], "applied": [], "final": None}
    n0 = len(lines)
    p0 = forward_check(spec, m) + rebuild_check(m) if oracle else []
    problems += [f"before any mutation: {p}" for p in p0]
    lines += ["arch init", "arch shapes", "arch methods"]
    impl += first
    marks = [(n0, "start", 3)]
    for j, st in enumerate(steps):
        if st.get("clone", True):
            try:
                m = m.clone()
            except Exception as e:
                problems.append(f"step {j}: clone() raised {fault_text(e)}")
                break
        try:
            advertised = st["method"] in m.mutation_methods
        except Exception as e:
            problems.append(f"step {j}: mutation_methods raised {fault_text(e)}")
            break
        if not advertised:
            break               # not an advertised method here (can happen while shrinking): chain ends
        r = do_step(spec, m, st, start_ok, oracle)
        tags += r.tags
        applied.append(r.applied)
        problems += [f"step {j} {st['method']}: {p}" for p in r.problems]
        if r.raised is not None:
            break
        try:
            obs = observe(spec, m, r.applied)
        except Exception as e:
            problems.append(f"step {j} {st['method']}: describing the mutated network raised {fault_text(e)}")
            break
        marks.append((len(lines), f"step {j} {st['method']}", 4))
        lines += [r.mline, "arch init", "arch shapes", "arch methods"]
        impl += obs
    out = chk.driver.run(lines)
    chk.corr["model_lines"] += len(lines)
    if any(o == "bad-op" for o in out[:n0]):
        raise InfraError(f"model rejected the definition of {spec}: {list(zip(lines[:n0], out[:n0]))}")
    model = []
    for pos, _label, width in marks:
        seg = out[pos:pos + width]
        model += canon_model(seg) if width == 4 else canon_model(["-"] + seg)[1:]
    diff = next((i for i, (a, b) in enumerate(zip(impl, model)) if a != b), None)
    return {"problems": problems, "diff": diff, "impl": impl, "model": model, "tags": tags, "applied": applied,
            "final": m}


def report(chk: Check, suite: str, spec: dict, steps: list[dict], res: dict, policy: dict, known: set) -> int:
    """shrink and report one failing chain; returns 1 if it was a model/implementation disagreement"""
    has_problem = bool(res["problems"])

    def fails(sub):
        r = run_chain(chk, spec, sub, policy)
        return bool(r["problems"]) if has_problem else r["diff"] is not None
    small = ddmin(steps, fails) if len(steps) > 1 else steps
    r2 = run_chain(chk, spec, small, policy)
    if (has_problem and not r2["problems"]) or (not has_problem and r2["diff"] is None):
        small, r2 = steps, res
    replay = {"suite": suite, "spec": spec, "steps": small, "policy": policy, "oracle_problems": r2["problems"],
              "diff_at": r2["diff"], "impl": r2["impl"][-8:], "model": r2["model"][-8:],
              "correspondence": "harness/c03.py vs Model/Arch.lean", "theorems": chk.gate["theorems"]}
    if has_problem:
        what = r2["problems"][0]
        fid = classify(spec, small, what)
        if fid and fid in known:
            return 0
        chk.violation(f"[{suite}] {what}", replay)
        return 0
    d = r2["diff"]
    if classify_diff(r2["impl"][d], r2["model"][d]) in known:
        return 0
    # reported at the end of the run, after every violation that comes with a concrete failing input
    _DEFERRED.append((f"[{suite}] implementation and Arch model disagree at observable {d}: "
                      f"impl={r2['impl'][d][:160]!r} model={r2['model'][d][:160]!r}; property oracle holds on this "
                      f"chain and its shrinks", replay))
    return 1


_DEFERRED: list = []


def flush_deferred(chk: Check) -> None:
    while _DEFERRED:
        what, replay = _DEFERRED.pop(0)
        chk.violation(what, replay, no_input=True)


def classify(spec, steps, what: str):
    """map an oracle failure to a separately probed finding, so that it is reported once"""
    if "Channel size must be an integer" in what:
        return FIND_RESNET
    if "Kernel size must be a tuple" in what or "Kernel size must be an integer" in what or "failed to unpack" in what:
        return FIND_KERNEL3D
    if "change_kernel" in what and "list assignment index out of range" in what:
        return FIND_KERNEL
    if "change_kernel" in what and "Kernel size can't be greater than actual input size" in what \
            and spec.get("kind", "").startswith("cnn"):
        return FIND_DOWNSTREAM
    if spec.get("cls") == "StochasticActor" and "last_mutation_attr=None" in what and "head_net" in what:
        return FIND_HEAD
    if "change_kernel" in what and "last_mutation_attr=None" in what and spec.get("kind") == "net":
        return FIND_CK_DEAD
    m = re.match(r"step \d+ (encoder\.[\w.]+):", what)
    if m and m.group(1).rsplit(".", 1)[1] in ("add_layer", "remove_layer", "add_block", "remove_block"):
        return FIND_LAYER
    latent = [j for j, st in enumerate(steps) if st["method"].endswith("latent_node")]
    if latent and any(not st.get("clone", True) for st in steps[latent[0] + 1:]):
        return FIND_STALE
    return None


def classify_diff(impl: str, model: str):
    """a disagreement confined to the advertised method names of a re-created encoder"""
    extra = set(impl.split()) - set(model.split())
    if extra and not (set(model.split()) - set(impl.split())) and all(
            e.startswith("encoder.") and e.rsplit(".", 1)[1] in ("add_layer", "remove_layer", "add_block", "remove_block")
            for e in extra):
        return FIND_LAYER
    return None


# ----------------------------------------------------------------------------- actions
def actions_for(spec: dict, m, small: bool) -> list[dict]:
    """the advertised methods of `m` with argument choices: no arguments (numpy draws at both ends
    of their range) and explicit arguments around the bounds"""
    acts = []
    for name in sorted(m.mutation_methods):
        owner, leaf, kind = resolve(m, name)
        acts.append({"method": name, "draw": "lo"})
        acts.append({"method": name, "draw": "hi"})
        # an explicit size of numpy integer type (the type of a drawn size, handed on to the other networks)
        n64 = 2 if small else NODE_CHOICES.get(kind, [8])[0]
        if kind == "latent" or leaf in ("add_node", "remove_node"):
            acts.append({"method": name, "kwargs": {"numb_new_nodes": n64}, "nptype": "int64"})
        elif leaf in ("add_channel", "remove_channel"):
            acts.append({"method": name, "kwargs": {"numb_new_channels": n64}, "nptype": "int64"})
        if not small:
            continue
        ns = [1, 2]
        if kind == "latent":
            for n in ns:
                acts.append({"method": name, "kwargs": {"numb_new_nodes": n}})
        elif leaf in ("add_node", "remove_node"):
            for n in ns:
                if kind == "mlp":
                    for hl in (0, 1, 7):
                        acts.append({"method": name, "kwargs": {"hidden_layer": hl, "numb_new_nodes": n}})
                else:
                    acts.append({"method": name, "kwargs": {"numb_new_nodes": n}})
        elif leaf in ("add_channel", "remove_channel"):
            for n in ns:
                if kind == "cnn":
                    for hl in (0, 1, 7):
                        acts.append({"method": name, "kwargs": {"hidden_layer": hl, "numb_new_channels": n}})
                else:
                    acts.append({"method": name, "kwargs": {"numb_new_channels": n}})
        elif leaf == "change_kernel":
            for hl in (0, 1):
                for k in (1, 3, 7):
                    acts.append({"method": name, "kwargs": {"hidden_layer": hl, "kernel_size": k}})
    return acts


def explicit_actions(spec: dict, m, small: bool) -> list[dict]:
    """every advertised method that takes arguments x every explicit argument choice that names a place or a size:
    `hidden_layer` = every layer of the component and one beyond (clamped to the last), with and without an explicit
    size / kernel; the size alone"""
    acts = []
    for name in sorted(m.mutation_methods):
        owner, leaf, kind = resolve(m, name)
        n = 1 if small else NODE_CHOICES.get(kind, [8])[0]
        if leaf in ("add_node", "remove_node", "add_channel", "remove_channel") and kind in ("mlp", "cnn"):
            key = "numb_new_nodes" if leaf.endswith("node") else "numb_new_channels"
            L = len(arch_state(owner, kind)["nodes"])
            for hl in list(range(L)) + [L + 3]:
                acts.append({"method": name, "kwargs": {"hidden_layer": hl, key: n}})
                acts.append({"method": name, "kwargs": {"hidden_layer": hl}, "draw": "lo"})
        elif leaf == "change_kernel" and kind == "cnn":
            st = arch_state(owner, kind)
            L = len(st["kernels"])
            for hl in list(range(L)) + [L + 3]:
                cur = st["kernels"][min(hl, L - 1)]
                for k in sorted({1, max(1, cur - 1), cur + 1}):
                    acts.append({"method": name, "kwargs": {"hidden_layer": hl, "kernel_size": k}})
                acts.append({"method": name, "kwargs": {"hidden_layer": hl}, "draw": "hi"})
        elif kind == "latent" or leaf in ("add_node", "remove_node"):
            acts.append({"method": name, "kwargs": {"numb_new_nodes": n}})
        elif leaf in ("add_channel", "remove_channel"):
            acts.append({"method": name, "kwargs": {"numb_new_channels": n}})
    return acts


def multi_layer_subjects() -> list[dict]:
    """components with SEVERAL layers of DISTINCT widths / kernels wherever a method takes `hidden_layer` (layer
    mutations of encoders are disabled, so the explorations above only ever see the configured depth there): bare
    blocks, CNN / MLP encoders and heads of every network kind, nested blocks of dict / tuple observations, Conv3d"""
    S = []

    def add(id_, small, **kw):
        S.append(dict(id=id_, small=small, **kw))
    cnn3 = small_cnn_cfg(ch=(2, 3, 4), k=(3, 2, 1), s=(1, 1, 1), hi_l=3, hi_c=6)
    cnn2 = small_cnn_cfg(ch=(2, 3), k=(3, 2), s=(1, 1), hi_l=2, hi_c=5)
    mlp3 = small_mlp_cfg([2, 3, 4], hi_l=3, hi_n=6)
    mlp2 = small_mlp_cfg([3, 2], hi_l=2, hi_n=5)
    head = small_mlp_cfg([2, 3], hi_l=2, hi_n=5)
    lat = dict(latent_dim=4, min_latent_dim=2, max_latent_dim=8)
    add("mlp-3layer", True, kind="mlp", cfg=dict(num_inputs=3, num_outputs=2, **mlp3))
    add("cnn-3layer", True, kind="cnn", cfg=dict(input_shape=[2, 16, 16], num_outputs=3, **cnn3))
    add("cnn3d-3layer", True, kind="cnn3d", depth=3, cfg=dict(input_shape=[2, 16, 16], num_outputs=3, **cnn3))
    add("multi-dict-2layer", True, kind="multi", obs="dict",
        cfg=dict(num_outputs=3, **multi_cfg(True, cnn_config=dict(cnn2, layer_norm=False), mlp_config=dict(mlp2))))
    add("q-img-2layer", True, kind="net", cls="QNetwork", obs="img", act="disc",
        cfg=dict(encoder_config=dict(cnn2), head_config=dict(head), **lat))
    add("value-vec-2layer", True, kind="net", cls="ValueNetwork", obs="vec",
        cfg=dict(encoder_config=dict(mlp2), head_config=dict(head), **lat))
    add("contq-tuple-2layer", True, kind="net", cls="ContinuousQNetwork", obs="tuple", act="box",
        cfg=dict(encoder_config=multi_cfg(True, cnn_config=dict(cnn2, layer_norm=False), mlp_config=dict(mlp2),
                                          vector_space_mlp=True), head_config=dict(head), **lat))
    add("detactor-img-2layer", True, kind="net", cls="DeterministicActor", obs="img", act="box",
        cfg=dict(encoder_config=dict(cnn2), head_config=dict(head), **lat))
    add("stoch-vec-2layer", True, kind="net", cls="StochasticActor", obs="vec", act="box",
        cfg=dict(encoder_config=dict(mlp2), head_config=dict(head), **lat))
    add("rainbow-vec-2layer", True, kind="net", cls="RainbowQNetwork", obs="vec", act="disc",
        cfg=dict(encoder_config=dict(mlp2), head_config=dict(head), **lat))
    return S


def explore(chk: Check, suite: str, spec: dict, policy: dict, depth_full: int, depth_graph: int, small: bool,
            known: set, max_nodes: int = 4000, actions_fn=None) -> tuple[int, int]:
    """all method/argument sequences up to `depth_full` (every sequence, executed on clones of real
    objects), then the closure of the reachable architecture graph (states identified by their
    constructor description) up to `depth_graph`.  One driver batch for the whole tree."""
    actions_fn = actions_fn or actions_for
    try:
        root = build(spec)
        start_ok = start_bounds(spec, root)
        lines = ["reset"] + define_lines(spec, root, policy) + ["arch save 0"]
        seen = {summary(spec, root)}
    except Exception as e:
        fault_text(e)
        res = run_chain(chk, spec, [], policy)       # reports the construction failure with the spec as replay
        report(chk, suite, spec, [], res, policy, known)
        return 1, 0
    n0 = len(lines)
    expect: list = []          # (line index, expected canonical answers, node id)
    nodes = {0: {"m": root, "path": [], "depth": 0}}
    frontier = [0]
    nid = 0
    failing: list = []
    ncases = 0
    complete_depth = 0
    for depth in range(1, depth_graph + 1):
        nxt = []
        truncated = False
        for pid in frontier:
            parent = nodes[pid]
            try:
                acts = actions_fn(spec, parent["m"].clone(), small)   # names are taken from the offspring
            except Exception:
                try:
                    acts = actions_fn(spec, parent["m"], small)
                except Exception as e:
                    failing.append((parent["path"], [f"listing the advertised methods raised {fault_text(e)}"]))
                    continue
            for act in acts:
                if nid >= max_nodes:
                    truncated = True
                    break
                st = dict(act, seed=chk.rng.randrange(1 << 30), clone=True)
                try:
                    child = parent["m"].clone()
                except Exception as e:
                    failing.append((parent["path"] + [st], [f"clone() raised {fault_text(e)}"]))
                    continue
                r = do_step(spec, child, st, start_ok)
                ncases += 1
                path = parent["path"] + [st]
                key = [spec["id"], [(s["method"], s.get("kwargs"), s.get("draw"), s.get("nptype")) for s in path]]
                chk.case(key, nontrivial=("fallback" in r.tags or "stopped-by-bound" in r.tags or depth > 1),
                         sample={"subject": spec["id"], "chain": [(s["method"], s.get("kwargs", {}), s.get("draw", ""))
                                                                  for s in path], "applied": r.applied},
                         tags=r.tags + [f"s-{spec['id']}", f"depth-{depth}"])
                if r.problems:
                    failing.append((path, r.problems))
                    continue
                try:
                    obs = observe(spec, child, r.applied)
                    s = summary(spec, child)
                except Exception as e:
                    failing.append((path, [f"describing the mutated network raised {fault_text(e)}"]))
                    continue
                nid += 1
                lines += [f"arch load {pid}", r.mline, "arch init", "arch shapes", "arch methods", f"arch save {nid}"]
                expect.append((len(lines) - 5, obs, path))
                if depth < depth_full or s not in seen:
                    nodes[nid] = {"m": child, "path": path, "depth": depth}
                    nxt.append(nid)
                seen.add(s)
        for pid in frontier:
            nodes[pid]["m"] = None if pid else nodes[pid]["m"]
        if not truncated and not failing:
            complete_depth = depth
        frontier = nxt
        if not frontier:
            break
    closed = not frontier and not truncated
    chk.dist[f"complete-to-depth-{min(complete_depth, depth_full)}"] += 1
    if closed:
        chk.dist["state-graph-closed"] += 1
    chk.notes.append(f"explore {spec['id']}: every sequence up to depth {min(complete_depth, depth_full)}"
                     + (f", reachable state graph closed ({len(seen)} states)" if closed else
                        f", {len(seen)} states seen (graph search cut at depth {depth_graph} / {max_nodes} nodes)"))
    out = chk.driver.run(lines)
    chk.corr["model_lines"] += len(lines)
    if any(o == "bad-op" for o in out[:n0]):
        raise InfraError(f"model rejected the definition of {spec['id']}: {list(zip(lines[:n0], out[:n0]))}")
    seen_msgs = set()
    for path, problems in failing:
        sig = (path[-1]["method"] if path else "-", problems[0].split(":")[0][:60])
        if sig in seen_msgs or len(seen_msgs) >= 3:
            continue
        seen_msgs.add(sig)
        res = run_chain(chk, spec, path, policy)
        if not res["problems"]:
            res["problems"] = problems
        report(chk, suite, spec, path, res, policy, known)
    ndiff = 0
    reported = 0
    for pos, want, path in expect:
        got = canon_model(out[pos:pos + 4])
        if got != want and reported < 2:
            res = run_chain(chk, spec, path, policy)
            if res["diff"] is None and not res["problems"]:
                res["diff"] = 0
                res["impl"], res["model"] = want, got
            ndiff += report(chk, suite, spec, path, res, policy, known)
            reported += 1
        elif got != want:
            ndiff += 1
    chk.dist[f"states-{spec['id']}"] = len(seen)
    return ncases, ndiff


def walk(chk: Check, suite: str, spec: dict, policy: dict, length: int, known: set, clone_prob: float,
         twin: bool) -> tuple[int, int]:
    """seeded walk: names from `sample_mutation_method`, no arguments (numpy draws), optionally a twin
    network that receives the applied method with the returned kwargs"""
    try:
        m = build(spec)
        t = build(dict(spec, seed=spec.get("seed", 0) + 1)) if twin else None
        start_ok = start_bounds(spec, m)
    except Exception as e:
        fault_text(e)
        res = run_chain(chk, spec, [], policy)
        report(chk, suite, spec, [], res, policy, known)
        return 1, 0
    gen = np.random.default_rng(chk.rng.randrange(1 << 30))
    steps = []
    problems = []
    for j in range(length):
        st = {"method": None, "seed": chk.rng.randrange(1 << 30), "clone": chk.rng.random() < clone_prob}
        try:
            if not m.mutation_methods:
                break
            if st["clone"]:
                try:
                    m = m.clone()
                except Exception:
                    st["method"] = str(m.sample_mutation_method(0.3, gen))
                    steps.append(st)
                    break           # run_chain below reproduces and reports it
            # sampled from the offspring, as the pipeline does
            name = st["method"] = str(m.sample_mutation_method(0.3, gen))
        except Exception as e:
            problems.append((j, [f"sample_mutation_method / mutation_methods raised {fault_text(e)}"]))
            break
        r = do_step(spec, m, st, start_ok, oracle=False)
        steps.append(st)
        if r.raised is not None:
            break
        if twin and r.applied is not None:
            # what `_apply_arch_mutation` does for the other evaluation networks
            tk = dict(r.ret) if isinstance(r.ret, dict) else {}
            ts = {"method": r.applied, "kwargs": tk, "seed": 1, "clone": True}
            try:
                t = t.clone()
                if ts["method"] in t.mutation_methods:
                    rt = do_step(spec, t, ts, start_ok, oracle=True)
                    tp = rt.problems
                else:
                    tp = []
                if not tp and summary(spec, t) != summary(spec, m):
                    # not part of C03: add_layer of a CNN returns no kwargs, so the twin draws its own kernel/stride
                    chk.dist["twin-diverged"] += 1
                    t = m.clone()
            except Exception as e:
                tp = [f"clone() / description raised {fault_text(e)}"]
            if tp:
                problems.append((j, [f"twin: {p}" for p in tp]))
                break
    res = run_chain(chk, spec, steps, policy)
    key = [spec["id"], "walk", [(s["method"], s["seed"], s["clone"]) for s in steps]]
    chk.case(key, nontrivial=len(steps) > 1,
             sample={"subject": spec["id"], "walk": [s["method"] for s in steps][:12], "applied": res["applied"][:12]},
             tags=res["tags"] + [f"s-{spec['id']}", "walk"] + (["twin"] if twin else []))
    nd = 0
    if problems and not res["problems"]:
        j, ps = problems[0]
        fid = classify(spec, steps[:j + 1], ps[0])
        if not (fid and fid in known):
            chk.violation(f"[{suite}] {ps[0]}", {"suite": suite, "spec": spec, "steps": steps[:j + 1], "twin": True,
                                                 "policy": policy, "oracle_problems": ps})
    if res["problems"] or res["diff"] is not None:
        nd = report(chk, suite, spec, steps, res, policy, known)
    return 1, nd


# ----------------------------------------------------------------------------- subjects of a run
def subjects(tier: str) -> list[dict]:
    S = []

    def add(id_, small, **kw):
        S.append(dict(id=id_, small=small, **kw))
    # building blocks, bounds shrunk to 2–3 values
    add("mlp-small", True, kind="mlp", cfg=dict(num_inputs=3, num_outputs=2, **small_mlp_cfg([2])))
    add("mlp-noisy-small", True, kind="mlp", cfg=dict(num_inputs=3, num_outputs=2, noisy=True, output_layernorm=True,
                                                      **small_mlp_cfg([3, 3], hi_l=2)))
    add("cnn-small", True, kind="cnn", cfg=dict(input_shape=[2, 16, 16], num_outputs=3, **small_cnn_cfg()))
    add("cnn-bn-small", True, kind="cnn", cfg=dict(input_shape=[2, 20, 16], num_outputs=3,
                                                   **small_cnn_cfg(ch=(2, 2), k=(3, 2), s=(2, 1), layer_norm=True)))
    add("cnn-tall-small", True, kind="cnn", cfg=dict(input_shape=[2, 40, 8], num_outputs=3,
                                                     **small_cnn_cfg(ch=(2, 2), k=(3, 3), s=(1, 1))))
    add("cnn-wide-small", True, kind="cnn", cfg=dict(input_shape=[2, 8, 40], num_outputs=3,
                                                     **small_cnn_cfg(ch=(2, 2), k=(3, 3), s=(1, 1))))
    add("cnn3d-small", True, kind="cnn3d", depth=3, cfg=dict(input_shape=[2, 16, 16], num_outputs=3,
                                                             **small_cnn_cfg(ch=(2, 2), k=(3, 3), s=(1, 1))))
    add("lstm-small", True, kind="lstm", cfg=dict(input_size=3, hidden_size=3, num_outputs=2, num_layers=1,
                                                  min_hidden_size=2, max_hidden_size=5, min_layers=1, max_layers=3))
    add("simba-small", True, kind="simba", cfg=dict(num_inputs=3, num_outputs=2, hidden_size=3, num_blocks=1,
                                                    min_blocks=1, max_blocks=3, min_mlp_nodes=2, max_mlp_nodes=5))
    add("resnet-small", True, kind="resnet", cfg=dict(input_shape=[2, 8, 8], num_outputs=2, channel_size=3,
                                                      kernel_size=3, stride_size=1, num_blocks=1, min_blocks=1,
                                                      max_blocks=2, min_channel_size=2, max_channel_size=5))
    add("multi-dict-small", True, kind="multi", obs="dict", cfg=dict(num_outputs=3, **multi_cfg(True)))
    add("multi-tuple-mlp-small", True, kind="multi", obs="tuple",
        cfg=dict(num_outputs=3, **multi_cfg(True, vector_space_mlp=True)))
    add("multi-seq-small", True, kind="multi", obs="dictseq", cfg=dict(num_outputs=3, **multi_cfg(True, recurrent=True)))
    # networks, small bounds
    lat = dict(latent_dim=4, min_latent_dim=2, max_latent_dim=8)
    enc_mlp = small_mlp_cfg([3], hi_l=2)
    head = small_mlp_cfg([2], hi_l=2)
    add("q-vec-small", True, kind="net", cls="QNetwork", obs="vec", act="disc",
        cfg=dict(encoder_config=enc_mlp, head_config=head, **lat))
    add("q-img-small", True, kind="net", cls="QNetwork", obs="img", act="mdisc",
        cfg=dict(encoder_config=small_cnn_cfg(hi_l=2, hi_c=4), head_config=head, **lat))
    add("q-dict-small", True, kind="net", cls="QNetwork", obs="dict", act="disc",
        cfg=dict(encoder_config=multi_cfg(True), head_config=head, **lat))
    add("rainbow-vec-small", True, kind="net", cls="RainbowQNetwork", obs="vec", act="disc",
        cfg=dict(encoder_config=dict(enc_mlp), head_config=dict(head), **lat))
    add("contq-vec-small", True, kind="net", cls="ContinuousQNetwork", obs="vec", act="box",
        cfg=dict(encoder_config=enc_mlp, head_config=head, **lat))
    add("value-seq-small", True, kind="net", cls="ValueNetwork", obs="seq",
        cfg=dict(recurrent=True, head_config=head, **lat,
                 encoder_config=dict(hidden_size=3, num_layers=1, min_hidden_size=2, max_hidden_size=5,
                                     min_layers=1, max_layers=2)))
    add("detactor-tuple-small", True, kind="net", cls="DeterministicActor", obs="tuple", act="box",
        cfg=dict(encoder_config=multi_cfg(True), head_config=head, **lat))
    add("contq-img3d-small", True, kind="net", cls="ContinuousQNetwork", obs="img", act="box", sample_depth=3,
        cfg=dict(n_agents=3, encoder_config=small_cnn_cfg(ch=(2, 2), k=(3, 3), s=(1, 1), hi_l=2, hi_c=4),
                 head_config=head, **lat))
    add("stoch-vec-small", True, kind="net", cls="StochasticActor", obs="vec", act="box",
        cfg=dict(encoder_config=enc_mlp, head_config=head, **lat))
    add("stoch-img-small", True, kind="net", cls="StochasticActor", obs="img", act="disc",
        cfg=dict(encoder_config=small_cnn_cfg(hi_l=2, hi_c=4), head_config=head, **lat))
    add("q-simba-small", True, kind="net", cls="QNetwork", obs="vec", act="disc",
        cfg=dict(simba=True, head_config=head, **lat,
                 encoder_config=dict(hidden_size=3, num_blocks=1, min_blocks=1, max_blocks=2, min_mlp_nodes=2,
                                     max_mlp_nodes=5)))
    add("q-resnet-small", True, kind="net", cls="QNetwork", obs="img", act="disc",
        cfg=dict(encoder_cls="ResNet", head_config=head, **lat,
                 encoder_config=dict(input_shape=[2, 16, 16], channel_size=3, kernel_size=3, stride_size=2,
                                     num_blocks=1, min_blocks=1, max_blocks=2, min_channel_size=2,
                                     max_channel_size=5)))
    # default bounds (walks)
    add("mlp-default", False, kind="mlp", cfg=dict(num_inputs=4, num_outputs=2, hidden_size=[64, 64]))
    add("cnn-default", False, kind="cnn", cfg=dict(input_shape=[3, 48, 48], num_outputs=4, channel_size=[32, 32],
                                                   kernel_size=[3, 3], stride_size=[2, 1]))
    add("cnn-atari", False, kind="cnn", cfg=dict(input_shape=[4, 84, 84], num_outputs=4, channel_size=[32, 64],
                                                 kernel_size=[8, 4], stride_size=[4, 2]))
    add("cnn3d-default", False, kind="cnn3d", depth=3, cfg=dict(input_shape=[3, 40, 40], num_outputs=4,
                                                                 channel_size=[32], kernel_size=[3], stride_size=[1]))
    add("lstm-default", False, kind="lstm", cfg=dict(input_size=3, hidden_size=64, num_outputs=4))
    add("simba-default", False, kind="simba", cfg=dict(num_inputs=4, num_outputs=2, hidden_size=64, num_blocks=2))
    add("resnet-default", False, kind="resnet", cfg=dict(input_shape=[3, 16, 16], num_outputs=4, channel_size=32,
                                                         kernel_size=3, stride_size=2, num_blocks=1))
    add("multi-default", False, kind="multi", obs="dict", cfg=dict(num_outputs=8))
    add("q-vec-default", False, kind="net", cls="QNetwork", obs="vec", act="disc", cfg={})
    add("q-img-default", False, kind="net", cls="QNetwork", obs="img20", act="disc", cfg={})
    add("q-imgtall-default", False, kind="net", cls="QNetwork", obs="imgtall", act="disc", cfg={})
    add("value-imgwide-default", False, kind="net", cls="ValueNetwork", obs="imgwide", cfg={})
    add("rainbow-default", False, kind="net", cls="RainbowQNetwork", obs="vec", act="disc", cfg={})
    add("contq-default", False, kind="net", cls="ContinuousQNetwork", obs="vec", act="box", cfg={})
    add("value-dict-default", False, kind="net", cls="ValueNetwork", obs="dict", cfg={})
    add("detactor-default", False, kind="net", cls="DeterministicActor", obs="vec", act="box", cfg={})
    add("stoch-default", False, kind="net", cls="StochasticActor", obs="vec", act="box", cfg={})
    add("stoch-tuple-default", False, kind="net", cls="StochasticActor", obs="tuple", act="mdisc", cfg={})
    # recurrent=True over a sequence space Box(T, F): LSTM encoder, library bounds (a drawn size is applied)
    lstm_enc = dict(hidden_size=64, num_layers=1)
    add("q-seq-default", False, kind="net", cls="QNetwork", obs="seq", act="disc",
        cfg=dict(recurrent=True, encoder_config=dict(lstm_enc)))
    add("value-seq-default", False, kind="net", cls="ValueNetwork", obs="seq",
        cfg=dict(recurrent=True, encoder_config=dict(lstm_enc)))
    add("detactor-seq-default", False, kind="net", cls="DeterministicActor", obs="seq", act="box",
        cfg=dict(recurrent=True, encoder_config=dict(lstm_enc)))
    add("stoch-seq-default", False, kind="net", cls="StochasticActor", obs="seq", act="disc",
        cfg=dict(recurrent=True, encoder_config=dict(lstm_enc, num_layers=2)))
    add("q-simba-default", False, kind="net", cls="QNetwork", obs="vec", act="disc", cfg=dict(simba=True))
    return S


# ----------------------------------------------------------------------------- probes for analysed defects
def probe_policy(chk: Check) -> tuple[dict, set]:
    """Probes for the specific, analysed defects of the design / build round (each checks exactly one
    call site).  A probe that fails goes through `chk.finding`: KNOWN-FINDING if listed open in
    known_findings.json, otherwise a VIOLATION.  An exception the implementation raises inside a probe
    is reported as a violation with the probe's method chain as replay.  Returns the behaviour of
    the tree under test at the model's two switch points and the ids already reported (the suites do
    not report those again)."""
    handled: set = set()
    policy = {"forward_head": True, "clamp_kernel": True, "fit_later": True}
    by_id = {s["id"]: s for s in subjects("quick")}

    def finding(fid, detail, spec, steps, **extra):
        handled.add(fid)
        chk.finding(fid, detail, dict({"suite": "probe", "spec": spec, "steps": steps, "policy": dict(policy)}, **extra))

    def guarded(name, spec, steps, fn):
        try:
            fn(spec, steps)
        except Exception as e:
            msg = fault_text(e)
            res = run_chain(chk, spec, steps, policy) if steps else {"problems": []}
            if res["problems"]:
                report(chk, "probe:" + name, spec, steps, res, policy, handled)
            else:
                chk.violation(f"[probe:{name}] the implementation raised {msg}",
                              {"suite": "probe", "spec": spec, "steps": steps, "policy": dict(policy),
                               "oracle_problems": [msg]})

    # D21: EvolvableResNet channel mutations leave an np.int64 that the constructor refuses
    def p_resnet(spec, steps):
        m = build(spec)
        with patched_numpy(Draws(1, "lo")):
            m.add_channel()
        bad = rebuild_check(m)
        if bad:
            finding(FIND_RESNET, f"EvolvableResNet.add_channel() (numpy draw, as architecture_mutate calls it) leaves "
                    f"channel_size a {type(m.channel_size).__name__}: {bad[0]}", spec, steps, oracle_problems=bad)
    guarded("resnet", by_id["resnet-default"], [{"method": "add_channel", "draw": "lo", "seed": 1, "clone": False}], p_resnet)

    # round 5: change_kernel inside the range of its own draw must leave the LATER layers valid
    def p_downstream(spec, steps):
        res = run_chain(chk, spec, steps, policy)
        if res["problems"]:
            policy["fit_later"] = False
            finding(FIND_DOWNSTREAM, "EvolvableCNN.change_kernel with a size inside the range of its own random draw "
                    "leaves a later layer whose kernel no longer fits its (shrunk) input: " + res["problems"][0],
                    spec, steps, oracle_problems=res["problems"])
    for dspec, dsteps in downstream_replays():
        guarded("downstream", dspec, dsteps, p_downstream)

    # D20: StochasticActor advertises head_net.* ; do they do anything?
    def p_head(spec, steps):
        m = build(spec)
        before = list(head_of(m).hidden_size)
        with patched_numpy(Draws(1, "lo")):
            getattr(m, "head_net.add_layer")()
        if m.last_mutation_attr is None and list(head_of(m).hidden_size) == before:
            policy["forward_head"] = False
            finding(FIND_HEAD, "StochasticActor advertises head_net.add_layer/remove_layer/add_node/remove_node "
                    "but calling them changes nothing and sets last_mutation_attr=None (the wrapped head's "
                    "mutations are disabled by the EvolvableDistribution wrapper)", spec, steps)
    guarded("head", by_id["stoch-vec-small"], [{"method": "head_net.add_layer", "draw": "lo", "seed": 1, "clone": False}],
            p_head)

    # nested methods after the encoder / head were re-created by a latent mutation (no clone in between)
    def p_stale(spec, steps):
        m = build(spec)
        m.add_latent_node(numb_new_nodes=1)
        if any(x.endswith("add_layer") and x.startswith("encoder.") for x in m.mutation_methods):
            finding(FIND_LAYER, "after add_latent_node the re-created encoder advertises encoder.add_layer / "
                    "encoder.remove_layer again (EvolvableNetwork disables them only in __init__; a clone() hides them "
                    "again)", spec, steps[:1])
        getattr(m, "encoder.add_node")(hidden_layer=0, numb_new_nodes=1)
        bad = ([] if m.last_mutation_attr == "encoder.add_node" else
               [f"last_mutation_attr={m.last_mutation_attr} after encoder.add_node"]) + rebuild_check(m)
        if bad:
            finding(FIND_STALE, "add_latent_node followed by encoder.add_node on the same object: the network still "
                    f"calls the method of the discarded encoder -> {bad[0]}", spec, steps, oracle_problems=bad)
    guarded("stale", by_id["q-vec-small"],
            [{"method": "add_latent_node", "kwargs": {"numb_new_nodes": 1}, "clone": False},
             {"method": "encoder.add_node", "kwargs": {"hidden_layer": 0, "numb_new_nodes": 1}, "clone": False}], p_stale)

    # change_kernel on a single-layer CNN encoder falls back on the disabled add_layer
    def p_ckdead(spec, steps):
        m = build(spec)
        with patched_numpy(Draws(1, "lo")):
            getattr(m, "encoder.change_kernel")()
        if m.last_mutation_attr is None:
            finding(FIND_CK_DEAD, "encoder.change_kernel on a network whose CNN encoder has one layer falls back on "
                    "add_layer, which is disabled for encoders: nothing changes and last_mutation_attr=None", spec, steps)
    guarded("ck-dead", by_id["q-img-small"],
            [{"method": "encoder.change_kernel", "draw": "lo", "seed": 1, "clone": False}], p_ckdead)

    # the Rainbow head must be rebuildable from its own constructor description
    def p_dueling(spec, steps):
        bad = rebuild_check(build(spec).head_net)
        if bad:
            finding(FIND_DUELING, "DuelingDistributionalMLP.init_dict reports num_outputs = num_atoms instead of the "
                    f"number of actions, so type(head)(**head.init_dict) / head.clone() build another architecture: "
                    f"{bad[0]}", spec, [], call="head_rebuild")
    guarded("dueling", by_id["rainbow-vec-small"], [], p_dueling)

    # explicit kernel arguments of change_kernel
    cfg2 = dict(input_shape=[2, 16, 16], num_outputs=3, **small_cnn_cfg(ch=(2, 2), k=(3, 3), s=(1, 1)))

    def p_kernel(spec, steps):
        m = build(spec)
        try:
            m.change_kernel(kernel_size=15, hidden_layer=1)
            clamped = m.kernel_size[1] != 15
            bad = forward_check(spec, m, (1,))
        except Exception as e:
            clamped, bad = False, [fault_text(e)]
        if not clamped:
            policy["clamp_kernel"] = False
        if bad:
            finding(FIND_KERNEL, "EvolvableCNN.change_kernel(kernel_size=15, hidden_layer=1) on 16x16 input with "
                    f"kernels [3,3]: the explicit kernel is larger than the 14x14 feature map -> {bad[0]}",
                    spec, steps, oracle_problems=bad)
    guarded("kernel", {"id": "cnn-probe", "kind": "cnn", "cfg": cfg2},
            [{"method": "change_kernel", "kwargs": {"kernel_size": 15, "hidden_layer": 1}, "clone": False}], p_kernel)

    # Conv3d: the kwargs returned by change_kernel must be applicable to a twin (what critics receive)
    def p_kernel3d(spec3, steps):
        a, b = build(spec3), build(spec3)
        with patched_numpy(Draws(3, "hi")):
            ret = a.change_kernel()
        ret = {k: int(v) for k, v in ret.items()}
        try:
            b.change_kernel(**ret)
            bad3 = forward_check(spec3, b, (1,))
            if b.kernel_size != a.kernel_size:
                bad3.append(f"twin kernels {b.kernel_size} != {a.kernel_size}")
        except Exception as e:
            bad3 = [fault_text(e)]
        if bad3:
            finding(FIND_KERNEL3D, f"Conv3d EvolvableCNN.change_kernel(**{ret}) - the kwargs the same method returned "
                    f"on a twin network, which is what architecture_mutate hands to the critics - fails: {bad3[0]}",
                    spec3, [{"method": "change_kernel", "kwargs": ret, "clone": False}], oracle_problems=bad3)
    guarded("kernel3d", {"id": "cnn3d-probe", "kind": "cnn3d", "depth": 2, "cfg": cfg2},
            [{"method": "change_kernel", "draw": "hi", "seed": 3, "clone": False}], p_kernel3d)

    # EvolvableLSTM.get_output_dense
    def p_lstm(lspec, steps):
        m = build(lspec)
        try:
            m.get_output_dense()
        except Exception as e:
            finding(FIND_LSTM_DENSE, f"EvolvableLSTM.get_output_dense() raises {fault_text(e)}", lspec, [],
                    call="get_output_dense")
    guarded("lstm-dense", by_id["lstm-small"], [], p_lstm)
    return policy, handled


# ----------------------------------------------------------------------------- check
# fields of a constructor description that a mutation writes with a drawn (numpy-typed) size
NUMPY_FIELDS = ("hidden_size", "channel_size", "latent_dim")
INT32_STRICT = True      # np.int32 sizes (numpy's default integer on some platforms) must be accepted too (fixed in /repo)
                         # until the tree accepts them (see fixes/C03-numpy-integer-sizes.diff), then set True


def numpy_typed(d, T, top=True):
    """copy of an init_dict with the mutation-written sizes as numpy integers `T` and every float as
    np.float64; recurses into encoder_config / head_config / init_dicts / cnn_config ..."""
    out = {}
    for k, v in d.items():
        if isinstance(v, dict):
            out[k] = numpy_typed(v, T, False)
        elif k in NUMPY_FIELDS and k != "channel_size" and isinstance(v, int) and not isinstance(v, bool):
            out[k] = T(v)          # (a scalar channel_size is EvolvableResNet's, which casts it to int itself)
        elif k in NUMPY_FIELDS and isinstance(v, list) and v and all(isinstance(x, int) for x in v):
            out[k] = [T(x) for x in v]
        elif isinstance(v, float):
            out[k] = np.float64(v)
        else:
            out[k] = v
    return out


def numpy_init_check(m, nptype: str) -> list[str]:
    """the constructor must accept its own description with numpy-typed sizes (what a drawn mutation
    leaves there) and build the same architecture"""
    T = getattr(np, nptype)
    try:
        re = type(m)(**numpy_typed(copy.deepcopy(m.init_dict), T))
    except Exception as e:
        return [f"type(m)(**init_dict with {nptype} sizes) raised {fault_text(e)}"]
    try:
        re.load_state_dict(m.state_dict(), strict=True)
        re.clone()
    except Exception as e:
        return [f"network rebuilt from init_dict with {nptype} sizes: {fault_text(e)}"]
    return []


def numpy_init_sweep(chk: Check, spec: dict) -> list[str]:
    m = build(spec)
    bad = numpy_init_check(m, "int64")
    if bad:
        chk.violation(f"[numpy-init] {spec['id']}: {bad[0]}",
                      {"suite": "numpy-init", "spec": spec, "steps": [], "call": "numpy_init", "nptype": "int64",
                       "oracle_problems": bad})
    bad32 = numpy_init_check(m, "int32")
    if bad32 and not bad:
        if INT32_STRICT:
            chk.violation(f"[numpy-init] {spec['id']}: {bad32[0]}",
                          {"suite": "numpy-init", "spec": spec, "steps": [], "call": "numpy_init", "nptype": "int32",
                           "oracle_problems": bad32})
        else:
            chk.dist["observation-int32-sizes-rejected"] += 1
            note = f"observation (not counted): {spec['id']}: {bad32[0]}"
            if len([n for n in chk.notes if n.startswith("observation")]) < 4:
                chk.notes.append(note)
    return bad


def safely(chk: Check, suite: str, spec: dict, policy: dict, fn, *args, default=(1, 0)):
    """last line of defence: an exception of the implementation that slipped through the per-call
    guards is still a violation of this subject (with its traceback), not an infrastructure error"""
    try:
        return fn(*args)
    except InfraError:
        raise
    except Exception as e:
        msg = fault_text(e)                   # raises InfraError if the harness itself is at fault
        import traceback
        chk.violation(f"[{suite}] {spec.get('id')}: the implementation raised {msg}",
                      {"suite": suite, "spec": spec, "steps": [], "policy": policy, "oracle_problems": [msg],
                       "traceback": traceback.format_exc()[-1500:]})
        return default


# ----------------------------------------------------------------------------- kernel arithmetic (round 5)
def downstream_replays() -> list[tuple[dict, list[dict]]]:
    """the two replays of C03-cnn-change-kernel-downstream: (1) a user configuration, 8x8 image, kernels (1, 1, 8);
    (2) reached from a one-layer CNN on a 28x28 image by advertised mutations with drawn layer indices only"""
    s1 = {"id": "cnn-downstream-1", "kind": "cnn",
          "cfg": dict(input_shape=[3, 8, 8], num_outputs=4,
                      **small_cnn_cfg(ch=(2, 2, 2), k=(1, 1, 8), s=(1, 1, 1), hi_l=3, hi_c=4))}
    st1 = [{"method": "change_kernel", "kwargs": {"kernel_size": 2, "hidden_layer": 1}}]
    s2 = {"id": "cnn-downstream-2", "kind": "cnn",
          "cfg": dict(input_shape=[3, 28, 28], num_outputs=4, **small_cnn_cfg(ch=(2,), k=(1,), s=(1,), hi_l=6, hi_c=4))}
    ck = lambda j, k: {"method": "change_kernel", "kwargs": {"kernel_size": k, "hidden_layer": j}}   # noqa: E731
    st2 = ([{"method": "add_layer", "draw": "lo"}] * 3 + [ck(1, 1), ck(2, 1), ck(3, 1)]
           + [{"method": "add_layer", "draw": "hi"}] * 2 + [ck(3, 7), ck(2, 7), ck(1, 7)])
    return [(s1, st1), (s2, st2)]


def exact_maps(h: int, w: int, ks, ss):
    out = []
    for k, s in zip(ks, ss):
        h, w = (h - k) // s + 1, (w - k) // s + 1
        out.append((h, w))
    return out


def exact_fit(h: int, w: int, ks, ss) -> bool:
    for k, s in zip(ks, ss):
        if k > h or k > w:
            return False
        h, w = (h - k) // s + 1, (w - k) // s + 1
    return True


def kernel_calc_real(case: dict):
    """the real calc_max_kernel_sizes / _later_layers_fit on one case and the exact statement as oracle:
    (oracle problems, bounds returned, answers of _later_layers_fit, the (layer, size) pairs asked)"""
    from agilerl.modules.cnn import MutableKernelSizes
    from agilerl.utils.evolvable_networks import calc_max_kernel_sizes
    c, h, w = case["shape"]
    ks, ss, fits = case["kernels"], case["strides"], [tuple(f) for f in case["fits"]]
    if not hasattr(MutableKernelSizes, "_later_layers_fit"):
        fits = []          # a tree without the re-validation of the later layers (reported by the probe / kernel-limit)
    n = len(ks)
    problems = []
    try:
        got = calc_max_kernel_sizes([2] * n, list(ks), list(ss), [c, h, w])
        got = [int(x) if float(x) == int(x) else float(x) for x in got]
    except Exception as e:
        return [f"calc_max_kernel_sizes raised {fault_text(e)}"], None, [], fits
    maps = exact_maps(h, w, ks, ss)
    if len(got) != n:
        problems.append(f"calc_max_kernel_sizes returned {len(got)} bounds for {n} layers")
    for i, (g, (mh, mw)) in enumerate(zip(got, maps)):
        if not (isinstance(g, int) and 1 <= g <= 9):
            problems.append(f"bound {g!r} of layer {i} is not an integer in 1..9")
        elif g > 1 and 4 * g > min(mh, mw):
            problems.append(f"bound {g} of layer {i} exceeds a quarter of its {mh}x{mw} output map")
        elif g < 9 and 4 * (g + 1) <= min(mh, mw):
            problems.append(f"bound {g} of layer {i} is below a quarter of its {mh}x{mw} output map")
    fit_got = []
    for j, k in fits:
        try:
            r = MutableKernelSizes(list(ks), "Conv2d", None)._later_layers_fit(j, k, list(ss), [c, h, w])
        except Exception as e:
            return problems + [f"_later_layers_fit({j}, {k}) raised {fault_text(e)}"], got, fit_got, fits
        fit_got.append(bool(r))
        ks2 = list(ks)
        if 0 <= j < n:
            ks2[j] = k
        if bool(r) != exact_fit(h, w, ks2, ss):
            problems.append(f"_later_layers_fit({j}, {k}) = {r} but the kernels {ks2} "
                            f"{'all fit' if not r else 'do not all fit'} (strides {list(ss)}, input {h}x{w})")
    return problems, got, fit_got, fits


def kernel_calc_lines(case: dict, fits) -> list[str]:
    c, h, w = case["shape"]
    ks, ss = case["kernels"], case["strides"]
    n = len(ks)
    return ["reset", "arch def top cnn cnn " + " ".join(str(x) for x in [c, h, w, "_", 1, 1, max(n, 2), 1, 256, 0, n]
                                                             + [2] * n + list(ks) + list(ss)),
            "arch use top", "arch maps"] + [f"arch fit {j} {k}" for j, k in fits]


def kernel_calc_diff(lines, out, got, fit_got, fits):
    if "bad-op" in out[1:3]:
        raise InfraError(f"model rejected {lines[1]!r}")
    diff = None
    mk = out[3].split(" | ")[1] if " | " in out[3] else out[3]
    mk_l = [int(x) for x in re.findall(r"-?\d+", mk)]
    if mk_l != got:
        diff = f"calc_max_kernel_sizes: impl={got} model={mk}"
    for (j, k), g, mo in zip(fits, fit_got, out[4:]):
        if b01(g) != mo and diff is None:
            diff = f"_later_layers_fit({j}, {k}): impl={g} model={mo}"
    return diff


def kernel_calc_case(chk: Check, case: dict) -> tuple[list[str], str | None]:
    """one (input shape, kernels, strides): oracle problems of the real functions, first difference to the model"""
    problems, got, fit_got, fits = kernel_calc_real(case)
    if got is None:
        return problems, None
    lines = kernel_calc_lines(case, fits)
    out = chk.driver.run(lines)
    chk.corr["model_lines"] += len(lines)
    return problems, kernel_calc_diff(lines, out, got, fit_got, fits)


def kernel_calc_suite(chk: Check, n_cases: int) -> tuple[int, int]:
    rng = chk.rng
    cases = []
    for t in range(n_cases):
        n = rng.randint(1, 6)
        big = rng.random() < 0.15
        top = rng.choice([64, 300, 4096]) if big else rng.choice([6, 9, 12, 16, 28, 40, 64])
        h = rng.randint(1, top)
        w = h if rng.random() < 0.5 else rng.randint(1, top)
        ks, ss = [], []
        ch, cw = h, w
        for _ in range(n):
            m = max(1, min(ch, cw))
            r = rng.random()
            k = m if r < 0.15 else rng.randint(1, min(m, 12)) if r < 0.85 else rng.randint(1, 12)
            s = rng.randint(1, 3) if rng.random() < 0.8 else rng.randint(1, 7)
            ks.append(k)
            ss.append(s)
            ch, cw = (ch - k) // s + 1, (cw - k) // s + 1
        fits = [(rng.randrange(n), rng.randint(1, 10)) for _ in range(3)]
        cases.append({"shape": [rng.randint(1, 3), h, w], "kernels": ks, "strides": ss, "fits": fits})
    real = [kernel_calc_real(c) for c in cases]
    all_lines, spans = [], []
    for c, (problems, got, fit_got, fits) in zip(cases, real):
        ls = kernel_calc_lines(c, fits) if got is not None else []
        spans.append((len(all_lines), len(ls)))
        all_lines += ls
    out = chk.driver.run(all_lines)
    chk.corr["model_lines"] += len(all_lines)
    ncase = ndiff = 0
    for t, (case, (problems, got, fit_got, fits), (pos, ln)) in enumerate(zip(cases, real, spans)):
        diff = kernel_calc_diff(all_lines[pos:pos + ln], out[pos:pos + ln], got, fit_got, fits) if ln else None
        (_, h, w), ks, ss = case["shape"], case["kernels"], case["strides"]
        ncase += 1
        valid = all(a >= 1 and b >= 1 for a, b in exact_maps(h, w, ks, ss))
        chk.case(["calc", case["shape"], ks, ss], nontrivial=len(ks) > 1,
                 sample={"shape": case["shape"], "kernels": ks, "strides": ss} if t < 2 else None,
                 tags=["calc-max-kernel", "valid-config" if valid else "kernel-exceeds-input",
                       "square" if h == w else "non-square"])
        replay_obj = {"suite": "calc-max-kernel", "call": "kernel_calc", "case": case,
                      "oracle_problems": problems, "diff": diff,
                      "correspondence": "real calc_max_kernel_sizes / _later_layers_fit vs Model/Arch.lean (maxKernels, laterFit)"}
        if problems:
            if ndiff < 3:
                chk.violation(f"[calc-max-kernel] {problems[0]} (shape {case['shape']}, kernels {ks}, strides {ss})", replay_obj)
            ndiff += 1
        elif diff is not None:
            if ndiff < 3:
                _DEFERRED.append((f"[calc-max-kernel] implementation and Arch model disagree: {diff} (shape {case['shape']}, "
                                  f"kernels {ks}, strides {ss}); the exact statement holds on this input", replay_obj))
            ndiff += 1
    return ncase, ndiff


def kernel_limit_suite(chk: Check, policy: dict, known: set, n_chains: int, length: int) -> tuple[int, int]:
    """real EvolvableCNNs on small images, chains of kernel / layer mutations near the spatial limit"""
    rng = chk.rng
    ncase = ndiff = 0
    for t in range(n_chains):
        h = rng.randint(4, 16)
        w = h if rng.random() < 0.6 else rng.randint(4, 16)
        n = rng.randint(1, 3)
        ks, ss = [], []
        ch, cw = h, w
        for _ in range(n):
            m = min(ch, cw)
            r = rng.random()
            k = m if r < 0.25 else 1 if r < 0.5 else rng.randint(1, m)
            s = rng.randint(1, 3)
            if (min(ch, cw) - k) // s + 1 < 1:
                k = 1
            ks.append(k)
            ss.append(s)
            ch, cw = (ch - k) // s + 1, (cw - k) // s + 1
        spec = {"id": f"cnn-limit-{h}x{w}", "kind": "cnn", "seed": rng.randrange(1000),
                "cfg": dict(input_shape=[2, h, w], num_outputs=3,
                            **small_cnn_cfg(ch=(2,) * n, k=ks, s=ss, hi_l=rng.choice([n + 1, 4, 6]), hi_c=4))}
        steps = []
        for _ in range(length):
            r = rng.random()
            if r < 0.55:
                steps.append({"method": "change_kernel",
                              "kwargs": {"kernel_size": rng.randint(1, 9), "hidden_layer": rng.randint(0, 5)}})
            elif r < 0.7:
                steps.append({"method": "change_kernel", "draw": rng.choice(["hi", "rand"]), "seed": rng.randrange(1000)})
            elif r < 0.9:
                steps.append({"method": "add_layer", "draw": rng.choice(["hi", "lo", "rand"]), "seed": rng.randrange(1000)})
            else:
                steps.append({"method": "remove_layer", "draw": "lo", "seed": rng.randrange(1000)})
        res = safely(chk, "kernel-limit", spec, policy, run_chain, chk, spec, steps, policy,
                     default={"problems": [], "diff": None, "tags": [], "final": None})
        ncase += 1
        fin = res.get("final")
        tags = ["kernel-limit", "square" if h == w else "non-square"]
        if fin is not None:
            try:
                fm = exact_maps(h, w, list(fin.kernel_size), list(fin.stride_size))
                tags.append("ends-tight" if fm and min(min(a, b) for a, b in fm) <= 2 else "ends-roomy")
                if list(fin.kernel_size)[:n] != ks:
                    tags.append("kernel-changed")
            except Exception:
                pass
        chk.case(["kernel-limit", spec["cfg"]["input_shape"], ks, ss, [json.dumps(s, sort_keys=True) for s in steps]],
                 nontrivial=True, sample={"spec": spec["cfg"]["input_shape"], "kernels": ks, "strides": ss,
                                          "steps": [s["method"] for s in steps]} if t < 1 else None, tags=tags)
        if res["problems"] or res["diff"] is not None:
            ndiff += report(chk, "kernel-limit", spec, steps, res, policy, known)
            if res["problems"]:
                ndiff += 0
    return ncase, ndiff


# ----------------------------------------------------------------------------- multi-input width arithmetic
def multi_width_space(case: dict):
    sp = _spaces()
    f = np.float32
    subs = []
    for kind, arg in case["subs"]:
        if kind == "box":
            subs.append(sp.Box(-1, 1, tuple(arg), dtype=f))
        elif kind == "disc":
            subs.append(sp.Discrete(int(arg)))
        else:
            subs.append(sp.MultiDiscrete([int(a) for a in arg]))
    if case["tuple"]:
        return sp.Tuple(tuple(subs))
    return sp.Dict({f"k{i}": s for i, s in enumerate(subs)})


def multi_width_exact(case: dict, latent: int) -> tuple[int, list[str]]:
    """the exact statement (Model/Arch.lean multiFinalIn, written out): one latent vector per image / sequence
    extractor (+ the vector MLP), plus the flattened vector observations unless they go through the vector MLP"""
    rec, mlp = case["recurrent"], case["vector_space_mlp"]
    n_lat, vec, mods = 0, 0, []
    for i, (kind, arg) in enumerate(case["subs"]):
        nd = len(arg) if kind == "box" else None
        flat = int(np.prod(arg)) if kind == "box" else int(arg) if kind == "disc" else int(sum(arg))
        is_vec = kind != "box" or nd in (0, 1) or (nd == 2 and not rec) or nd > 3
        if is_vec:
            vec += flat
        if kind == "box" and nd in (0, 1):
            continue
        mods.append("EvolvableCNN" if kind == "box" and nd == 3 else
                    "EvolvableLSTM" if kind == "box" and nd == 2 and not is_vec else "Flatten")
        if not is_vec:
            n_lat += 1
    if mlp:
        n_lat += 1
        mods.append("EvolvableMLP")
    return latent * n_lat + (0 if mlp else vec), mods


def multi_width_case(case: dict) -> list[str]:
    """build the real EvolvableMultiInput, apply the latent mutations (through the @mutation wrapper, which
    re-creates the network); after construction and after every step: bounds, `final_dense.in_features` = the exact
    width = the width of a fresh construction from `init_dict` = the width `forward` really concatenates"""
    from agilerl.modules import EvolvableMultiInput
    space = multi_width_space(case)
    torch.manual_seed(0)
    np.random.seed(case.get("seed", 0))
    m = EvolvableMultiInput(space, num_outputs=case["num_outputs"], latent_dim=case["latent"],
                            vector_space_mlp=case["vector_space_mlp"], recurrent=case["recurrent"],
                            min_latent_dim=case["lo"], max_latent_dim=case["hi"],
                            cnn_config=small_cnn_cfg(layer_norm=False), mlp_config=small_mlp_cfg([3]),
                            lstm_config=dict(hidden_size=3, num_layers=1, min_hidden_size=2, max_hidden_size=5,
                                             min_layers=1, max_layers=2))
    bad: list[str] = []

    def check(tag: str):
        lat = int(m.latent_dim)
        if not case["lo"] <= lat <= case["hi"]:
            bad.append(f"{tag}: latent_dim {lat} outside [{case['lo']}, {case['hi']}]")
        want, mods = multi_width_exact(case, lat)
        got = int(m.final_dense.in_features)
        if got != want:
            bad.append(f"{tag}: final_dense.in_features = {got}, the features are {want} wide (latent_dim {lat})")
        built = [type(x).__name__ for x in m.feature_net.values()]
        if built != mods:
            bad.append(f"{tag}: feature_net holds {built}, expected {mods}")
        for key, sub in m.feature_net.items():
            if hasattr(sub, "num_outputs") and int(sub.num_outputs) != lat:
                bad.append(f"{tag}: extractor {key} has num_outputs {sub.num_outputs}, latent_dim is {lat}")
        try:
            fresh = EvolvableMultiInput(**copy.deepcopy(m.init_dict))
            if int(fresh.final_dense.in_features) != got:
                bad.append(f"{tag}: rebuilt from init_dict, final_dense takes {fresh.final_dense.in_features} "
                           f"inputs, the mutated network {got}")
        except Exception as e:
            if impl_fault(e) is None:
                raise
            bad.append(f"{tag}: rebuilding from init_dict raised {fault_text(e)}")
        seen = []
        h = m.final_dense.register_forward_pre_hook(lambda mod, inp: seen.append(int(inp[0].shape[-1])))
        try:
            with torch.no_grad():
                out = m(sample_obs(space, 2))
            if seen != [got]:
                bad.append(f"{tag}: forward concatenates {seen} features, final_dense takes {got}")
            if tuple(out.shape) != (2, case["num_outputs"]):
                bad.append(f"{tag}: output shape {tuple(out.shape)}")
        except Exception as e:
            if impl_fault(e) is None:
                raise
            bad.append(f"{tag}: forward raised {fault_text(e)}")
        finally:
            h.remove()

    check("after construction")
    for i, (meth, arg) in enumerate(case["steps"]):
        before = int(m.latent_dim)
        ret = getattr(m, meth)(**({} if arg is None else {"numb_new_nodes": arg}))
        n = int(ret["numb_new_nodes"])
        after = int(m.latent_dim)
        tag = f"step {i} {meth}({'' if arg is None else arg})"
        if arg is None and n not in (8, 16, 32):
            bad.append(f"{tag}: drew {n}")
        delta = n if meth == "add_latent_node" else -n
        if after not in (before, before + delta):
            bad.append(f"{tag}: latent_dim {before} -> {after}, reported amount {n}")
        check(tag)
        if bad:
            break
    return bad


def multi_width_suite(chk: Check, n_cases: int) -> tuple[int, int]:
    rng = chk.rng
    ncase = nbad = 0
    for t in range(n_cases):
        subs = []
        for _ in range(rng.randint(1, 4)):
            r = rng.random()
            subs.append(("box", [rng.randint(1, 5)]) if r < 0.25 else ("disc", rng.randint(2, 5)) if r < 0.4 else
                        ("mdisc", [rng.randint(2, 3), rng.randint(2, 4)]) if r < 0.5 else
                        ("box", [rng.randint(2, 4), rng.randint(1, 3)]) if r < 0.7 else
                        ("box", [rng.randint(1, 2), 8, 8]) if r < 0.9 else ("box", [2, 1, 2, 2]))
        recurrent = rng.random() < 0.5
        if not any(k != "box" or len(a) in (1, 4) or (len(a) == 2 and not recurrent) for k, a in subs):
            subs.append(("box", [rng.randint(1, 5)]))      # forward needs one vector sub-space (outside: torch.cat([]))
        mlp = rng.random() < 0.5
        # forward applies nn.Flatten to a 2-D / 4-D vector Box only when some module gives a latent vector
        # (`if self.extracted_features_dim > 0`); a space of such boxes alone fails at construction already (reported;
        # not a mutation matter): keep one latent module
        if not mlp and any(k == "box" and len(a) in (2, 4) for k, a in subs) and \
                not any(k == "box" and (len(a) == 3 or (len(a) == 2 and recurrent)) for k, a in subs):
            subs.append(("box", [1, 8, 8]))
        small = rng.random() < 0.5
        lo, hi = (2, 12) if small else (8, 128)
        steps = []
        for _ in range(rng.randint(1, 4)):
            meth = rng.choice(["add_latent_node", "remove_latent_node"])
            steps.append((meth, None if rng.random() < 0.4 else rng.choice([0, 1, 2, 3, 8, hi - lo, hi])))
        case = {"subs": subs, "tuple": rng.random() < 0.3, "recurrent": recurrent,
                "vector_space_mlp": mlp, "latent": rng.choice([lo, hi, rng.randint(lo, hi)]),
                "lo": lo, "hi": hi, "num_outputs": rng.randint(1, 4), "steps": steps, "seed": rng.randrange(1000)}
        try:
            bad = multi_width_case(case)
        except Exception as e:
            if impl_fault(e) is None:
                raise
            bad = [f"the implementation raised {fault_text(e)}"]
        ncase += 1
        chk.case(["multi-width", subs, case["tuple"], recurrent, case["vector_space_mlp"], case["latent"], steps],
                 nontrivial=len(subs) > 1, sample=case if t < 2 else None,
                 tags=["multi-width", "vector-mlp" if case["vector_space_mlp"] else "raw-vectors",
                       "recurrent" if recurrent else "not-recurrent"])
        if bad:
            if nbad < 3:
                chk.violation(f"[multi-width] {bad[0]} ({case})",
                              {"suite": "multi-width", "call": "multi_width", "case": case, "spec": {}, "steps": [],
                               "oracle_problems": bad})
            nbad += 1
    return ncase, nbad


def pre_gate(chk: Check) -> None:
    """Regenerate lean/Gen/ArchGen.lean from the source text of the tree under test (before the Lean gate)
    and re-check `generated = model` (Proofs/ArchGenEq.lean) and the theorems over the generated definitions
    (Props/C03.lean).  A failure is a gate problem; the suites then look for the failing input."""
    # both generated files first: each gate builds Props.C03, which imports both (a stale KernelGen.lean left by a
    # run against another tree must not be blamed on the first gate)
    try:
        ktext, _ = py2lean_kernel.translate(REPO)
        py2lean_kernel.write_if_changed(ktext, common.LEAN_DIR / "Gen" / "KernelGen.lean")
    except py2lean_kernel.Unsupported:
        pass                                    # reported by its own gate below
    try:
        mtext, _ = py2lean_multiinput.translate(REPO)
        py2lean_multiinput.write_if_changed(mtext, common.LEAN_DIR / "Gen" / "MultiInputGen.lean")
    except py2lean_multiinput.Unsupported:
        pass                                    # reported by its own gate below
    common.translation_gate(chk, py2lean_arch, "Gen/ArchGen.lean",
                            ["Gen.ArchGen", "Proofs.ArchGenEq", "Props.C03"],
                            "@mutation methods of EvolvableMLP / CNN / LSTM / SimBa / ResNet / EvolvableNetwork")
    common.translation_gate(chk, py2lean_kernel, "Gen/KernelGen.lean",
                            ["Gen.KernelGen", "Proofs.KernelGenEq", "Props.C03"],
                            "calc_max_kernel_sizes and MutableKernelSizes._later_layers_fit")
    common.translation_gate(chk, py2lean_multiinput, "Gen/MultiInputGen.lean",
                            ["Gen.MultiInputGen", "Proofs.MultiInputGenEq", "Props.C03"],
                            "latent-node mutations and final_dense width arithmetic of EvolvableMultiInput")


def run(chk: Check) -> None:
    quick = chk.tier == "quick"
    chk.rule = ("subjects: 13 small-bound building blocks (MLP, noisy MLP, CNN 2d square / tall / wide images, 2d+BatchNorm, 3d over 3 stacked agents, LSTM, SimBa, ResNet, "
                "multi-input over dict / tuple / dict-with-sequence spaces), 12 small-bound networks (Q, Rainbow, "
                "continuous Q, value, deterministic and stochastic actor over vector, image, sequence, dict, tuple "
                "observations and a multi-agent Conv3d critic; MLP, CNN, LSTM, SimBa, ResNet, multi-input encoders), 23 default-bound subjects (incl. non-square images and recurrent=True networks over a sequence space with an LSTM encoder: Q, value, deterministic and stochastic actor).  Every default-bound subject: each advertised method without arguments (drawn, numpy-typed sizes) and with an np.int64 size, on a clone, then rebuild / clone; constructor descriptions with np.int64 / np.float64 values must rebuild the same network (np.int32: observation).  "
                "Exploration: every sequence of advertised methods x argument choices (no arguments with the numpy "
                "draws at the low / high end of their range; explicit hidden_layer in {0,1,7}, sizes in {1,2}, "
                "kernels in {1,3,7}) up to the depth stated per subject in notes (quick: 2 for blocks, 1 for "
                "composites; thorough: 3 for blocks, 2 for composites, node caps apply), each step on a clone() of "
                "a real object, then breadth-first over the reachable architecture graph (states identified by "
                "constructor description).  Walks: length 12 (quick) / 50 (thorough), names from "
                "sample_mutation_method, with and without clone between steps, and with a twin network receiving "
                "the applied method with the returned kwargs.  distinct = distinct (subject, chain); non-trivial = a "
                "fallback fired, a bound stopped the change, or the chain has more than one step")
    chk.rule += ("  Kernel arithmetic: calc-max-kernel = random (input shape up to 4096, 1-6 layers, kernels 1..12 incl. larger "
                 "than their input, strides 1..7, non-square inputs) through the real calc_max_kernel_sizes and _later_layers_fit; "
                 "kernel-limit = real EvolvableCNNs on 4x4..16x16 images (strides 1..3, kernels up to the full map), chains of "
                 "change_kernel (explicit kernel 1..9 on layer 0..5, or drawn) / add_layer / remove_layer, each step on a clone")
    chk.rule += ("  Multi-input width: suite multi-width = random Dict / Tuple spaces (1-5 sub-spaces: 1-D / 2-D / image / 4-D Box, "
                 "Discrete, MultiDiscrete; at least one vector sub-space, and a latent module when a vector Box has 2 / 4 dimensions), recurrent x vector_space_mlp, small / default latent bounds, "
                 "1-4 latent mutations (explicit 0..max or drawn) on the real EvolvableMultiInput: bounds, final_dense.in_features = "
                 "exact width = fresh construction from init_dict = the width forward concatenates (pre-hook), module classes, extractor outputs")
    chk.rule += ("  Explicit arguments: suite explicit-args = every advertised method that takes arguments x every layer index of its "
                 "component and one beyond x explicit / drawn size (change_kernel: kernel below / at / above the current one), one step "
                 "on a clone, on 10 subjects with 2-3 layers of distinct widths (MLP, CNN 2d/3d blocks, nested blocks of dict / tuple "
                 "observations, CNN / MLP encoders and heads of Q, Rainbow, continuous Q, value, deterministic and stochastic actor) "
                 "and on the default-bound subjects (quick: 8 drawn); oracle on the component's own init_dict before / after")
    chk.assumptions = [
        "numpy draws inside mutation methods go through np.random.randint / np.random.choice (served by a recorded stand-in)",
        "finiteness of outputs and acceptance of weights are checked on the real torch modules only (not modelled)",
        "negative or non-integer explicit arguments are outside the quantifier",
    ]
    chk.trusted_extra = ["torch.nn module construction / load_state_dict(strict=True) as the judge of 'accepts the weights exactly'"]
    policy, known = probe_policy(chk)
    chk.notes.append(f"implementation behaviour at the model's switch points: {policy}")
    subs = subjects(chk.tier)
    # corpus first
    ncorp = dcorp = 0
    for f in sorted((ROOT / "corpus" / "C03").glob("*.json")):
        c = json.loads(f.read_text())
        res = safely(chk, "corpus:" + f.name, c["spec"], policy, run_chain, chk, c["spec"], c["steps"], policy,
                     default={"problems": [], "diff": None})
        ncorp += 1
        chk.case([f.name], nontrivial=True, sample=None, tags=["corpus"])
        if res["problems"] or res["diff"] is not None:
            dcorp += report(chk, "corpus:" + f.name, c["spec"], c["steps"], res, policy, known)
    chk.suite("corpus", ncorp, dcorp)
    # exhaustive exploration, small bounds
    for spec in [s for s in subs if s["small"]]:
        heavy = spec["kind"] in ("multi", "net") or spec["kind"].startswith("cnn")
        if quick:
            df, dg, cap = (1, 2, 100) if heavy else (2, 4, 500)
        elif heavy:
            df, dg, cap = 2, 3, 1000
        else:
            df, dg, cap = (2, 6, 2500) if spec["id"] == "mlp-noisy-small" else (3, 6, 9000)
        n, d = safely(chk, "explore", spec, policy, explore, chk, "explore", spec, policy, df, dg, True, known, cap)
        chk.suite("explore-" + spec["kind"], n, d)
    # default bounds: the argument-less (drawn) path is applied, not stopped by a bound -- every advertised
    # method once (twice in thorough) on a clone, numpy-typed sizes land in init_dict, then rebuild / clone
    for spec in [s for s in subs if not s["small"]]:
        df, dg, cap = (1, 1, 36) if quick else (2, 2, 150)
        n, d = safely(chk, "explore-drawn", spec, policy, explore, chk, "explore-drawn", spec, policy, df, dg, False,
                      known, cap)
        chk.suite("explore-drawn-" + spec["kind"], n, d)
    # explicit arguments: every method x every layer index (and one beyond) x explicit / drawn size, on the default-bound
    # subjects and on components with several layers of distinct widths (all module kinds, nested ones included)
    dflt = [s for s in subs if not s["small"]]
    if quick:       # scalar-size components (LSTM, SimBa, ResNet) get their explicit size in explore-drawn already
        dflt = chk.rng.sample([s for s in dflt if s["kind"] not in ("lstm", "simba", "resnet")], 8)
    for spec in multi_layer_subjects() + dflt:
        n, d = safely(chk, "explicit-args", spec, policy, explore, chk, "explicit-args", spec, policy, 1, 1,
                      spec["small"], known, 120 if quick else 400, explicit_actions)
        chk.suite("explicit-args-" + spec["kind"], n, d)
    # numpy-typed values in the constructor description
    nn_, nd_ = 0, 0
    for spec in subs:
        bad = safely(chk, "numpy-init", spec, policy, numpy_init_sweep, chk, spec, default=[])
        nn_ += 1
        chk.case([spec["id"], "numpy-init"], nontrivial=True, sample=None, tags=["numpy-init"])
    chk.suite("numpy-init", nn_, nd_)
    # kernel arithmetic: the real calc_max_kernel_sizes / _later_layers_fit vs model vs exact statement; chains near the limit
    n, d = kernel_calc_suite(chk, 150 if quick else 1500)
    chk.suite("calc-max-kernel", n, d)
    n, d = kernel_limit_suite(chk, policy, known, 14 if quick else 120, 5 if quick else 8)
    chk.suite("kernel-limit", n, d)
    # multi-input: width of final_dense at construction / after latent mutations vs the exact width and forward
    n, d = multi_width_suite(chk, 40 if quick else 300)
    chk.suite("multi-width", n, d)
    # walks
    length = 12 if quick else 50
    for spec in subs:
        reps = 1 if quick else 3
        if quick and not spec["small"] and spec["kind"] == "net" and chk.rng.random() < 0.4:
            continue
        for rep in range(reps):
            for clone_prob, twin in ((1.0, True), (0.3, False)):
                if quick and spec["small"] and twin:
                    continue
                wspec = dict(spec, seed=chk.rng.randrange(1000))
                n, d = safely(chk, "walk", wspec, policy, walk, chk, "walk", wspec, policy, length, known,
                              clone_prob, twin)
                chk.suite("walk-" + spec["kind"], n, d)
    flush_deferred(chk)
    if not quick:
        selftest(chk, policy, known)


# ----------------------------------------------------------------------------- self-test
def selftest(chk: Check, policy: dict, known: set) -> None:
    """seeded faults in the implementation must be noticed (by the oracle or by the model diff)"""
    from agilerl.modules import lstm as lstm_mod
    from agilerl.modules import mlp as mlp_mod
    from agilerl.modules.base import MutationType, mutation

    spec = {"id": "selftest-mlp", "kind": "mlp", "cfg": dict(num_inputs=3, num_outputs=2, **small_mlp_cfg([2], hi_l=2))}
    lspec = {"id": "selftest-lstm", "kind": "lstm",
             "cfg": dict(input_size=3, hidden_size=3, num_outputs=2, num_layers=1, min_hidden_size=2,
                         max_hidden_size=5, min_layers=1, max_layers=3)}

    def noticed(spec_, steps):
        r = run_chain(chk, spec_, steps, policy)
        return bool(r["problems"]) or r["diff"] is not None

    caught = []
    # 1. guard `<` turned into `<=`
    orig = mlp_mod.EvolvableMLP.add_layer

    @mutation(MutationType.LAYER)
    def add_layer(self):
        if len(self.hidden_size) <= self.max_hidden_layers:
            self.hidden_size += [self.hidden_size[-1]]
        else:
            return self.add_node()
    mlp_mod.EvolvableMLP.add_layer = add_layer
    try:
        ok = noticed(spec, [{"method": "add_layer", "draw": "lo"}] * 2)
    finally:
        mlp_mod.EvolvableMLP.add_layer = orig
    caught.append(("guard < turned into <=", ok))
    # 2. recreate_network not called
    orig = mlp_mod.EvolvableMLP.recreate_network
    mlp_mod.EvolvableMLP.recreate_network = lambda self: None
    try:
        ok = noticed(spec, [{"method": "add_node", "kwargs": {"hidden_layer": 0, "numb_new_nodes": 1}}])
    finally:
        mlp_mod.EvolvableMLP.recreate_network = orig
    caught.append(("recreate_network not called", ok))
    # 3. init_dict misses a mutated field
    orig = lstm_mod.EvolvableLSTM.get_init_dict

    def stale(self):
        d = orig(self)
        d["num_layers"] = 1
        return d
    lstm_mod.EvolvableLSTM.get_init_dict = stale
    try:
        ok = noticed(lspec, [{"method": "add_layer", "draw": "lo"}])
    finally:
        lstm_mod.EvolvableLSTM.get_init_dict = orig
    caught.append(("init_dict missing the mutated num_layers", ok))
    # 4. fallback that ignores the bound
    orig = mlp_mod.EvolvableMLP.add_node

    @mutation(MutationType.NODE)
    def add_node(self, hidden_layer=None, numb_new_nodes=None):
        hidden_layer = 0 if hidden_layer is None else min(hidden_layer, len(self.hidden_size) - 1)
        numb_new_nodes = 1 if numb_new_nodes is None else numb_new_nodes
        self.hidden_size[hidden_layer] += numb_new_nodes
        return {"hidden_layer": hidden_layer, "numb_new_nodes": numb_new_nodes}
    mlp_mod.EvolvableMLP.add_node = add_node
    try:
        ok = noticed(spec, [{"method": "add_node", "kwargs": {"hidden_layer": 0, "numb_new_nodes": 2}}] * 2)
    finally:
        mlp_mod.EvolvableMLP.add_node = orig
    caught.append(("add_node without its HARD LIMIT", ok))
    # 5. change_kernel_size without the re-validation of the later layers (the tree as found in round 5)
    from agilerl.modules import cnn as cnn_mod
    orig = cnn_mod.MutableKernelSizes._later_layers_fit
    cnn_mod.MutableKernelSizes._later_layers_fit = lambda self, *a: True
    try:
        dspec, dsteps = downstream_replays()[0]
        ok = noticed(dspec, dsteps)
    finally:
        cnn_mod.MutableKernelSizes._later_layers_fit = orig
    caught.append(("_later_layers_fit always True", ok))
    # 6. calc_max_kernel_sizes with half instead of a quarter of the map
    from agilerl.utils import evolvable_networks as en_mod
    orig = en_mod.calc_max_kernel_sizes

    def half(channel_size, kernel_size, stride_size, input_shape):
        out, (h, w) = [], input_shape[-2:]
        for i, _ in enumerate(channel_size):
            h, w = (h - kernel_size[i]) // stride_size[i] + 1, (w - kernel_size[i]) // stride_size[i] + 1
            out.append(max(1, min(9, int(min(h, w) * 0.5))))
        return out
    en_mod.calc_max_kernel_sizes = half
    try:
        p_, d_ = kernel_calc_case(chk, {"shape": [2, 16, 16], "kernels": [1, 3], "strides": [1, 1], "fits": [(0, 2)]})
        ok = bool(p_) or d_ is not None
    finally:
        en_mod.calc_max_kernel_sizes = orig
    caught.append(("calc_max_kernel_sizes with half the map", ok))
    # 7. an explicit hidden_layer is not honoured: remove_node / remove_channel count the layer from the END
    for mod_, cls_, meth, key, fspec in (
            (mlp_mod, "EvolvableMLP", "remove_node", "numb_new_nodes",
             {"id": "selftest-mlp3", "kind": "mlp", "cfg": dict(num_inputs=3, num_outputs=2, **small_mlp_cfg([3, 4, 5], hi_l=3, hi_n=6))}),
            (cnn_mod, "EvolvableCNN", "remove_channel", "numb_new_channels",
             {"id": "selftest-cnn3", "kind": "cnn",
              "cfg": dict(input_shape=[2, 16, 16], num_outputs=3, **small_cnn_cfg(ch=(3, 4, 5), k=(3, 2, 1), s=(1, 1, 1), hi_c=6))})):
        cls = getattr(mod_, cls_)
        orig = getattr(cls, meth)
        sizes = "hidden_size" if cls_ == "EvolvableMLP" else "channel_size"

        def mirrored(self, hidden_layer=None, _orig=orig, _sizes=sizes, **kw):
            if hidden_layer is not None:
                n_ = len(getattr(self, _sizes))
                hidden_layer = n_ - 1 - min(hidden_layer, n_ - 1)
            return _orig.__wrapped__(self, hidden_layer, **kw)
        mirrored.__name__ = mirrored.__qualname__ = meth          # the library registers a method under its __name__
        setattr(cls, meth, mutation(MutationType.NODE, **orig._recreate_kwargs)(mirrored))
        try:
            r_ = run_chain(chk, fspec, [{"method": meth, "kwargs": {"hidden_layer": 0, key: 1}}], policy)
            ok = any("was requested" in p_ for p_ in r_["problems"])
        finally:
            setattr(cls, meth, orig)
        caught.append((f"{cls_}.{meth} applies an explicit hidden_layer to another layer", ok))
    missed = [n for n, ok in caught if not ok]
    if missed:
        raise InfraError(f"C03 self-test: seeded faults not noticed: {missed}")
    # the restored implementation must be clean again
    if noticed(spec, [{"method": "add_layer", "draw": "lo"}] * 2):
        raise InfraError("C03 self-test: clean implementation flagged after restoring the patches")
    chk.notes.append("self-test: detected " + "; ".join(n for n, _ in caught))


# ----------------------------------------------------------------------------- replay
def replay(chk: Check, path: str) -> int:
    try:
        return _replay(chk, path)
    except InfraError:
        raise
    except Exception as e:
        print(f"the implementation raised {fault_text(e)}")
        print(f"VIOLATION property=C03 replay={path}")
        return 1


def _replay(chk: Check, path: str) -> int:
    c = json.loads(open(path).read())
    c = c.get("replay", c)
    policy = c.get("policy", {"forward_head": True, "clamp_kernel": True})
    spec, steps = c["spec"], c["steps"]
    if c.get("call") == "multi_width":
        bad = multi_width_case(c["case"])
        print(json.dumps({"case": c["case"], "oracle_problems": bad}))
        if bad:
            print(f"VIOLATION property=C03 replay={path}")
        return 1 if bad else 0
    if c.get("call") == "kernel_calc":
        problems, diff = kernel_calc_case(chk, c["case"])
        print(json.dumps({"case": c["case"], "oracle_problems": problems, "diff": diff}))
        if problems:
            print(f"VIOLATION property=C03 replay={path}")
            return 1
        if diff is not None:
            print(f"VIOLATION property=C03 replay={path} no-failing-input-found")
            return 1
        return 0
    if c.get("call") == "numpy_init":
        bad = numpy_init_check(build(spec), c.get("nptype", "int64"))
        print(json.dumps({"numpy_init_problems": bad}))
        if bad:
            print(f"VIOLATION property=C03 replay={path}")
        return 1 if bad else 0
    if c.get("call") == "head_rebuild":
        bad = rebuild_check(build(spec).head_net)
        print(json.dumps({"head_rebuild_problems": bad}))
        if bad:
            print(f"VIOLATION property=C03 replay={path}")
        return 1 if bad else 0
    if c.get("call") == "get_output_dense":
        try:
            build(spec).get_output_dense()
            print("get_output_dense(): ok")
            return 0
        except Exception as e:
            print(f"get_output_dense() raised {type(e).__name__}: {e}")
            print(f"VIOLATION property=C03 replay={path}")
            return 1
    if c.get("twin"):
        m, t = build(spec), build(dict(spec, seed=spec.get("seed", 0) + 1))
        start_ok = start_bounds(spec, m)
        bad = []
        for st in steps:
            if st.get("clone", True):
                m = m.clone()
            r = do_step(spec, m, st, start_ok, oracle=False)
            if r.applied is None:
                break
            tk = dict(r.ret) if isinstance(r.ret, dict) else {}
            t = t.clone()
            rt = do_step(spec, t, {"method": r.applied, "kwargs": tk, "seed": 1}, start_ok)
            print(json.dumps({"method": st["method"], "applied": r.applied, "kwargs": {k: int(v) for k, v in tk.items()},
                              "twin_problems": rt.problems}))
            bad += rt.problems
            if summary(spec, t) != summary(spec, m):
                t = m.clone()
        if bad:
            print(f"VIOLATION property=C03 replay={path}")
            return 1
        return 0
    res = run_chain(chk, spec, steps, policy)
    print(json.dumps({"steps": [(s["method"], s.get("kwargs", {})) for s in steps], "applied": res["applied"],
                      "oracle_problems": res["problems"], "diff_at": res["diff"],
                      "impl": res["impl"][-4:], "model": res["model"][-4:]}, indent=1, default=str))
    if res["problems"]:
        print(f"VIOLATION property=C03 replay={path}")
        return 1
    if res["diff"] is not None:
        print(f"VIOLATION property=C03 replay={path} no-failing-input-found")
        return 1
    return 0
