"""
C04 — mutations reuse learned weights; an unchanged architecture computes the same function;
cloning reproduces outputs.

Correspondence (against `Model/Preserve.lean`, driver token `preserve`):

* `index`     : row-major addressing (`offset`, `unravel`, out-of-bounds rejection) against torch/numpy.
* `pure`      : the real `EvolvableModule.preserve_parameters` / `EvolvableCNN.shrink_preserve_parameters`
                on synthetic modules whose elements carry provenance tags, random pairs of shapes of every
                rank 0..4 (equal shape, grown, shrunk, mixed, zero-sized, rank mismatch, missing keys,
                keys containing "norm"); the decoded provenance map (old@k / fresh per flat index, or
                "raises") must equal the driver's.
* `mutation`  : real EvolvableMLP / CNN (2d, 3d) / LSTM / SimBa / ResNet / MultiInput and QNetwork,
                RainbowQNetwork, ContinuousQNetwork, DeterministicActor, StochasticActor, ValueNetwork
                (vector / image / dict / sequence observations, SimBa and LSTM encoders), weights
                randomised (optionally trained for two steps), then a chain of
                clone | advertised mutation method (with or without explicit arguments, or re-applied to a
                second network with the arguments the first one returned, as `Mutations.architecture_mutate`
                does) | `recreate_network()`.  After every step each parameter and buffer of the new
                network is compared element-wise with the driver's provenance map computed from
                (key, old shape, new shape): `old@k` entries must be bit-equal to element k of the old
                tensor, `fresh` entries are unconstrained.
* `agent`     : rounds of `Mutations.mutation` of every kind (none, architecture, parameters, activation, rl_hp) on
                real single- and multi-agent algorithms built by agents.py (list-valued evaluation groups of
                MADDPG / MATD3 / IPPO included); after every round each shared / target network must be bit-equal,
                tensor by tensor (walker.module_tensors), to the evaluation network it shadows.
* `ma`        : `Mutations.architecture_mutate` on real MADDPG / MATD3 / IPPO agents with three sub-agents of different
                observation sizes (where the algorithm allows) and differently randomised weights: every new tensor of
                sub-agent i against the provenance map over sub-agent i's OLD tensors, and shown NOT to be sub-agent
                j's old values; `reinit_from_mutated` on the list: target i bit-equal to evaluation network i and
                different from evaluation network j; every `MutationContext.__exit__` observed (module, depth, method,
                applied method, wrapper, hook) and the number of `recreate_network` calls it makes compared with the
                decorator model (`preserve deco …`: `Deco.enter / wrapBody / exit`) — inner exits never re-create, an
                outermost exit exactly once iff the applied method is the module's own and it is no wrapper.

Oracle (independent of the Lean model): the statement itself — every same-named parameter (and
buffer, see assumptions) keeps its values on the common index range; `module(x)` is bit-equal before
and after a step that changed no name and no shape (eval and training mode); `clone()(x) == module(x)` in eval
AND training mode under the same RNG state, and every tensor the clone holds (parameters, all buffers including
non-persistent ones, plain tensor attributes) equals the original's bit for bit; a method changes the architecture
hyperparameters of its own module only.

Source translation (`pre_gate`, before the Lean gate): `py2lean_preserve.py` translates the source text of
`EvolvableModule.preserve_parameters`, `EvolvableCNN.shrink_preserve_parameters` (dicts of named parameters and
buffers, the loop, the per-tensor branch, the slice tuples, the copies) and of the methods that wire them
(`EvolvableModule.clone`, `EvolvableCNN.recreate_network`, `EvolvableMultiInput.recreate_network`,
`EvolvableNetwork.recreate_encoder`, `Mutations.reinit_from_mutated`) of the tree under test into
`lean/Gen/PreserveGen.lean`; `Proofs/PreserveGenEq.lean` proves the generated definitions equal to the model
(`preserveKey` / `preserveNet` / `recreate` with `NormPolicy.slice`, `BufPolicy.carry`, `clone`) and
`Props/C04.lean` restates the common-box / whole-copy / missing-key / no-op / clone theorems over them
(`C04_source_translation_*`).  If the translator rejects the source or those proofs stop checking, that is a
gate problem naming the broken declaration; the suites below then supply the failing input if there is one
(the `pure` suite runs the two carry functions on tagged parameters AND buffers).
`py2lean_preservema.py` does the same for the list branch of `Mutations.load_state_dicts / reinit_from_mutated /
_apply_arch_mutation`, the clone comprehension of `get_offspring_eval_modules` and for `MutationContext` /
`_mutation_wrapper` (`lean/Gen/PreserveMaGen.lean`, `Proofs/PreserveMaGenEq.lean`, `C04_source_translation_list_*` /
`C04_source_translation_decorator_*`); the `ma` and `agent` suites supply the failing input.
"""
from __future__ import annotations

import copy
import inspect
import json
import random

import numpy as np
import torch

import common
import py2lean_preserve
import py2lean_preservema
from common import ROOT, Check, InfraError, ddmin

FID_NORM = "C04-norm-params-reset-on-resize"
FID_BUF = "C04-buffers-reset-on-recreate"
FID_DISTCLONE = "C04-distribution-clone-drops-log-std"
FID_STALE = "C04-stale-nested-mutation-methods"
NOISE_BUFFERS = ("weight_epsilon", "bias_epsilon")     # NoisyLinear noise: a random draw, not a learned value

torch.set_num_threads(1)


# ----------------------------------------------------------------------------- driver helpers
def shape_words(s) -> str:
    s = [int(d) for d in s]
    return " ".join([str(len(s))] + [str(d) for d in s])


def numel(s) -> int:
    n = 1
    for d in s:
        n *= int(d)
    return n


def decode_prov(line: str, n_new: int):
    """driver answer -> None (raises) | int64 array of length n_new: source flat index, -1 = fresh"""
    if line == "reject":
        return None
    if line == "bad-op":
        raise InfraError("driver answered bad-op to a preserve query")
    w = line.split()
    if w[0] == "alias":
        if int(w[1]) != n_new:
            raise InfraError(f"alias length {w[1]} != {n_new}")
        return np.arange(n_new, dtype=np.int64)
    if w[0] == "missing":
        return np.full(n_new, -1, dtype=np.int64)
    if w[0] == "empty":
        return np.zeros(0, dtype=np.int64)
    parts = []
    for seg in w:
        if seg[0] == "f":
            parts.append(np.full(int(seg[2:]), -1, dtype=np.int64))
        elif seg[0] == "o":
            a, b = seg[1:].split("+")
            parts.append(np.arange(int(a), int(a) + int(b), dtype=np.int64))
        else:
            raise InfraError(f"unparsable provenance segment {seg!r}")
    out = np.concatenate(parts) if parts else np.zeros(0, dtype=np.int64)
    if len(out) != n_new:
        raise InfraError(f"provenance map has {len(out)} entries for {n_new} elements")
    return out


# ----------------------------------------------------------------------------- suite: index
def suite_index(chk: Check, n: int) -> None:
    rng = chk.rng
    lines, expect, keys = [], [], []
    for _ in range(n):
        rank = rng.randint(0, 4)
        shape = [rng.randint(1, 5) for _ in range(rank)]
        ne = numel(shape)
        mode = rng.random()
        if mode < 0.5:
            idx = [rng.randrange(d) for d in shape]
            ref = int(torch.arange(ne).reshape(shape)[tuple(idx)].item()) if rank else 0
            lines.append(f"preserve offset {shape_words(shape)} " + " ".join(map(str, idx)))
            expect.append(str(ref))
        elif mode < 0.7:
            # out of bounds / wrong rank: torch raises IndexError
            idx = [rng.randrange(d) for d in shape]
            if rank and rng.random() < 0.7:
                j = rng.randrange(rank)
                idx[j] = shape[j] + rng.randint(0, 2)
            else:
                idx = idx + [0]
            try:
                torch.arange(ne).reshape(shape)[tuple(idx)]
                ref = "accepted"
            except IndexError:
                ref = "reject"
            lines.append(f"preserve offset {shape_words(shape)} " + " ".join(map(str, idx)))
            expect.append(ref)
        else:
            k = rng.randrange(ne)
            ref = [int(v) for v in np.unravel_index(k, shape)] if rank else []
            lines.append(f"preserve unravel {k} {shape_words(shape)}")
            expect.append(" ".join(map(str, ref)))
        keys.append(lines[-1])
    out = chk.driver.run(["reset"] + [ln.rstrip() for ln in lines])[1:]
    nd = 0
    for ln, e, o in zip(lines, expect, out):
        chk.case(["index", ln], nontrivial=True, tags=["index"])
        if e != o:
            nd += 1
            chk.violation(f"row-major addressing: torch says {e!r}, model says {o!r} for `{ln}`",
                          {"suite": "index", "line": ln, "impl": e, "model": o,
                           "correspondence": "harness/c04.py index vs Model/Preserve.lean offset/unravel"},
                          no_input=True)
    chk.suite("index", len(lines), nd)


# ----------------------------------------------------------------------------- suite: pure preserve
class _Holder(torch.nn.Module):
    def __init__(self, entries, sign):
        super().__init__()
        for key, shape, *buf in entries:
            n = numel(shape)
            # old elements are tagged k (>= 0), new elements -(k+1): exact in float64
            base = torch.arange(n, dtype=torch.float64)
            t = (base if sign > 0 else -(base + 1)).reshape(shape)
            if buf and buf[0]:
                self.register_buffer(key, t)          # e.g. BatchNorm running statistics
            else:
                self.register_parameter(key, torch.nn.Parameter(t))


def _kinds(entry) -> tuple:
    """(old is a buffer, new is a buffer) of a pure-suite entry [name, old shape, new shape, kinds?]"""
    k = entry[3] if len(entry) > 3 else "pp"
    return k[0] == "b", k[1] == "b"


# directed cases of the pure suite: buffers are carried over like parameters (the source adds named_buffers()
# to both dicts), also next to parameters, in both carry functions, and across the parameter / buffer divide
DIRECTED_PURE = [
    {"suite": "pure", "mode": "full", "entries": [["bn_running_mean", [2], [3], "bb"], ["w", [2, 3], [3, 4], "pp"]]},
    {"suite": "pure", "mode": "full", "entries": [["bn_running_var", [4], [4], "bb"], ["bn_num_batches_tracked", [], [], "bb"]]},
    {"suite": "pure", "mode": "shrink", "entries": [["bn_running_mean", [5], [3], "bb"], ["conv_weight", [5, 2, 3, 3], [3, 2, 3, 3], "pp"]]},
    {"suite": "pure", "mode": "full", "entries": [["stat", [3], [2], "pb"], ["gain", [2], [3], "bp"]]},
    {"suite": "pure", "mode": "full", "entries": [["only_new_buf", None, [2], "bb"], ["only_old_buf", [2], None, "bb"], ["w", [1, 2], [2, 2], "pp"]]},
]


def gen_pair(rng: random.Random):
    rank = rng.choice([0, 1, 1, 2, 2, 2, 3, 4, 4])
    new = [rng.choice([0, 1, 1, 2, 3, 4, 5]) for _ in range(rank)]
    mode = rng.random()
    if mode < 0.15:
        old = list(new)
    elif mode < 0.75:
        old = [max(0, d + rng.choice([-2, -1, 0, 0, 1, 2, 3])) for d in new]
    elif mode < 0.85 and rank >= 3:
        old = [max(1, d + rng.choice([-1, 0, 1])) for d in new[:2]] + [rng.choice([1, d, d + 1]) for d in new[2:]]
    else:
        r2 = max(0, rank + rng.choice([-2, -1, 1, 1]))
        old = [rng.choice([1, 1, 2, 3, 4]) for _ in range(r2)]
        if rng.random() < 0.5 and new and old:
            # make broadcasting plausible
            old[-1] = rng.choice([1, new[-1]])
    return old, new


def run_pure_case(chk: Check, case: dict):
    """returns (problems, diffs, tags, impl_lines, model_lines)"""
    from agilerl.modules.base import EvolvableModule
    from agilerl.modules.cnn import EvolvableCNN
    fn = EvolvableModule.preserve_parameters if case["mode"] == "full" else EvolvableCNN.shrink_preserve_parameters
    old_entries = [(e[0], e[1], _kinds(e)[0]) for e in case["entries"] if e[1] is not None]
    new_entries = [(e[0], e[2], _kinds(e)[1]) for e in case["entries"] if e[2] is not None]
    impl, problems, diffs, tags = {}, [], [], []
    # the loop of preserve_parameters stops at the first key that raises: run key by key so that every
    # key is observed (the model is per key as well)
    for key, nshape, nbuf in new_entries:
        old = _Holder(old_entries, +1)
        new = _Holder([(key, nshape, nbuf)], -1)
        if nbuf:
            tags.append("pure-buffer")
        try:
            res = fn(old, new)
            t = {**dict(res.named_parameters()), **dict(res.named_buffers())}[key].detach().reshape(-1)
            v = t.to(torch.float64).numpy()
            src = np.where(v >= 0, v, -1).astype(np.int64)
            own = np.arange(len(v), dtype=np.int64)
            if not np.all((v >= 0) | (v == -(own + 1))):
                problems.append(f"{key}: an element kept neither an old value nor its own fresh value")
            impl[key] = src
        except (RuntimeError, IndexError) as e:
            impl[key] = None
            tags.append("pure-raises")
    old_entries = [(k, s_) for k, s_, _ in old_entries]
    new_entries = [(k, s_) for k, s_, _ in new_entries]
    lines = ["preserve clear"] + [f"preserve old {k} {shape_words(s)}" for k, s in old_entries]
    q = []
    for pol in ("slice", "reset"):
        for key, nshape in new_entries:
            q.append((pol, key, nshape))
            lines.append(f"preserve new {pol} {case['mode']} {key} {shape_words(nshape)}")
    out = chk.driver.run(["reset"] + lines)[1 + 1 + len(old_entries):]
    model = {}
    for (pol, key, nshape), o in zip(q, out):
        model[(pol, key)] = decode_prov(o, numel(nshape))
    odict = dict(old_entries)
    for key, nshape in new_entries:
        a, want, cur = impl[key], model[("slice", key)], model[("reset", key)]

        def same(x, y):
            return (x is None and y is None) or (x is not None and y is not None and np.array_equal(x, y))
        oshape = odict.get(key)
        if oshape is not None and len(oshape) == len(nshape) and a is None and \
                (case["mode"] == "full" or (len(nshape) >= 1 and list(oshape[2:]) == list(nshape[2:]))):
            # oracle: a tensor that exists before and after (same rank, unsliced axes unchanged) must be carried over
            problems.append(f"{key}: old {oshape} -> new {nshape}: the carry function raises instead of copying the common index range")
        if oshape is not None and len(oshape) == len(nshape) and a is not None:
            # oracle: the statement itself on the tags
            sl = tuple(slice(0, min(o, n)) for o, n in zip(oshape, nshape))
            ref_old = np.arange(numel(oshape)).reshape(oshape)[sl]
            got = a.reshape(nshape)[sl]
            if not np.array_equal(ref_old, got):
                if "norm" in key and list(oshape) != list(nshape):
                    tags.append("hit:" + FID_NORM)
                else:
                    problems.append(f"{key}: old {oshape} -> new {nshape}: common index range not preserved")
        if same(a, want):
            tags.append("pure-agree")
        elif same(a, cur) and "norm" in key:
            tags.append("hit:" + FID_NORM)
        else:
            diffs.append(f"{key}: old {oshape} new {nshape} mode {case['mode']}: "
                         f"impl={'raises' if a is None else a.tolist()} "
                         f"model={'raises' if want is None else want.tolist()}")
        if oshape is None:
            tags.append("pure-missing-key")
        elif len(oshape) != len(nshape):
            tags.append("pure-rank-mismatch")
        elif list(oshape) == list(nshape):
            tags.append("pure-same-shape")
        else:
            tags.append("pure-resized")
    return problems, diffs, tags


def suite_pure(chk: Check, n: int) -> set:
    rng = chk.rng
    krng = random.Random(chk.seed * 7919 + 13)       # parameter / buffer kinds: a stream of their own
    cases = [copy.deepcopy(c) for c in DIRECTED_PURE]
    for f in sorted((ROOT / "corpus" / "C04").glob("pure_*.json")):
        cases.append(json.loads(f.read_text()))
    for _ in range(n):
        entries = []
        for j in range(rng.randint(1, 4)):
            old, new = gen_pair(rng)
            name = rng.choice(["w", "lin_weight", "layer_norm_w", "norm", "bn1_w", "batchnorm_b"]) + str(j)
            r = rng.random()
            kind = krng.choice(["pp"] * 14 + ["bb"] * 4 + ["pb", "bp"])
            entries.append([name, None if r < 0.08 else old, None if 0.08 <= r < 0.16 else new, kind])
        cases.append({"suite": "pure", "mode": rng.choice(["full", "full", "shrink"]), "entries": entries})
    nd, all_hits = 0, set()
    for case in cases:
        problems, diffs, tags = run_pure_case(chk, case)
        chk.case(["pure", case], nontrivial=any(t in ("pure-resized", "pure-rank-mismatch") for t in tags),
                 sample=case, tags=[t for t in tags if not t.startswith("hit:")] + ["pure-" + case["mode"]])
        all_hits |= report(chk, case, problems, diffs, {t[4:] for t in tags if t.startswith("hit:")}, None)
        nd += bool(diffs)
    chk.suite("preserve-pure", len(cases), nd)
    return all_hits


# ----------------------------------------------------------------------------- real modules
def _space(desc):
    from gymnasium import spaces
    t = desc[0]
    if t == "box":
        return spaces.Box(-1.0, 1.0, tuple(desc[1]), np.float32)
    if t == "img":
        return spaces.Box(0.0, 1.0, tuple(desc[1]), np.float32)
    if t == "disc":
        return spaces.Discrete(desc[1])
    if t == "mdisc":
        return spaces.MultiDiscrete(desc[1])
    if t == "dict":
        return spaces.Dict({k: _space(v) for k, v in desc[1].items()})
    if t == "tuple":
        return spaces.Tuple([_space(v) for v in desc[1]])
    raise KeyError(t)


def _sample(space, n: int, gen: torch.Generator):
    from gymnasium import spaces
    if isinstance(space, spaces.Dict):
        return {k: _sample(s, n, gen) for k, s in space.spaces.items()}
    if isinstance(space, spaces.Tuple):
        return tuple(_sample(s, n, gen) for s in space.spaces)
    if isinstance(space, spaces.Discrete):
        return torch.randint(0, int(space.n), (n,), generator=gen)
    if isinstance(space, spaces.MultiDiscrete):
        return torch.stack([torch.randint(0, int(k), (n,), generator=gen) for k in space.nvec], dim=1)
    return torch.rand((n, *space.shape), generator=gen) * 2 - 1


NET_CLASSES = {"q": "QNetwork", "rainbow": "RainbowQNetwork", "cq": "ContinuousQNetwork",
               "det": "DeterministicActor", "sto": "StochasticActor", "val": "ValueNetwork"}


ENCODER_CLASSES = {"EvolvableMLP": "agilerl.modules.mlp", "EvolvableSimBa": "agilerl.modules.simba",
                   "EvolvableCNN": "agilerl.modules.cnn", "EvolvableLSTM": "agilerl.modules.lstm"}


def _encoder_class(name: str):
    import importlib
    return getattr(importlib.import_module(ENCODER_CLASSES[name]), name)


def _net_class(kind: str):
    import agilerl.networks.actors as A
    import agilerl.networks.q_networks as Q
    import agilerl.networks.value_networks as V
    name = NET_CLASSES[kind]
    return getattr(Q, name, None) or getattr(A, name, None) or getattr(V, name)


def make(spec: dict):
    """the real module described by `spec` (freshly initialised)"""
    kind, cfg = spec["kind"], copy.deepcopy(spec["cfg"])
    if kind == "mlp":
        from agilerl.modules.mlp import EvolvableMLP
        return EvolvableMLP(**cfg)
    if kind == "cnn":
        from agilerl.modules.cnn import EvolvableCNN
        return EvolvableCNN(**cfg)
    if kind == "cnn3d":
        from agilerl.modules.cnn import EvolvableCNN
        depth = cfg.pop("depth")
        c, h, w = cfg["input_shape"]
        return EvolvableCNN(block_type="Conv3d", sample_input=torch.zeros(1, c, depth, h, w), **cfg)
    if kind == "lstm":
        from agilerl.modules.lstm import EvolvableLSTM
        return EvolvableLSTM(**cfg)
    if kind == "simba":
        from agilerl.modules.simba import EvolvableSimBa
        return EvolvableSimBa(**cfg)
    if kind == "resnet":
        from agilerl.modules.resnet import EvolvableResNet
        return EvolvableResNet(**cfg)
    if kind == "gpt":
        from agilerl.modules.gpt import EvolvableGPT
        return EvolvableGPT(**cfg)
    if kind == "multi":
        from agilerl.modules.multi_input import EvolvableMultiInput
        return EvolvableMultiInput(observation_space=_space(cfg.pop("obs")), **cfg)
    if kind in NET_CLASSES:
        cls = _net_class(kind)
        obs = _space(cfg.pop("obs"))
        if cfg.get("encoder_cls") in ENCODER_CLASSES:          # a user supplied encoder class
            cfg["encoder_cls"] = _encoder_class(cfg["encoder_cls"])
        args = {}
        if kind != "val":
            args["action_space"] = _space(cfg.pop("act"))
        if kind == "rainbow":
            atoms = cfg.pop("atoms")
            args.update(support=torch.linspace(-2.0, 2.0, atoms), num_atoms=atoms)
        return cls(obs, **args, **cfg)
    raise KeyError(kind)


def obs_of(spec: dict, m):
    kind, cfg = spec["kind"], spec["cfg"]
    from gymnasium import spaces
    if kind == "mlp" or kind == "simba":
        return spaces.Box(-1, 1, (cfg["num_inputs"],), np.float32)
    if kind in ("cnn", "resnet"):
        return spaces.Box(0, 1, tuple(cfg["input_shape"]), np.float32)
    if kind == "cnn3d":
        c, h, w = cfg["input_shape"]
        return spaces.Box(0, 1, (c, cfg["depth"], h, w), np.float32)
    if kind == "lstm":
        return spaces.Box(-1, 1, (3, cfg["input_size"]), np.float32)
    if kind == "gpt":
        return spaces.MultiDiscrete([cfg["vocab_size"]] * min(4, cfg["block_size"]))     # token ids
    return _space(cfg["obs"])


def forward(spec: dict, m, x, seed: int, train: bool = False):
    """deterministic readout of the function the module computes: eval mode (default) or training mode
    (NoisyLinear adds its noise buffers, BatchNorm uses batch statistics), same RNG state before the call.
    The module is left exactly as it was: mode restored, buffers a training-mode pass updates put back."""
    was = m.training
    saved = [(b, b.detach().clone()) for b in m.buffers()] if train else []
    m.train(train)
    torch.manual_seed(seed)
    try:
        with torch.no_grad():
            if spec["kind"] == "cq":
                n = next(iter(x.values())).shape[0] if isinstance(x, dict) else (x[0].shape[0] if isinstance(x, tuple) else x.shape[0])
                a = torch.linspace(-1, 1, n * m.num_actions).reshape(n, m.num_actions)
                y = m(x, a)
            else:
                y = m(x)
    finally:
        m.train(was)
        with torch.no_grad():
            for b, v in saved:
                b.copy_(v)
    ys = y if isinstance(y, (tuple, list)) else [y]
    return [t.detach().clone() for t in ys if isinstance(t, torch.Tensor)]


def outputs_differ(y0, y1) -> bool:
    return len(y0) != len(y1) or any(a.shape != b.shape or not torch.equal(a, b) for a, b in zip(y0, y1))


def randomize(m, seed: int) -> None:
    g = torch.Generator().manual_seed(seed)
    with torch.no_grad():
        for p in m.parameters():
            p.copy_(torch.randn(p.shape, generator=g) * 0.5)
        for name, b in m.named_buffers():
            if not b.dtype.is_floating_point or name.endswith(NOISE_BUFFERS):
                continue
            if name.endswith("running_var"):
                b.copy_(torch.rand(b.shape, generator=g) + 0.5)
            else:
                b.copy_(torch.randn(b.shape, generator=g))


def train_steps(spec: dict, m, seed: int, steps: int) -> None:
    """a few SGD steps on a random regression target (train mode: BatchNorm statistics move)"""
    g = torch.Generator().manual_seed(seed)
    params = [p for p in m.parameters() if p.requires_grad]
    if not params:
        return
    opt = torch.optim.SGD(params, lr=0.05)
    m.train()
    for _ in range(steps):
        x = _sample(obs_of(spec, m), 5, g)
        torch.manual_seed(seed)
        if spec["kind"] == "cq":
            y = m(x, torch.zeros(5, m.num_actions))
        else:
            y = m(x)
        ys = [t for t in (y if isinstance(y, (tuple, list)) else [y]) if isinstance(t, torch.Tensor) and t.requires_grad]
        if not ys:
            return
        loss = sum((t.float() ** 2).mean() for t in ys)
        opt.zero_grad()
        loss.backward()
        opt.step()


def snapshot(m):
    P = {k: v.detach().clone() for k, v in m.named_parameters(remove_duplicate=False)}     # tied names listed too
    B = {k: v.detach().clone() for k, v in m.named_buffers()}
    return P, B


def resolve_method(m, name: str):
    obj = m
    parts = name.split(".")
    for p in parts[:-1]:
        obj = getattr(obj, p)
    return obj, getattr(obj, parts[-1])


def step_mode(m, name: str) -> str:
    try:
        _, meth = resolve_method(m, name)
        return "shrink" if getattr(meth, "_recreate_kwargs", {}).get("shrink_params") else "full"
    except AttributeError:
        return "full"


def compare_step(chk: Check, P0, B0, P1, B1, mode: str):
    """-> (problems, diffs, hits, tags): provenance correspondence + the statement itself"""
    problems, diffs, hits, tags = [], [], set(), []
    lines, queries = [], []
    for cls, old, new in (("param", P0, P1), ("buffer", B0, B1)):
        keys = [k for k in new if not (cls == "buffer" and k.endswith(NOISE_BUFFERS))]
        lines += ["preserve clear"] + [f"preserve old {k} {shape_words(v.shape)}" for k, v in old.items()]
        for k in keys:
            queries.append((cls, k, len(lines)))
            lines.append(f"preserve new slice {mode} {k} {shape_words(new[k].shape)}")
    out = chk.driver.run(["reset"] + lines)[1:]
    chk.corr["model_lines"] += len(lines)
    for cls, k, pos in queries:
        old, new = (P0, P1) if cls == "param" else (B0, B1)
        t1 = new[k]
        src = decode_prov(out[pos], t1.numel())
        t0 = old.get(k)
        resized = t0 is not None and tuple(t0.shape) != tuple(t1.shape)
        if t0 is None:
            tags.append(f"{cls}-new-key")
        elif resized:
            tags.append(f"{cls}-resized")
        # --- correspondence
        bad = None
        if src is None:
            bad = "model says the real code raises here, but it did not"
        else:
            idx = np.nonzero(src >= 0)[0]
            if len(idx):
                a = t1.reshape(-1)[torch.from_numpy(idx)]
                b = t0.reshape(-1)[torch.from_numpy(src[idx])]
                if not torch.equal(a, b):
                    nbad = int((a != b).sum())
                    bad = f"{nbad} of {len(idx)} elements that the model takes from the old tensor differ"
        # --- oracle (statement itself, independent of the model)
        obad = None
        if t0 is not None and t0.dim() == t1.dim():
            sl = tuple(slice(0, min(a, b)) for a, b in zip(t0.shape, t1.shape))
            if not torch.equal(t0[sl], t1[sl]):
                obad = (f"common index range {[s_.stop for s_ in sl]} of {cls} {k} (old {list(t0.shape)}, "
                        f"new {list(t1.shape)}) not preserved")
        if bad or obad:
            if cls == "param" and "norm" in k and resized:
                hits.add(FID_NORM)
            elif cls == "buffer":
                hits.add(FID_BUF)
            elif obad:
                problems.append(obad)
            else:
                diffs.append(f"{k}: {bad}")
    return problems, diffs, hits, tags


def same_arch(S0, S1) -> bool:
    return list(S0) == list(S1) and all(S0[k].shape == S1[k].shape for k in S0)


def check_clone(chk: Check, spec, m, x, seed: int, label: str, light: bool = False):
    """clone oracle + (unless `light`) strict-load correspondence; -> (problems, diffs, clone or None)"""
    problems, diffs = [], []
    try:
        c = m.clone()
    except AssertionError as e:
        if "must be an integer" in str(e):       # DESIGN D21 (C03): np.int64 channel size after a ResNet fallback
            chk.dist["clone-blocked-by-D21"] += 1
            return [], [], None
        return [f"{label}: clone() raised AssertionError: {e}"], [], None
    except Exception as e:
        return [f"{label}: clone() raised {type(e).__name__}: {e}"], [], None
    sd0, sd1 = m.state_dict(), c.state_dict()
    if list(sd0) != list(sd1):
        problems.append(f"{label}: clone has different state_dict keys")
    else:
        for k in sd0:
            if sd0[k].shape != sd1[k].shape or not torch.equal(sd0[k], sd1[k]):
                problems.append(f"{label}: clone differs from the original in {k}")
                break
            if sd0[k].numel() and sd0[k].data_ptr() == sd1[k].data_ptr():
                problems.append(f"{label}: clone shares storage of {k} with the original")
                break
    # every tensor the module holds, not only what state_dict() lists (non-persistent buffers!)
    import walker
    t0, t1 = walker.module_tensors(m), walker.module_tensors(c)
    if list(t0) != list(t1):
        problems.append(f"{label}: clone holds different tensors: {sorted(set(t0) ^ set(t1))[:4]}")
    else:
        for k in t0:
            if t0[k].shape != t1[k].shape or not torch.equal(t0[k], t1[k]):
                kind_ = "buffer" if k in dict(m.named_buffers()) else "tensor"
                problems.append(f"{label}: clone differs from the original in {kind_} {k}"
                                + ("" if k in sd0 else " (not in state_dict())"))
                break
    for train in (False, True):
        try:
            y0, y1 = forward(spec, m, x, seed, train), forward(spec, c, x, seed, train)
        except InfraError:
            raise
        except Exception as e:          # the module (or its clone) cannot compute any more
            problems.append(f"{label}: forward pass of the module / its clone raised {type(e).__name__}: {str(e)[:160]}")
            break
        if outputs_differ(y0, y1):
            problems.append(f"{label}: clone()(x) != module(x) in {'training' if train else 'eval'} mode")
    if light:
        return problems, diffs, c
    # model: strict load of the state dict into a module rebuilt from init_dict
    try:
        fresh = type(m)(**copy.deepcopy(m.init_dict))
        fsd = fresh.state_dict()
        lines = ["preserve clear"] + [f"preserve old {k} {shape_words(v.shape)}" for k, v in sorted(sd0.items())]
        lines += [f"preserve tgt {k} {shape_words(v.shape)}" for k, v in sorted(fsd.items())] + ["preserve load"]
        ans = chk.driver.run(["reset"] + lines)[-1]
        try:
            fresh.load_state_dict(sd0)
            real = "ok"
        except RuntimeError:
            real = "reject"
        if ans != real:
            diffs.append(f"{label}: strict load_state_dict into cls(**init_dict): impl={real} model={ans}")
        if real == "reject":
            problems.append(f"{label}: cls(**init_dict) does not accept the module's own state_dict "
                            f"(clone() swallows this and keeps fresh weights)")
    except AssertionError as e:
        if "must be an integer" not in str(e):
            problems.append(f"{label}: cls(**init_dict) raised {e}")
    return problems, diffs, c


def gen_kwargs(rng: random.Random, spec: dict, m, name: str):
    """explicit arguments for a mutation method (None = let the method draw them with np.random)"""
    try:
        _, meth = resolve_method(m, name)
        params = inspect.signature(meth).parameters
    except (AttributeError, ValueError, TypeError):
        return None
    must = spec["kind"] in ("resnet", "gpt") or (spec["kind"] in NET_CLASSES and spec["cfg"].get("encoder_cls") == "ResNet")
    if not must and rng.random() < 0.45:
        return None
    kw = {}
    for p in params:
        if p == "hidden_layer":
            kw[p] = rng.randint(0, 3)
        elif p in ("numb_new_nodes", "numb_new_channels"):
            kw[p] = rng.choice([1, 2, 3, 4, 8, 16])
        elif p == "kernel_size":
            if spec["kind"] != "cnn3d" and not name.startswith("encoder") and "feature_net" not in name:
                kw[p] = rng.choice([1, 2, 3])
    if name.endswith("change_kernel"):
        if "kernel_size" in kw:
            kw["hidden_layer"] = 1          # valid whenever the method does not fall back to add_layer
        else:
            kw.pop("hidden_layer", None)
    return kw or None


HYPER_ATTRS = ("hidden_size", "channel_size", "kernel_size", "stride_size", "num_layers", "num_blocks",
               "latent_dim", "scale_factor", "n_layer", "dim_feedfwd")


def hyper(m) -> dict:
    """{module path: {architecture hyperparameter: value}} of a module and its nested evolvable modules"""
    from agilerl.modules.base import EvolvableModule
    out = {}
    for n, mod in torch.nn.Module.named_modules(m):
        if isinstance(mod, EvolvableModule):
            d = {}
            for a in HYPER_ATTRS:
                try:
                    v = getattr(mod, a)
                except Exception:
                    continue
                if isinstance(v, (int, np.integer, list, tuple)):
                    d[a] = json.loads(json.dumps(v, default=lambda o: int(o)))
            out[n] = d
    return out


def locality_problems(H0: dict, H1: dict, op: str, name: str) -> list:
    """a mutation method owned by module M may change M's own hyperparameters only:
    * modules outside M's subtree keep theirs;
    * `add_latent_node` / `remove_latent_node` change nothing but `latent_dim` of M, and
      `recreate_network()` changes nothing at all - so M's descendants keep theirs too."""
    owner = "" if op == "recreate" else ".".join(name.split(".")[:-1])
    leaf = name.split(".")[-1]
    strict = op == "recreate" or leaf in ("add_latent_node", "remove_latent_node")
    bad = []
    for n in H0:
        if n not in H1:
            continue
        is_owner = n == owner
        ancestor = owner == n or owner.startswith(n + ".") or n == ""
        inside = n == owner or owner == "" or n.startswith(owner + ".")
        if is_owner and not (op == "recreate"):
            if strict:
                a = {k: v for k, v in H0[n].items() if k != "latent_dim"}
                b = {k: v for k, v in H1[n].items() if k != "latent_dim"}
                if a != b:
                    bad.append(f"{name} changed {a} -> {b} of its own module {n or '<root>'}")
            continue
        if ancestor and not is_owner and op != "recreate":
            continue                      # an ancestor's view of the owner (e.g. wrapper properties)
        if inside and not strict:
            continue                      # a method may propagate into its own sub-modules (dueling head)
        if H0[n] != H1[n]:
            bad.append(f"{name} silently changed the architecture of {n or '<root>'}: {H0[n]} -> {H1[n]}")
    return bad


ACTIVATIONS = ["Tanh", "ReLU", "ELU", "Softsign", "Sigmoid", "Softplus", "LeakyReLU", "PReLU", "GELU"]


def tie_groups(m) -> set:
    """groups of parameter names that share storage (weight tying, e.g. GPT's wte / lm_head)"""
    by_ptr = {}
    for n, p in m.named_parameters(remove_duplicate=False):
        if p.numel():
            by_ptr.setdefault((p.data_ptr(), tuple(p.shape)), []).append(n)
    return {frozenset(v) for v in by_ptr.values() if len(v) > 1}


def tie_problems(T0: set, m, what: str) -> list:
    T1 = tie_groups(m)
    names = {n for n, _ in m.named_parameters(remove_duplicate=False)}
    bad = []
    for g in T0:
        if g <= names and not any(g <= h for h in T1):
            bad.append(f"{what}: parameters {sorted(g)} shared storage before and no longer do (weight tying lost)")
    return bad


def perturb(m, seed: int) -> None:
    """the weights move again after every step (training goes on between mutations): every *named* parameter is
    nudged in place, so tensors that are tied move together and tensors that were silently untied drift apart"""
    g = torch.Generator().manual_seed(seed)
    with torch.no_grad():
        for _, p in m.named_parameters(remove_duplicate=False):
            p.add_(torch.randn(p.shape, generator=g) * 0.02)


class _HookFault(RuntimeError):
    """raised once by the injected mutation hook"""


HYPER_KEYS = set(HYPER_ATTRS) | {"num_outputs", "num_inputs", "input_size", "hidden_layer"}


def _canon(v):
    """JSON-able canonical form of a configuration value"""
    import dataclasses
    if isinstance(v, torch.Tensor):
        return ["tensor", list(v.shape), float(v.double().sum()) if v.numel() else 0.0]
    if isinstance(v, np.ndarray):
        return ["array", list(v.shape), float(v.sum()) if v.size else 0.0]
    if isinstance(v, (bool, int, float, str)) or v is None:
        return v
    if isinstance(v, np.generic):
        return v.item()
    if isinstance(v, type):
        return "class:" + v.__name__
    if dataclasses.is_dataclass(v) and not isinstance(v, type):
        return _canon(dataclasses.asdict(v))
    if isinstance(v, dict):
        return {str(k): _canon(x) for k, x in v.items()}
    if isinstance(v, (list, tuple)):
        return [_canon(x) for x in v]
    return repr(v)


def _flatten(prefix: str, v, out: dict) -> None:
    if isinstance(v, dict):
        for k, x in v.items():
            if k in HYPER_KEYS:
                continue
            _flatten(f"{prefix}.{k}" if prefix else k, x, out)
    else:
        out[prefix] = v


def config_view(m) -> dict:
    """what the module reports about itself, minus the architecture hyperparameters a mutation may change:
    every entry of `init_dict` (recursively) and, for the module and every nested evolvable module, the attribute
    each bool/str/float constructor option is stored under"""
    from agilerl.modules.base import EvolvableModule
    out = {}
    try:
        _flatten("init_dict", _canon(m.init_dict), out)
    except Exception as e:
        out["init_dict"] = f"raised {type(e).__name__}"
    for n, mod in torch.nn.Module.named_modules(m):
        if isinstance(mod, EvolvableModule):
            # the attribute a constructor option is stored under (same name), for every nested module
            try:
                names = [a for a in inspect.signature(type(mod).__init__).parameters if a != "self"]
            except (TypeError, ValueError):
                continue
            for a in names:
                if a in HYPER_KEYS or a.startswith(("min_", "max_")):
                    continue
                try:
                    v = getattr(mod, a)
                except Exception:
                    continue
                if isinstance(v, (bool, str, float)) or v is None:
                    out[f"attr:{n}.{a}"] = v
    return out


def config_problems(C0: dict, C1: dict, what: str) -> list:
    bad = []
    for k in C0:
        if k in C1 and C0[k] != C1[k]:
            bad.append(f"{what} changed the reported option {k}: {C0[k]!r} -> {C1[k]!r}")
    gone = [k for k in C0 if k not in C1 and k.startswith("init_dict")]
    if gone:
        bad.append(f"{what} dropped the reported options {gone[:4]}")
    return bad[:4]


def rebuild_problems(m, label: str) -> list:
    """the live module must agree with a module freshly built from its own init_dict: same parameter and
    buffer names and shapes (otherwise clone() / reinit_from_mutated cannot carry the weights over)"""
    try:
        fresh = type(m)(**copy.deepcopy(m.init_dict))
    except AssertionError as e:
        return [] if "must be an integer" in str(e) else [f"{label}: cls(**init_dict) raised AssertionError: {e}"]
    except Exception as e:
        return [f"{label}: cls(**init_dict) raised {type(e).__name__}: {e}"]
    live = {k: tuple(v.shape) for k, v in list(m.named_parameters(remove_duplicate=False)) + list(m.named_buffers())}
    new = {k: tuple(v.shape) for k, v in list(fresh.named_parameters(remove_duplicate=False)) + list(fresh.named_buffers())}
    if live != new:
        d = [f"{k}: live {live.get(k)} vs rebuilt {new.get(k)}" for k in sorted(set(live) | set(new))
             if live.get(k) != new.get(k)]
        return [f"{label}: the live network no longer is the one its init_dict describes: " + "; ".join(d[:3])]
    return []


def nested_mods(m) -> dict:
    from agilerl.modules.base import EvolvableModule
    return {n: mod for n, mod in torch.nn.Module.named_modules(m) if n and isinstance(mod, EvolvableModule)}


def run_chain(chk: Check, case: dict):
    """re-run a mutation case from scratch.  -> dict(problems, diffs, hits, tags, applied).
    An exception of the implementation outside the guarded steps (e.g. the forward pass of a module that a
    mutation left inconsistent) is a property problem of the case, not a crash of the harness."""
    res = {"problems": [], "diffs": [], "hits": set(), "tags": [], "applied": []}
    try:
        return _run_chain(chk, case, res)
    except InfraError:
        raise
    except Exception as e:
        import traceback
        where = [f for f in traceback.extract_tb(e.__traceback__) if "/agilerl/" in f.filename]
        at = f" at {where[-1].filename.split('/agilerl/')[-1]}:{where[-1].lineno}" if where else ""
        res["problems"].append(f"after {len(res['applied'])} applied step(s) the implementation raised "
                               f"{type(e).__name__}{at}: {str(e)[:160]}")
        res["tags"].append("chain-raised")
        return res


def _run_chain(chk: Check, case: dict, res: dict):
    spec, seed = case["spec"], case["seed"]
    random.seed(seed)
    np.random.seed(seed % (2 ** 32))
    torch.manual_seed(seed)
    m = make(spec)
    m2 = None
    randomize(m, seed + 1)
    if case.get("train"):
        train_steps(spec, m, seed + 2, case["train"])
        res["tags"].append("trained")
    if case.get("pair"):
        torch.manual_seed(seed + 3)
        m2 = make(spec)
        randomize(m2, seed + 4)
    g = torch.Generator().manual_seed(seed + 5)
    x = _sample(obs_of(spec, m), 3, g)
    replaced = [{}, {}]              # nested evolvable modules replaced since the object was built (name -> discarded object)
    events = [[], []]                # outermost mutation calls per object, for the context model
    for si, st in enumerate(case["chain"]):
        op = st["op"]
        label = f"step {si} {op} {st.get('m', '')}".strip()
        if op == "clone" or (op == "mut" and not st.get("inplace", True)):
            # `Mutations.architecture_mutate` mutates a clone of the evaluation network
            p, d, c = check_clone(chk, spec, m, x, seed + si, label)
            res["problems"] += p
            res["diffs"] += d
            res["tags"].append("clone")
            if c is None:
                return res
            res["problems"] += [f"{label}: {t}" for t in config_problems(config_view(m), config_view(c), "clone()")]
            m = c
            replaced[0] = {}
            events[0] = []
            if m2 is not None and op == "mut":
                m2 = m2.clone()
                replaced[1] = {}
                events[1] = []
            if op == "clone":
                continue
        targets = [m] + ([m2] if m2 is not None else [])
        ret, applied = None, None
        for ti, net in enumerate(targets):
            P0, B0 = snapshot(net)
            y0 = forward(spec, net, x, seed)
            y0t = forward(spec, net, x, seed, train=True)
            mods0 = nested_mods(net)
            H0 = hyper(net)
            C0 = config_view(net)
            T0 = tie_groups(net)
            np.random.seed(st["seed"] % (2 ** 32))
            torch.manual_seed(st["seed"])
            try:
                if op == "recreate":
                    net.recreate_network()
                    mode, name = "full", "recreate_network"
                elif op == "act":
                    # an activation mutation is a mutation too (Mutations.activation_mutate calls exactly this)
                    mode, name = "full", "change_activation"
                    out_flag = bool(st.get("output")) and spec["kind"] not in NET_CLASSES
                    try:
                        if "output" in inspect.signature(net.change_activation).parameters:
                            net.change_activation(st["activation"], output=out_flag)
                        else:
                            net.change_activation(st["activation"])
                    except NotImplementedError:
                        # "whether a network can change its activation is only known after trying"
                        # (Mutations.activation_mutation); whatever was changed must still be consistent
                        res["tags"].append("act-unsupported")
                else:
                    if ti == 0:
                        name, kw = st["m"], (st.get("kw") or {})
                    else:
                        # architecture_mutate: the applied method with the returned arguments
                        if applied is None:
                            continue
                        name, kw = applied, (ret if isinstance(ret, dict) else {})
                    if name not in net.mutation_methods:
                        res["tags"].append("method-not-advertised")
                        continue
                    mode = step_mode(net, name)
                    parts = name.split(".")[:-1]
                    stale = [replaced[ti][q] for q in (".".join(parts[:i + 1]) for i in range(len(parts)))
                             if q in replaced[ti]]
                    for o in stale:
                        o.last_mutation_attr = "__c04_sentinel__"
                    fault = st.get("fault") if ti == 0 else None
                    if fault == "badkw":
                        # a call that fails (arguments of another network's mutation replayed on a method
                        # that does not take them), then the valid call on the same object
                        try:
                            getattr(net, name)(**{"c04_unknown_argument": 1})
                            res["tags"].append("fault-not-raised")
                            events[ti].append("o" + str(int(hyper(net) != H0)))
                        except TypeError:
                            res["tags"].append("fault-badkw")
                            events[ti].append("r" + str(int(hyper(net) != H0)))
                    Hc = hyper(net)
                    if fault == "hook":
                        # a user mutation hook of the module that owns the method fails once, after the
                        # mutation itself has been carried out
                        owner = resolve_method(net, name)[0]
                        state = {"n": 0}

                        def flaky():
                            state["n"] += 1
                            if state["n"] == 1:
                                raise _HookFault("transient failure in a user hook")
                        prev = owner._mutation_hook
                        owner.register_mutation_hook(flaky)
                        try:
                            r = getattr(net, name)(**kw)
                            events[ti].append("o" + str(int(hyper(net) != Hc)))
                        except _HookFault:
                            r = None
                            res["tags"].append("fault-hook")
                            events[ti].append("r" + str(int(hyper(net) != Hc)))
                        finally:
                            resolve_method(net, name)[0]._mutation_hook = None
                            owner._mutation_hook = prev
                    else:
                        r = getattr(net, name)(**kw)
                        events[ti].append("o" + str(int(hyper(net) != Hc)))
                    if any(o.last_mutation_attr != "__c04_sentinel__" for o in stale):
                        # the dotted wrapper still acts on a nested module that an earlier recreate
                        # replaced (analysed defect): the live network is now inconsistent, stop here
                        res["tags"].append("stale-dotted-method")
                        res["hits"].add(FID_STALE)
                        return res
                    if ti == 0:
                        ret, applied = r, net.last_mutation_attr
                        res["applied"].append(applied)
            except Exception as e:
                res["problems"].append(f"{label}: raised {type(e).__name__}: {e}")
                return res
            P1, B1 = snapshot(net)
            H1 = hyper(net)
            loc = locality_problems(H0, H1, "recreate" if op == "act" else op, name)
            res["problems"] += [f"{label}: {t}" for t in loc]
            # constructor options and public flags are not architecture: no mutation may change them
            C1 = config_view(net)
            if op == "act":                             # ... except the activation an activation mutation sets
                C0 = {k: v for k, v in C0.items() if "activation" not in k.rsplit(".", 1)[-1]}
                C1 = {k: v for k, v in C1.items() if "activation" not in k.rsplit(".", 1)[-1]}
            res["problems"] += [f"{label}: {t}" for t in config_problems(C0, C1, name)]
            res["problems"] += tie_problems(T0, net, label)
            # configuration and live network stay in step (also after a failed call): model vs. implementation
            rb = rebuild_problems(net, label)
            res["problems"] += rb
            if op == "mut":
                ans = chk.driver.run(["reset", "preserve ctx 0 " + " ".join(events[ti])])[1]
                real = f"{getattr(net, '_mutation_depth', 0)} {0 if rb else 1}"
                chk.corr["model_lines"] += 1
                if ans != real and not rb:
                    res["diffs"].append(f"{label}: mutation context after calls {events[ti]}: (_mutation_depth, in sync) "
                                        f"impl={real} model={ans}")
                elif ans != real:
                    res["problems"].append(f"{label}: after calls {events[ti]} (_mutation_depth, in sync) is {real}, "
                                           f"expected {ans}")
            if H0 == H1:
                res["tags"].append("hyper-unchanged")
                if op != "act" and not (same_arch(P0, P1) and same_arch(B0, B1)):
                    res["problems"].append(f"{label}: no architecture hyperparameter changed, but parameter "
                                           f"names/shapes did: " + "; ".join(
                                               f"{k} {list(P0[k].shape)}->{list(P1[k].shape) if k in P1 else 'gone'}"
                                               for k in P0 if k not in P1 or P0[k].shape != P1[k].shape)[:300])
            mods1 = nested_mods(net)
            for n in mods1:
                if n in mods0 and mods0[n] is not mods1[n]:
                    replaced[ti].setdefault(n, mods0[n])     # the wrappers are bound to the *first* object
            p, d, hits, tags = compare_step(chk, P0, B0, P1, B1, mode)
            res["problems"] += [f"{label}: {t}" for t in p]
            res["diffs"] += [f"{label}: {t}" for t in d]
            res["hits"] |= hits
            res["tags"] += tags + [f"op-{op}", f"mode-{mode}"] + (["second-net"] if ti else [])
            if op == "act":
                res["tags"].append("act-" + st["activation"])
            elif same_arch(P0, P1) and same_arch(B0, B1):
                res["tags"].append("arch-unchanged")
                y1 = forward(spec, net, x, seed)
                if not outputs_differ(y0, y1) and outputs_differ(y0t, forward(spec, net, x, seed, train=True)):
                    res["problems"].append(f"{label}: architecture unchanged but module(x) changed in training mode")
                if outputs_differ(y0, y1):
                    stale = [k for k in B0 if not k.endswith(NOISE_BUFFERS) and not torch.equal(B0[k], B1[k])]
                    same_params = all(torch.equal(P0[k], P1[k]) for k in P0)
                    if stale and same_params:
                        res["hits"].add(FID_BUF)
                    else:
                        res["problems"].append(f"{label}: architecture unchanged but module(x) changed")
            else:
                res["tags"].append("arch-changed")
            perturb(net, st.get("seed", si) + 17)       # training goes on; then the clone oracle
            if not rb:
                p, d, _ = check_clone(chk, spec, net, x, seed + si, label + " (then train, clone)", light=True)
                res["problems"] += p
    p, d, _ = check_clone(chk, spec, m, x, seed + 99, "final")
    res["problems"] += p
    res["diffs"] += d
    return res


# ----------------------------------------------------------------------------- case generation
KINDS = ["mlp", "cnn", "q", "lstm", "multi", "sto", "simba", "resnet", "rainbow", "cnn3d", "cq", "det", "val",
         "gpt", "mlp", "cnn", "multi", "q", "sto", "rainbow"]


def gen_spec(rng: random.Random, kind: str | None = None, fam: str | None = None) -> dict:
    kind = kind or rng.choice(KINDS)
    big = rng.random() < 0.5      # generous upper bounds (methods apply) vs tight ones (methods bound out)
    if kind == "mlp":
        cfg = dict(num_inputs=rng.randint(2, 5), num_outputs=rng.randint(1, 4),
                   hidden_size=[rng.choice([6, 8, 12, 16]) for _ in range(rng.randint(1, 3))],
                   min_hidden_layers=1, max_hidden_layers=3, min_mlp_nodes=4,
                   max_mlp_nodes=200 if big else 20, layer_norm=rng.random() < 0.7,
                   output_layernorm=rng.random() < 0.3, noisy=rng.random() < 0.25,
                   output_vanish=rng.random() < 0.5)
    elif kind in ("cnn", "cnn3d"):
        n = rng.randint(1, 2)
        cfg = dict(input_shape=[rng.randint(1, 3), 12, 12], num_outputs=rng.randint(2, 4),
                   channel_size=[rng.choice([3, 4, 6]) for _ in range(n)],
                   kernel_size=[rng.choice([2, 3]) for _ in range(n)], stride_size=[1] * n,
                   min_hidden_layers=1, max_hidden_layers=3, min_channel_size=2,
                   max_channel_size=64 if big else 8, layer_norm=rng.random() < 0.6)
        if kind == "cnn3d":
            cfg["depth"] = 2
    elif kind == "lstm":
        cfg = dict(input_size=rng.randint(2, 4), hidden_size=rng.choice([6, 8, 12]), num_outputs=rng.randint(2, 4),
                   num_layers=rng.randint(1, 2), min_hidden_size=4, max_hidden_size=200 if big else 16,
                   min_layers=1, max_layers=3)
    elif kind == "simba":
        cfg = dict(num_inputs=rng.randint(2, 5), num_outputs=rng.randint(1, 4), hidden_size=rng.choice([6, 8, 12]),
                   num_blocks=rng.randint(1, 2), scale_factor=2, min_blocks=1, max_blocks=3, min_mlp_nodes=4,
                   max_mlp_nodes=200 if big else 16)
    elif kind == "resnet":
        cfg = dict(input_shape=[rng.randint(1, 3), 8, 8], num_outputs=rng.randint(2, 4), channel_size=rng.choice([3, 4, 6]),
                   kernel_size=rng.choice([2, 3]), stride_size=1, num_blocks=rng.randint(1, 2), scale_factor=2,
                   min_blocks=1, max_blocks=3, min_channel_size=2, max_channel_size=64 if big else 8)
    elif kind == "gpt":
        cfg = dict(n_layer=rng.randint(1, 2), vocab_size=11, n_embd=8, n_head=2, dim_feedfwd=rng.choice([64, 96]),
                   block_size=8, dropout=0.0, min_layers=1, max_layers=2 if not big else 3, bias=rng.random() < 0.5)
    elif kind == "multi":
        members = {"img": ["img", [2, 10, 10]], "vec": ["box", [3]]}
        if rng.random() < 0.4:
            members["vec2"] = ["box", [2]]
        if rng.random() < 0.3:
            members["img2"] = ["img", [1, 10, 10]]
        obs = ["dict", members] if rng.random() < 0.7 else ["tuple", list(members.values())]
        cfg = dict(obs=obs, num_outputs=rng.randint(3, 6), latent_dim=rng.choice([8, 10]),
                   vector_space_mlp=rng.random() < 0.5,
                   cnn_config=dict(channel_size=[4], kernel_size=[3], stride_size=[1], min_channel_size=2,
                                   max_channel_size=64 if big else 8, layer_norm=rng.random() < 0.6),
                   mlp_config=dict(hidden_size=[8], min_mlp_nodes=4, max_mlp_nodes=200 if big else 16),
                   min_latent_dim=4, max_latent_dim=128 if big else 12)
    else:
        fam = fam or rng.choice(["vec", "img", "dict", "dict", "seq", "simba", "resnet", "cls-mlp", "cls-mlp",
                                 "cls-simba", "cls-cnn"])
        accepted = inspect.signature(_net_class(kind).__init__).parameters
        need = {"seq": "recurrent", "simba": "simba", "resnet": "encoder_cls", "cls-mlp": "encoder_cls",
                "cls-simba": "encoder_cls", "cls-cnn": "encoder_cls"}.get(fam, "self")
        if need not in accepted:
            fam = "vec"
        cfg = dict(latent_dim=rng.choice([8, 12]), min_latent_dim=4, max_latent_dim=128 if big else 14)
        mlp_enc = dict(hidden_size=[rng.choice([8, 12])], min_mlp_nodes=4, max_mlp_nodes=200 if big else 16)
        cnn_enc = dict(channel_size=[4], kernel_size=[3], stride_size=[1], min_channel_size=2,
                       max_channel_size=64 if big else 8)
        if fam == "vec":
            cfg.update(obs=["box", [4]], encoder_config=mlp_enc)
        elif fam == "simba":
            cfg.update(obs=["box", [4]], simba=True,
                       encoder_config=dict(hidden_size=8, num_blocks=1, scale_factor=2, min_mlp_nodes=4,
                                           max_mlp_nodes=200 if big else 16))
        elif fam == "img":
            cfg.update(obs=["img", [2, 10, 10]], encoder_config=cnn_enc)
        elif fam == "resnet":
            cfg.update(obs=["img", [2, 8, 8]], encoder_cls="ResNet",
                       encoder_config=dict(input_shape=[2, 8, 8], channel_size=4, kernel_size=3, stride_size=1,
                                           num_blocks=1, scale_factor=2, min_channel_size=2,
                                           max_channel_size=64 if big else 8))
        elif fam == "cls-mlp":
            # explicit encoder class + the constructor arguments of that class (num_outputs is overwritten
            # with the latent dimension by EvolvableNetwork)
            cfg.update(obs=["box", [4]], encoder_cls="EvolvableMLP",
                       encoder_config=dict(num_inputs=4, num_outputs=cfg["latent_dim"], hidden_size=[rng.choice([8, 12])],
                                           layer_norm=rng.random() < 0.5, min_mlp_nodes=4,
                                           max_mlp_nodes=200 if big else 16))
        elif fam == "cls-simba":
            cfg.update(obs=["box", [4]], encoder_cls="EvolvableSimBa",
                       encoder_config=dict(num_inputs=4, num_outputs=cfg["latent_dim"], hidden_size=8, num_blocks=1,
                                           scale_factor=2, min_mlp_nodes=4, max_mlp_nodes=200 if big else 16))
        elif fam == "cls-cnn":
            cfg.update(obs=["img", [2, 10, 10]], encoder_cls="EvolvableCNN",
                       encoder_config=dict(input_shape=[2, 10, 10], num_outputs=cfg["latent_dim"], channel_size=[4],
                                           kernel_size=[3], stride_size=[1], min_channel_size=2,
                                           max_channel_size=64 if big else 8, layer_norm=rng.random() < 0.5))
        elif fam == "seq":
            cfg.update(obs=["box", [3, 4]], recurrent=True,
                       encoder_config=dict(hidden_size=8, num_layers=1, min_hidden_size=4,
                                           max_hidden_size=200 if big else 16))
        else:
            cfg.update(obs=["dict", {"img": ["img", [2, 10, 10]], "vec": ["box", [3]]}],
                       encoder_config=dict(latent_dim=8, min_latent_dim=4, max_latent_dim=64,
                                           vector_space_mlp=rng.random() < 0.5, cnn_config=cnn_enc,
                                           mlp_config=dict(hidden_size=[8], min_mlp_nodes=4, max_mlp_nodes=64)))
        hs = 16 if kind == "rainbow" else rng.choice([8, 12])
        cfg["head_config"] = dict(hidden_size=[hs], min_mlp_nodes=4, max_mlp_nodes=200 if big else hs + 8)
        if kind in ("q",):
            cfg["act"] = rng.choice([["disc", 3], ["mdisc", [2, 3]]])
        elif kind == "rainbow":
            cfg["act"] = ["disc", 3]
            cfg["atoms"] = 5
        elif kind in ("cq", "det"):
            cfg["act"] = ["box", [2]]
        elif kind == "sto":
            cfg["act"] = rng.choice([["box", [2]], ["disc", 3], ["mdisc", [2, 3]]])
    return {"kind": kind, "cfg": cfg}


# ---- sweep of non-default constructor options ------------------------------------------------------------------
# Options are enumerated from the constructor signatures (so a new option is picked up); values come from this
# table by name, a boolean option the table does not know is flipped, anything else unknown is counted as unswept.
OPTION_VALUES = {
    "activation": ["Tanh", "ELU", "GELU", "LeakyReLU", "Softsign", "Sigmoid", "Softplus", "PReLU"],
    "output_activation": ["Tanh", "Sigmoid", "Softsign", "ELU", "Softmax", "ReLU"],
    "noise_std": [0.25],
    "action_std_init": [0.5, -0.5],
    "name": ["zz", "vision"],
    "random_seed": [7],
}
# structural / already generated / not an option of the computed function
OPTION_SKIP = {"self", "device", "n_layer", "vocab_size", "n_embd", "n_head", "dim_feedfwd", "block_size",
               "layer_norm_eps", "latent_dim", "encoder_cls", "encoder_config", "head_config", "cnn_config", "mlp_config",
               "lstm_config", "init_dicts", "n_agents", "simba", "recurrent", "num_atoms", "sample_input", "block_type",
               "num_layers", "scale_factor", "vector_space_mlp", "support", "observation_space", "action_space",
               "num_inputs", "num_outputs", "input_shape", "input_size", "hidden_size", "channel_size", "kernel_size",
               "stride_size", "num_blocks", "dropout", "accelerator"}


def _module_class(name: str):
    import importlib
    mod = {"EvolvableMLP": "mlp", "EvolvableCNN": "cnn", "EvolvableLSTM": "lstm", "EvolvableSimBa": "simba",
           "EvolvableResNet": "resnet", "EvolvableMultiInput": "multi_input", "EvolvableGPT": "gpt"}[name]
    return getattr(importlib.import_module("agilerl.modules." + mod), name)


def _sweep_into(rng: random.Random, cls, cfg: dict, nested: bool, p: float, stats: dict,
                own_name: bool = False) -> None:
    params = inspect.signature(cls.__init__).parameters
    eligible = []
    for n, prm in params.items():
        if n in OPTION_SKIP or n.startswith(("min_", "max_")) or prm.default is inspect._empty:
            continue
        if nested and n == "name" and not own_name:
            continue                                  # the owning network passes the name itself
        if n in OPTION_VALUES:
            eligible.append((n, OPTION_VALUES[n]))
        elif isinstance(prm.default, bool):
            eligible.append((n, [not prm.default]))
        else:
            stats["unswept"].add(f"{cls.__name__}.{n}")
    chosen = [e for e in eligible if rng.random() < p]
    if not chosen and eligible and rng.random() < 0.5:
        chosen = [rng.choice(eligible)]
    for n, vals in chosen:
        cfg[n] = rng.choice(vals)
        stats["swept"].add(n)
    if cfg.get("new_gelu"):
        cfg["activation"] = "GELU"                     # the option only matters together with GELU


def sweep_options(rng: random.Random, spec: dict, p: float = 0.3) -> dict:
    """set non-default values of constructor options of the module / network and of its nested configs"""
    kind, cfg = spec["kind"], spec["cfg"]
    stats = {"swept": set(), "unswept": set()}
    mods = {"mlp": "EvolvableMLP", "cnn": "EvolvableCNN", "cnn3d": "EvolvableCNN", "lstm": "EvolvableLSTM",
            "simba": "EvolvableSimBa", "resnet": "EvolvableResNet", "multi": "EvolvableMultiInput", "gpt": "EvolvableGPT"}

    def multi_nested(c):
        if isinstance(c.get("cnn_config"), dict):
            # extractors of a multi-input net may carry their own name (default: the observation key)
            _sweep_into(rng, _module_class("EvolvableCNN"), c["cnn_config"], True, p, stats, own_name=True)
        if isinstance(c.get("mlp_config"), dict):
            _sweep_into(rng, _module_class("EvolvableMLP"), c["mlp_config"], True, p, stats, own_name=True)
        if isinstance(c.get("lstm_config"), dict):
            _sweep_into(rng, _module_class("EvolvableLSTM"), c["lstm_config"], True, p, stats, own_name=True)

    if kind in mods:
        _sweep_into(rng, _module_class(mods[kind]), cfg, False, p, stats)
        if kind == "multi":
            multi_nested(cfg)
    else:
        _sweep_into(rng, _net_class(kind), cfg, False, p, stats)
        enc = cfg.get("encoder_config")
        if isinstance(enc, dict):
            if cfg.get("encoder_cls") in ENCODER_CLASSES:
                ecls = _encoder_class(cfg["encoder_cls"])
            elif cfg.get("encoder_cls") == "ResNet":
                ecls = _module_class("EvolvableResNet")
            elif cfg["obs"][0] in ("dict", "tuple"):
                ecls = _module_class("EvolvableMultiInput")
            elif cfg["obs"][0] == "img":
                ecls = _module_class("EvolvableCNN")
            elif cfg.get("recurrent"):
                ecls = _module_class("EvolvableLSTM")
            elif cfg.get("simba"):
                ecls = _module_class("EvolvableSimBa")
            else:
                ecls = _module_class("EvolvableMLP")
            _sweep_into(rng, ecls, enc, True, p, stats)
            if ecls.__name__ == "EvolvableMultiInput":
                multi_nested(enc)
        if isinstance(cfg.get("head_config"), dict) and kind != "rainbow":
            _sweep_into(rng, _module_class("EvolvableMLP"), cfg["head_config"], True, p, stats)
    spec["swept"] = sorted(stats["swept"])
    spec["unswept"] = sorted(stats["unswept"])
    return spec


def act_step(rng: random.Random) -> dict:
    return {"op": "act", "activation": rng.choice(ACTIVATIONS), "output": rng.random() < 0.4,
            "seed": rng.randrange(1 << 30)}


def latent_step(rng: random.Random, name: str, inplace: bool) -> dict:
    """a latent-node mutation: a small real change, a change refused by the hard limit, or the method's own draw"""
    r = rng.random()
    kw = {"numb_new_nodes": rng.choice([1, 2, 3])} if r < 0.5 else ({"numb_new_nodes": 10000} if r < 0.8 else None)
    return {"op": "mut", "m": name, "kw": kw, "seed": rng.randrange(1 << 30), "inplace": inplace}


def gen_case(rng: random.Random, tier: str, kind: str | None = None, fam: str | None = None,
             directed: bool | None = None, sweep: bool | None = None) -> dict:
    spec = gen_spec(rng, kind, fam)
    plain = copy.deepcopy(spec)
    if sweep is None:
        sweep = rng.random() < 0.75
    if sweep:
        sweep_options(rng, spec)
        try:                                            # an illegal combination of options: keep the plain spec
            np.random.seed(0)
            torch.manual_seed(0)
            m_try = make(spec)
            forward(spec, m_try, _sample(obs_of(spec, m_try), 2, torch.Generator().manual_seed(0)), 0)
        except Exception:
            spec = plain
            spec["swept"] = ["(illegal combination dropped)"]
    case = {"suite": "mutation", "spec": spec, "seed": rng.randrange(1 << 30),
            "train": 2 if rng.random() < 0.25 else 0,
            "pair": spec["kind"] in NET_CLASSES and rng.random() < 0.3, "chain": []}
    # the advertised methods are read from the live object
    np.random.seed(0)
    torch.manual_seed(0)
    m = make(spec)
    methods = list(m.mutation_methods)
    nested = spec["kind"] in NET_CLASSES or spec["kind"] == "multi"
    latent = [n for n in methods if n.endswith("latent_node")]
    deep = [n for n in methods if n.count(".") >= (2 if spec["kind"] in NET_CLASSES else 1)
            and n.split(".")[-1] in ("add_channel", "add_node", "change_kernel")]
    if directed is None:
        directed = nested and bool(latent) and rng.random() < 0.5
    if directed and latent:
        # a nested mutation that really changes a sub-module, THEN a latent-node mutation of the module that
        # re-creates that sub-module - on the same object (no clone in between) or through clones
        inplace = rng.random() < 0.7
        pre = [n for n in (deep or methods) if not n.endswith("latent_node")]
        if pre:
            name = rng.choice(pre)
            kw = gen_kwargs(rng, spec, m, name) or {}
            if name.endswith(("add_channel", "add_node")):
                kw = {("numb_new_channels" if name.endswith("add_channel") else "numb_new_nodes"): rng.choice([1, 2, 3]),
                      **({"hidden_layer": 0} if "hidden_layer" in inspect.signature(resolve_method(m, name)[1]).parameters else {})}
            case["chain"].append({"op": "mut", "m": name, "kw": kw or None, "seed": rng.randrange(1 << 30),
                                  "inplace": inplace})
        # the latent mutation of the module that owns the mutated sub-module first, then any other
        owners = sorted(latent, key=lambda n: -n.count(".")) if deep else latent
        case["chain"].append(latent_step(rng, owners[0] if rng.random() < 0.7 else rng.choice(latent), inplace))
        if rng.random() < 0.5:
            case["chain"].append(latent_step(rng, rng.choice(latent), rng.random() < 0.5))
        if rng.random() < 0.3:
            case["chain"].append({"op": "recreate", "seed": rng.randrange(1 << 30)})
        return add_faults(rng, case)
    length = rng.randint(1, 4 if tier == "quick" else 7)
    for _ in range(length):
        r = rng.random()
        if r < 0.12:
            case["chain"].append({"op": "clone"})
        elif r < 0.22 or not methods:
            case["chain"].append({"op": "recreate", "seed": rng.randrange(1 << 30)})
        elif r < 0.36:
            case["chain"].append(act_step(rng))
        else:
            name = rng.choice(methods)
            if name.endswith("latent_node") and rng.random() < 0.6:
                case["chain"].append(latent_step(rng, name, rng.random() < (0.5 if nested else 0.8)))
                continue
            case["chain"].append({"op": "mut", "m": name, "kw": gen_kwargs(rng, spec, m, name),
                                  "seed": rng.randrange(1 << 30),
                                  "inplace": rng.random() < (0.5 if nested else 0.8)})
    return add_faults(rng, case)


def add_faults(rng: random.Random, case: dict) -> dict:
    """a fault at a point, then the rest of the sequence on the same object: a quarter of the chains get one
    failing call (bad keyword arguments / a user hook that raises once) on a step that is followed by another
    in-place mutation"""
    muts = [i for i, st in enumerate(case["chain"]) if st["op"] == "mut"]
    if muts and rng.random() < 0.3:
        i = rng.choice(muts[:-1] or muts)
        case["chain"][i]["fault"] = rng.choice(["badkw", "badkw", "hook"])
        case["chain"][i]["inplace"] = True
        for st in case["chain"][i + 1:]:
            if st["op"] == "mut":
                st["inplace"] = True
                break
        else:
            case["chain"].append({"op": "mut", "m": case["chain"][i]["m"], "kw": case["chain"][i].get("kw"),
                                  "seed": rng.randrange(1 << 30), "inplace": True})
    return case


# ----------------------------------------------------------------------------- verdicts
def report(chk: Check, case: dict, problems, diffs, hits: set, shrink) -> set:
    """route what a case found: counters for analysed defects, violations (shrunk and re-run),
    correspondence-only disagreements"""
    for fid in sorted(hits):
        chk.dist["hit:" + fid] += 1
    if problems:
        small = case
        if shrink:
            small = shrink(lambda r: bool(r["problems"]))
            problems = run_chain(chk, small)["problems"] or problems
        chk.violation(problems[0], {**small, "oracle_problems": problems[:5], "theorems": chk.gate["theorems"]})
    elif diffs:
        small = case
        if shrink:
            small = shrink(lambda r: bool(r["diffs"]) and not r["problems"])
            diffs = run_chain(chk, small)["diffs"] or diffs
        chk.violation("implementation and Preserve model disagree: " + diffs[0] +
                      "; the property oracle holds on this case and its shrinks",
                      {**small, "diffs": diffs[:5], "correspondence": "harness/c04.py vs Model/Preserve.lean",
                       "theorems": chk.gate["theorems"]}, no_input=True)
    return hits


def shrinker(chk: Check, case: dict):
    def shrink(pred):
        def fails(sub):
            return pred(run_chain(chk, {**case, "chain": sub}))
        chain = case["chain"]
        try:
            if len(chain) > 1:
                chain = ddmin(chain, fails)
        except Exception:
            pass
        return {**case, "chain": chain}
    return shrink


def suite_mutation(chk: Check, n: int) -> set:
    rng = chk.rng
    cases = [json.loads(f.read_text()) for f in sorted((ROOT / "corpus" / "C04").glob("mut_*.json"))]
    cases += [gen_case(rng, chk.tier, KINDS[i % len(KINDS)]) for i in range(n)]      # every kind in every run
    # in every run: nested-then-latent chains on multi-input modules / networks, and networks built with an
    # explicit encoder class
    reps = 1 if chk.tier == "quick" else 12
    for _ in range(reps):
        cases.append(gen_case(rng, chk.tier, "multi", directed=True))
        for kind in ("q", "det", "sto", "val", "cq"):
            if "encoder_cls" not in inspect.signature(_net_class(kind).__init__).parameters:
                continue
            cases.append(gen_case(rng, chk.tier, kind, fam="dict", directed=True))
            cases.append(gen_case(rng, chk.tier, kind, fam=rng.choice(["cls-mlp", "cls-simba", "cls-cnn"]),
                                  directed=rng.random() < 0.7))
    nd, all_hits = 0, set()
    for case in cases:
        r = run_chain(chk, case)
        nontrivial = any(t in ("param-resized", "param-new-key", "arch-unchanged") for t in r["tags"])
        chk.case(["mutation", case], nontrivial=nontrivial,
                 sample={"kind": case["spec"]["kind"], "chain": [s.get("m", s["op"]) for s in case["chain"]],
                         "applied": r["applied"]},
                 tags=sorted(set(r["tags"])) + ["kind-" + case["spec"]["kind"]]
                 + ["opt-" + o for o in case["spec"].get("swept", [])]
                 + ["unswept-" + o for o in case["spec"].get("unswept", [])])
        all_hits |= report(chk, case, r["problems"], r["diffs"], r["hits"], shrinker(chk, case))
        nd += bool(r["diffs"])
    chk.suite("mutation-chains", len(cases), nd)
    return all_hits


# ----------------------------------------------------------------------------- suite: agents
MUT_KINDS = {"none": dict(no_mutation=1, architecture=0, parameters=0, activation=0, rl_hp=0),
             "arch": dict(no_mutation=0, architecture=1, parameters=0, activation=0, rl_hp=0),
             "param": dict(no_mutation=0, architecture=0, parameters=1, activation=0, rl_hp=0),
             "act": dict(no_mutation=0, architecture=0, parameters=0, activation=1, rl_hp=0),
             "rl_hp": dict(no_mutation=0, architecture=0, parameters=0, activation=0, rl_hp=1)}


def _as_list(x):
    return list(x) if isinstance(x, (list, tuple)) else [x]


def run_agent_case(chk: Check, algo: str, fam: str, seed: int, kind: str = "arch", rounds: int = 1):
    """`Mutations.mutation` rounds of one kind on a real agent -> (problems, diffs, hits, tags):
    evaluation networks against the provenance map (kinds that must not touch weights: none, arch, rl_hp),
    and after EVERY round each shared / target network bit-equal to the evaluation network it shadows"""
    import agents
    import walker
    from agilerl.hpo.mutation import Mutations
    problems, diffs, hits, tags = [], [], set(), []
    try:
        agent = agents.build(algo, fam, seed=seed)
        try:
            agents.learn_once(agent, algo, fam, seed=seed)
            tags.append("agent-trained")
        except Exception:
            tags.append("agent-untrained")
        # whatever learn_once did: evaluation and target networks must start out different, otherwise a
        # target that keeps its own weights could not be told from one that was reloaded
        for g in agent.registry.groups:
            for nn_ in _as_list(getattr(agent, g.eval)):
                randomize(nn_, seed + 31)
        mut = Mutations(new_layer_prob=0.3, rand_seed=seed, device="cpu", **MUT_KINDS[kind])
        for rnd in range(rounds):
            before = {}
            for g in agent.registry.groups:
                for i, nn_ in enumerate(_as_list(getattr(agent, g.eval))):
                    before[(g.eval, i)] = snapshot(nn_)
            np.random.seed((seed + rnd) % (2 ** 32))
            torch.manual_seed(seed + rnd)
            agent = mut.mutation([agent])[0]
            tags.append(f"agent-mut-{kind}")
            for g in agent.registry.groups:
                nets = _as_list(getattr(agent, g.eval))
                if isinstance(getattr(agent, g.eval), list):
                    tags.append("eval-list")
                for i, nn_ in enumerate(nets):
                    if kind in ("none", "arch", "rl_hp"):
                        P0, B0 = before[(g.eval, i)]
                        P1, B1 = snapshot(nn_)
                        mode = step_mode(nn_, nn_.last_mutation_attr) if nn_.last_mutation_attr else "full"
                        p, d, h, t = compare_step(chk, P0, B0, P1, B1, mode)
                        problems += [f"round {rnd} {g.eval}[{i}]: {s_}" for s_ in p]
                        diffs += [f"round {rnd} {g.eval}[{i}]: {s_}" for s_ in d]
                        hits |= h
                        tags += t
                    # shared (target) networks are re-created from the mutated evaluation network
                    for sh in _as_list(g.shared) if g.shared else []:
                        snets = _as_list(getattr(agent, sh))
                        if len(snets) != len(nets):
                            problems.append(f"round {rnd} {sh}: {len(snets)} shared networks for {len(nets)} in {g.eval}")
                            continue
                        te, ts = walker.module_tensors(nn_), walker.module_tensors(snets[i])
                        tags.append("shared-reinit" + ("-list" if len(nets) > 1 else ""))
                        if list(te) != list(ts):
                            problems.append(f"round {rnd} {sh}[{i}]: holds different tensors than {g.eval}[{i}]: "
                                            f"{sorted(set(te) ^ set(ts))[:4]}")
                            continue
                        for k in te:
                            if te[k].shape != ts[k].shape or not torch.equal(te[k], ts[k]):
                                problems.append(f"round {rnd} after a '{kind}' mutation: re-created shared network "
                                                f"{sh}[{i}] differs from the evaluation network {g.eval}[{i}] in {k}")
                                break
    except Exception as e:
        problems.append(f"{algo}/{fam}/{kind}: raised {type(e).__name__}: {e}")
    return problems, diffs, hits, tags


def suite_agent(chk: Check, combos) -> set:
    all_hits, nd = set(), 0
    for algo, fam, seed, kind, rounds in combos:
        case = {"suite": "agent", "algo": algo, "family": fam, "seed": seed, "kind": kind, "rounds": rounds}
        problems, diffs, hits, tags = run_agent_case(chk, algo, fam, seed, kind, rounds)
        chk.case(["agent", case], nontrivial=True, tags=sorted(set(tags)) + ["agent-" + algo])
        all_hits |= report(chk, case, problems, diffs, hits, None)
        nd += bool(diffs)
    chk.suite("agent-mutation-rounds", len(combos), nd)
    return all_hits


# ----------------------------------------------------------------------------- multi-agent lists and the decorator
MA_OBS = {"MADDPG": (4, 4, 6), "MATD3": (3, 3, 5), "IPPO": (4, 4, 6)}      # different observation sizes where legal
                                                                            # (agent_0 / agent_1 are homogeneous: same space required)


def build_ma(algo: str, seed: int):
    """a real multi-agent agent with three sub-agents of DIFFERENT observation sizes and different weights"""
    import agents
    from gymnasium import spaces
    obs_spaces, act_spaces, ids = agents.spaces_for(algo, "vector")
    obs_spaces = [spaces.Box(-1.0, 1.0, (n,), np.float32) for n in MA_OBS[algo]]
    kwargs = dict(index=0, hp_config=None, net_config=copy.deepcopy(agents.default_net_config(algo, "vector")),
                  batch_size=8, device="cpu", accelerator=None)
    if algo == "IPPO":
        kwargs.update(learn_step=8, update_epochs=2)
    else:
        kwargs.update(learn_step=1)
    agents.seed_all(seed)
    agent = agents.algo_class(algo)(observation_spaces=obs_spaces, action_spaces=act_spaces, agent_ids=ids, **kwargs)
    for gi, g in enumerate(agent.registry.groups):
        for i, nn_ in enumerate(_as_list(getattr(agent, g.eval))):
            randomize(nn_, seed * 1000 + gi * 37 + i * 7 + 1)          # a different seed for every sub-agent
    return agent


def run_ma_case(chk: Check, algo: str, seed: int):
    """`Mutations.architecture_mutate` on a real multi-agent agent with three different sub-agents:
    every new tensor of sub-agent i against the provenance map over sub-agent i's OLD tensors, shown different from
    sub-agent j's; the re-created targets (`reinit_from_mutated` on the list) bit-equal to their own online network and
    different from the others'; `recreate_network` calls counted per module against the decorator model"""
    import walker
    from agilerl.hpo.mutation import Mutations
    problems, diffs, hits, tags = [], [], set(), []
    try:
        agent = build_ma(algo, seed)
        mut = Mutations(new_layer_prob=0.3, rand_seed=seed, device="cpu", **MUT_KINDS["arch"])
        before, counters = {}, {}
        for g in agent.registry.groups:
            for i, nn_ in enumerate(_as_list(getattr(agent, g.eval))):
                before[(g.eval, i)] = snapshot(nn_)
        # the offspring are CLONES made inside architecture_mutate: count on the class, keyed by object
        from agilerl.modules.base import EvolvableModule
        calls = []
        import agilerl.modules.base as mb
        orig_exit = mb.MutationContext.__exit__

        def counting_exit(self, et, ev, tb):
            d0 = self.module._mutation_depth
            mod = self.module
            rn = mod.recreate_network
            hit = []

            def counted(*a, **k):
                hit.append(1)
                return rn(*a, **k)
            object.__setattr__(mod, "recreate_network", counted)
            try:
                return orig_exit(self, et, ev, tb)
            finally:
                try:
                    object.__delattr__(mod, "recreate_network")
                except AttributeError:
                    pass
                wr_ = isinstance(mod, mb.EvolvableWrapper)
                calls.append((id(mod), d0, self.method_name, len(hit), mod.last_mutation_attr, wr_,
                              mod.wrapped.last_mutation_attr if wr_ else None, mod._mutation_hook is not None))
        mb.MutationContext.__exit__ = counting_exit
        try:
            np.random.seed(seed % (2 ** 32))
            torch.manual_seed(seed)
            agent = mut.architecture_mutate(agent)
        finally:
            mb.MutationContext.__exit__ = orig_exit
        tags.append("ma-arch-" + algo)
        # --- decorator: per module, the outermost exits re-create exactly as the model says; inner exits never
        for (mid, d0, name, nrec, final, wr_, wlast, hook_) in calls:
            if d0 != 1:
                tags.append("deco-inner-exit")
                if nrec:
                    problems.append(f"{algo}: an inner __exit__ (depth {d0}) of {name} called recreate_network")
                continue
            expect = 1 if (final is not None and "." not in final and not wr_) else 0
            tags.append(f"deco-outer-{'own' if expect else 'wrapper' if wr_ else 'nested-or-none'}")
            line = (f"preserve deco {name} 1 0 {int(wr_)} {int(hook_)} {name if '.' in name else (final or '-')} "
                    f"{(final.split('.')[-1] if final and '.' in final else '-')} {wlast or '-'}")
            out = chk.driver.run(["reset", line])[1].split()
            chk.corr["model_lines"] += 1
            if len(out) != 4:
                raise InfraError(f"driver answered {out!r} to {line!r}")
            if int(out[1]) != nrec:
                (problems if nrec != expect else diffs).append(
                    f"{algo}: outermost call of {name} (applied {final}): recreate_network called {nrec} time(s), "
                    f"model {out[1]}, statement {expect}")
            if out[0] != (final or "-"):
                diffs.append(f"{algo}: outermost call of {name}: last_mutation_attr {final!r}, model {out[0]!r}")
        # --- element by element
        for g in agent.registry.groups:
            nets = _as_list(getattr(agent, g.eval))
            n_before = len([k for k in before if k[0] == g.eval])
            if len(nets) != n_before:
                problems.append(f"{algo}.{g.eval}: {n_before} networks before, {len(nets)} after the mutation")
                continue
            if len(nets) >= 3:
                tags.append("ma-three-subagents")
            for i, nn_ in enumerate(nets):
                P0, B0 = before[(g.eval, i)]
                P1, B1 = snapshot(nn_)
                mode = step_mode(nn_, nn_.last_mutation_attr) if nn_.last_mutation_attr else "full"
                p, d, h, t = compare_step(chk, P0, B0, P1, B1, mode)
                problems += [f"{g.eval}[{i}]: {s_}" for s_ in p]
                diffs += [f"{g.eval}[{i}]: {s_}" for s_ in d]
                hits |= h
                tags += t
                # no cross-agent mixing: where sub-agent i kept values, they are not sub-agent j's
                for j in range(len(nets)):
                    if j == i:
                        continue
                    Pj, _ = before[(g.eval, j)]
                    for k, t1 in P1.items():
                        ti, tj = P0.get(k), Pj.get(k)
                        if ti is None or tj is None or ti.dim() != t1.dim() or tj.dim() != t1.dim():
                            continue
                        sl = tuple(slice(0, min(a, b, c)) for a, b, c in zip(ti.shape, tj.shape, t1.shape))
                        if t1[sl].numel() == 0 or torch.equal(ti[sl], tj[sl]):
                            continue
                        tags.append("cross-agent-compared")
                        if torch.equal(t1[sl], tj[sl]):
                            problems.append(f"{algo}.{g.eval}[{i}].{k}: after the mutation it holds the OLD values of "
                                            f"sub-agent {j}, not its own")
                            break
            # --- targets / shared networks re-created from the matching online network
            if g.shared:
                fresh = mut.reinit_from_mutated(getattr(agent, g.eval))
                fresh = _as_list(fresh)
                if len(fresh) != len(nets):
                    problems.append(f"{algo}.{g.eval}: reinit_from_mutated returned {len(fresh)} networks for {len(nets)}")
                    continue
                for i, (e_, s_) in enumerate(zip(nets, fresh)):
                    te, ts = walker.module_tensors(e_), walker.module_tensors(s_)
                    tags.append("target-reinit-list")
                    if list(te) != list(ts) or any(te[k].shape != ts[k].shape or not torch.equal(te[k], ts[k]) for k in te):
                        problems.append(f"{algo}.{g.eval}: re-created shared network [{i}] differs from the evaluation "
                                        f"network [{i}] it is built from")
                        continue
                    for j, o_ in enumerate(nets):
                        if j == i:
                            continue
                        tj = walker.module_tensors(o_)
                        if list(tj) == list(ts) and all(tj[k].shape == ts[k].shape and torch.equal(tj[k], ts[k]) for k in ts):
                            problems.append(f"{algo}.{g.eval}: re-created shared network [{i}] equals evaluation network [{j}]")
    except InfraError:
        raise
    except Exception as e:
        problems.append(f"{algo}/ma-arch: raised {type(e).__name__}: {e}")
    return problems, diffs, hits, tags


def suite_ma(chk: Check, combos) -> set:
    all_hits, nd = set(), 0
    for algo, seed in combos:
        case = {"suite": "ma", "algo": algo, "seed": seed}
        problems, diffs, hits, tags = run_ma_case(chk, algo, seed)
        chk.case(["ma", case], nontrivial=True, tags=sorted(set(tags)) + ["ma-" + algo])
        all_hits |= report(chk, case, problems, diffs, hits, None)
        nd += bool(diffs)
    chk.suite("multi-agent-lists-and-decorator", len(combos), nd)
    return all_hits


# ----------------------------------------------------------------------------- probes for analysed defects
def probe_norm(chk: Check):
    """exactly D13: a LayerNorm weight of a resized layer (`mlp_layer_norm_1` after `add_node`)"""
    from agilerl.modules.mlp import EvolvableMLP
    torch.manual_seed(11)
    m = EvolvableMLP(num_inputs=3, num_outputs=2, hidden_size=[8], layer_norm=True, min_mlp_nodes=4, max_mlp_nodes=64)
    randomize(m, 12)
    key = "model.mlp_layer_norm_1.weight"
    old = dict(m.named_parameters())[key].detach().clone()
    m.add_node(hidden_layer=0, numb_new_nodes=4)
    new = dict(m.named_parameters())[key].detach()
    chk.case(["probe", "norm"], nontrivial=True, tags=["probe-norm"])
    if tuple(new.shape) != (12,):
        raise RuntimeError("norm probe: add_node did not resize the layer")     # the implementation is broken here, not the
                                                                                # machinery: the suites report it with a replay
    if not torch.equal(new[:8], old):
        return (FID_NORM, f"{key} after add_node(0, 4): old values {old[:3].tolist()}… replaced by "
                f"{new[:3].tolist()}…")
    return None


def probe_buffers(chk: Check):
    """BatchNorm running statistics after a recreate that changes no shape"""
    from agilerl.modules.cnn import EvolvableCNN
    torch.manual_seed(13)
    m = EvolvableCNN(input_shape=[2, 10, 10], num_outputs=3, channel_size=[4], kernel_size=[3], stride_size=[1],
                     min_channel_size=4, max_channel_size=8, layer_norm=True)
    randomize(m, 14)
    key = "model.cnn_layer_norm_1.running_mean"
    old = dict(m.named_buffers())[key].detach().clone()
    x = torch.rand(2, 2, 10, 10, generator=torch.Generator().manual_seed(15))
    spec = {"kind": "cnn", "cfg": {}}
    y0 = forward(spec, m, x, 0)
    m.remove_channel(hidden_layer=0, numb_new_channels=2)       # bounded out: architecture unchanged
    new = dict(m.named_buffers())[key].detach()
    y1 = forward(spec, m, x, 0)
    chk.case(["probe", "buffers"], nontrivial=True, tags=["probe-buffers"])
    if tuple(new.shape) != tuple(old.shape):
        raise RuntimeError("buffer probe: the bounded-out remove_channel changed the architecture")
    if not torch.equal(new, old) or not torch.equal(y0[0], y1[0]):
        return (FID_BUF, f"{key} {old.tolist()} -> {new.tolist()} after a bounded-out remove_channel; "
                f"eval-mode output changed: {not torch.equal(y0[0], y1[0])}")
    return None


def probe_distclone(chk: Check):
    """EvolvableDistribution.clone(): learned log_std and squash_output"""
    m = make({"kind": "sto", "cfg": dict(obs=["box", [4]], act=["box", [2]], latent_dim=8, min_latent_dim=4,
                                         encoder_config=dict(hidden_size=[8], min_mlp_nodes=4),
                                         head_config=dict(hidden_size=[8], min_mlp_nodes=4), squash_output=True)})
    randomize(m, 16)
    h = m.head_net
    c = h.clone()
    chk.case(["probe", "distclone"], nontrivial=True, tags=["probe-distclone"])
    sd0, sd1 = h.state_dict(), c.state_dict()
    bad = [k for k in sd0 if k not in sd1 or not torch.equal(sd0[k], sd1[k])]
    if bad or c.squash_output != h.squash_output:
        return (FID_DISTCLONE, f"EvolvableDistribution.clone(): differs in {bad}, squash_output "
                f"{h.squash_output} -> {c.squash_output}")
    return None


def probe_stale(chk: Check):
    """a second mutation on the same network object after `recreate_network` replaced its encoder"""
    torch.manual_seed(17)
    spec = {"kind": "q", "cfg": dict(obs=["box", [4]], act=["disc", 2], latent_dim=8, min_latent_dim=4,
                                     encoder_config=dict(hidden_size=[8], min_mlp_nodes=4),
                                     head_config=dict(hidden_size=[8], min_mlp_nodes=4))}
    net = make(spec)
    randomize(net, 18)
    net.add_latent_node(numb_new_nodes=4)                # recreate_network(): new encoder / head objects
    getattr(net, "encoder.add_node")(hidden_layer=0, numb_new_nodes=8)
    chk.case(["probe", "stale"], nontrivial=True, tags=["probe-stale"])
    w = dict(net.named_parameters())["encoder.model.encoder_linear_layer_1.weight"]
    x = torch.rand(3, 4, generator=torch.Generator().manual_seed(19))
    y0 = forward(spec, net, x, 0)
    y1 = forward(spec, net.clone(), x, 0)
    if list(net.encoder.hidden_size) != [w.shape[0]] or not torch.equal(y0[0], y1[0]):
        return (FID_STALE, f"after add_latent_node, `encoder.add_node` acted on the discarded encoder: live "
                f"encoder.hidden_size={net.encoder.hidden_size} but its first layer has {w.shape[0]} units; "
                f"clone()(x) == net(x): {torch.equal(y0[0], y1[0])}")
    return None


_REPORTED: set = set()


def emit_finding(chk: Check, fid: str, detail: str, replay_obj) -> None:
    """one line per analysed defect per run (KNOWN-FINDING when listed open, otherwise a VIOLATION)"""
    if fid in _REPORTED:
        return
    _REPORTED.add(fid)
    chk.finding(fid, detail, replay_obj)


PROBES = {"norm": probe_norm, "buffers": probe_buffers, "distclone": probe_distclone, "stale": probe_stale}


# ----------------------------------------------------------------------------- run / selftest / replay
def pre_gate(chk: Check) -> None:
    """Regenerate lean/Gen/PreserveGen.lean from the source text of the tree under test (before the Lean gate)
    and re-check `generated = model` (Proofs/PreserveGenEq.lean) and the theorems over the generated definitions
    (Props/C04.lean).  A failure is a gate problem; the suites then look for the failing input."""
    # both generated files first (Gen/PreserveMaGen imports Gen/PreserveGen and Props/C04 imports both): a stale file of
    # an earlier run against another tree must not be blamed on the wrong translator
    for tr, rel in ((py2lean_preserve, "Gen/PreserveGen.lean"), (py2lean_preservema, "Gen/PreserveMaGen.lean")):
        try:
            tr.write_if_changed(tr.translate(common.REPO)[0], common.LEAN_DIR / rel)
        except tr.Unsupported:
            pass
    common.translation_gate(chk, py2lean_preserve, "Gen/PreserveGen.lean",
                            ["Gen.PreserveGen", "Proofs.PreserveGenEq", "Props.C04"],
                            "preserve_parameters / shrink_preserve_parameters / clone / recreate_* / reinit_from_mutated")
    common.translation_gate(chk, py2lean_preservema, "Gen/PreserveMaGen.lean",
                            ["Gen.PreserveMaGen", "Proofs.PreserveMaGenEq", "Props.C04"],
                            "list branch of load_state_dicts / reinit_from_mutated / _apply_arch_mutation, "
                            "MutationContext / _mutation_wrapper")


def run(chk: Check) -> None:
    quick = chk.tier == "quick"
    chk.rule = ("index: random shapes rank 0-4; pure: real preserve_parameters/shrink_preserve_parameters on tagged "
                "synthetic parameters, random shape pairs of rank 0-4 incl. zero-sized, rank mismatch, missing and "
                "norm keys; mutation: 18 module/network kinds x tight/generous bounds, chains of clone | advertised "
                "method (own or explicit arguments, replayed on a second network) | recreate_network; distinct = "
                "distinct (spec, chain); non-trivial = some parameter was resized/added or a shape-preserving "
                "recreate happened")
    chk.rule += ("; three quarters of the specs carry non-default values of constructor options enumerated from the "
                 "constructor signatures (activations incl. GELU+new_gelu, output activations, layer_norm, noisy, "
                 "output_vanish, init_layers, normalize_actions, squash_output, clip_actions, name, ...); a quarter of "
                 "the chains contain one failing call (unknown keyword arguments / a user hook raising once) followed "
                 "by valid in-place mutations")
    chk.assumptions = [
        "weights are randomised (a quarter of the cases also take two SGD steps) instead of trained to convergence",
        "a buffer (BatchNorm running_mean/var, num_batches_tracked) counts as a learned weight; NoisyLinear "
        "weight_epsilon/bias_epsilon are noise draws and are excluded; functions are compared in eval mode with a seeded sampler",
        "bit-equality of tensors is torch.equal on the CPU float32 values",
        "rebuildability of cls(**init_dict) is C03's obligation: ResNet channel mutations are always called with "
        "explicit python ints (np.int64 channel sizes make the constructor assert, DESIGN D21)",
        "a LayerNorm/BatchNorm key is recognised like the code does: the substring 'norm' in the parameter name",
        "a constructor option (anything in a constructor signature that is not an architecture hyperparameter or a "
        "bound) is part of the function: no mutation, refused mutation or clone may change its reported value "
        "(init_dict entry / same-named attribute); incidental attributes are not compared",
        "after every step the live module must have the parameter/buffer names and shapes of cls(**init_dict) - this is "
        "what clone() and reinit_from_mutated need to carry weights over - also after a call that raised",
    ]
    chk.trusted_extra = ["torch slicing/broadcast semantics of Tensor.__setitem__ (validated against the model by the "
                         "`pure` suite on every run)"]
    chk.notes += [
        "observation: nn.LSTM stacks the four gates in one [4*hidden, in] matrix; after add_node/remove_node the common "
        "index range is preserved (the statement holds) but rows of gate f/g/o land in rows of other gates, so the "
        "learned function of the LSTM is not carried over",
        "observation: change_kernel keeps the top-left corner [:k, :k] of a convolution kernel (corner slice, no centre "
        "crop); shrink_preserve_parameters equals preserve_parameters on every shape pair a mutation produced",
        "observation: reinit_from_mutated overwrites target/shared networks with the mutated evaluation network's weights "
        "(checked: state dicts bit-equal after Mutations.mutation)",
    ]
    _REPORTED.clear()
    for name, probe in PROBES.items():
        try:
            found = probe(chk)
        except InfraError:
            raise
        except Exception as e:          # the implementation raises on the probe's input: the suites report it with a replay
            chk.notes.append(f"probe {name} could not run: {type(e).__name__}: {str(e)[:200]}")
            found = None
        if found:
            emit_finding(chk, found[0], found[1], {"suite": "probe", "probe": name})
    suite_index(chk, 40 if quick else 400)
    hits = suite_pure(chk, 60 if quick else 1200)
    hits |= suite_mutation(chk, 45 if quick else 700)
    # (algorithm, observation family, seed, mutation kind, rounds of Mutations.mutation)
    combos = [("DQN", "vector", 1, "arch", 2), ("DQN", "image", 2, "arch", 1), ("DDPG", "vector", 3, "arch", 1),
              ("MADDPG", "vector", 4, "none", 1), ("MADDPG", "vector", 5, "arch", 2), ("MATD3", "vector", 6, "arch", 1),
              ("MATD3", "vector", 7, "param", 1), ("IPPO", "vector", 8, "arch", 2), ("RainbowDQN", "vector", 9, "none", 1),
              ("TD3", "vector", 10, "rl_hp", 1), ("DQN", "vector", 11, "act", 1)]
    if not quick:
        rng = chk.rng
        for algo in ("DQN", "RainbowDQN", "CQN", "DDPG", "TD3", "PPO", "NeuralUCB", "NeuralTS", "MADDPG", "MATD3", "IPPO"):
            for fam in ("vector", "image", "dict"):
                try:
                    import agents
                    if not agents.supported(algo, fam) or agents.known_broken(algo, fam):
                        continue
                except Exception:
                    continue
                combos.append((algo, fam, rng.randrange(1 << 20), rng.choice(list(MUT_KINDS)), rng.randint(1, 3)))
    hits |= suite_agent(chk, combos)
    ma = [("MADDPG", 21), ("MADDPG", 22), ("MATD3", 23), ("MATD3", 24), ("IPPO", 25), ("IPPO", 26)]
    if not quick:
        ma += [(a, chk.rng.randrange(1 << 20)) for a in ("MADDPG", "MATD3", "IPPO") for _ in range(6)]
    else:
        ma += [(chk.rng.choice(["MADDPG", "MATD3", "IPPO"]), chk.rng.randrange(1 << 20)) for _ in range(2)]
    hits |= suite_ma(chk, ma)
    # defects met inside the random suites are routed through the same finding ids as the probes
    for fid in sorted(hits - _REPORTED):
        emit_finding(chk, fid, "met in the random suites (see distribution hit:* counters)",
                     {"suite": "probe", "probe": {FID_NORM: "norm", FID_BUF: "buffers", FID_STALE: "stale"}.get(fid, "norm")})
    if not quick:
        selftest(chk)


def selftest(chk: Check) -> None:
    """seeded faults in the real code must be noticed"""
    from agilerl.modules import base as mb
    from agilerl.modules import mlp as mm
    spec = {"kind": "mlp", "cfg": dict(num_inputs=3, num_outputs=2, hidden_size=[8, 8], min_mlp_nodes=4,
                                        max_mlp_nodes=64, layer_norm=False)}
    grow = {"suite": "mutation", "spec": spec, "seed": 5, "train": 0, "pair": False,
            "chain": [{"op": "mut", "m": "add_node", "kw": {"hidden_layer": 0, "numb_new_nodes": 4}, "seed": 1}]}
    noop = {**grow, "chain": [{"op": "recreate", "seed": 2}]}
    cl = {**grow, "chain": [{"op": "clone"}]}

    def noticed(case):
        r = run_chain(chk, case)
        return bool(r["problems"] or r["diffs"])

    if noticed(grow) or noticed(noop) or noticed(cl):
        raise InfraError("C04 self-test: the unpatched implementation is already flagged on the self-test cases")
    # 1. preserve_parameters copies from the wrong corner of the old tensor
    orig = mb.EvolvableModule.preserve_parameters

    def wrong_corner(old_net, new_net):
        od = dict(old_net.named_parameters())
        for key, p in new_net.named_parameters():
            if key in od:
                o = od[key]
                if o.shape == p.shape:
                    p.data = o.data
                else:
                    m_ = [min(a, b) for a, b in zip(o.shape, p.shape)]
                    p.data[tuple(slice(0, k) for k in m_)] = o.data[tuple(slice(a - k, a) for a, k in zip(o.shape, m_))]
        return new_net
    mb.EvolvableModule.preserve_parameters = staticmethod(wrong_corner)
    try:
        shrink_case = {**grow, "chain": [{"op": "mut", "m": "remove_node", "kw": {"hidden_layer": 0, "numb_new_nodes": 3}, "seed": 1}]}
        ok1 = noticed(shrink_case)
    finally:
        mb.EvolvableModule.preserve_parameters = orig
    # 2. recreate_network forgets to preserve
    orig_rec = mm.EvolvableMLP.recreate_network

    def no_preserve(self):
        keep = mb.EvolvableModule.preserve_parameters
        mb.EvolvableModule.preserve_parameters = staticmethod(lambda old_net, new_net: new_net)
        try:
            orig_rec(self)
        finally:
            mb.EvolvableModule.preserve_parameters = keep
    mm.EvolvableMLP.recreate_network = no_preserve
    try:
        ok2 = noticed(grow) and noticed(noop)
    finally:
        mm.EvolvableMLP.recreate_network = orig_rec
    # 3. clone() does not load the state dict
    orig_clone = mb.EvolvableModule.clone

    def lazy_clone(self):
        return self.__class__(**copy.deepcopy(self.get_init_dict()))
    mb.EvolvableModule.clone = lazy_clone
    try:
        ok3 = noticed(cl)
    finally:
        mb.EvolvableModule.clone = orig_clone
    # 4. the pure suite sees a wrong-corner copy too
    mb.EvolvableModule.preserve_parameters = staticmethod(wrong_corner)
    try:
        p, d, _ = run_pure_case(chk, {"suite": "pure", "mode": "full", "entries": [["w0", [4, 3], [2, 5]]]})
        ok4 = bool(p or d)
    finally:
        mb.EvolvableModule.preserve_parameters = orig
    # 5. EvolvableMultiInput rebuilds its extractors from the construction-time configs
    from agilerl.modules import multi_input as mi
    from agilerl.networks import base as nb
    corpus = ROOT / "corpus" / "C04"
    multi_case = json.loads((corpus / "mut_multi_nested_then_latent.json").read_text())
    cls_case = json.loads((corpus / "mut_encoder_cls_latent.json").read_text())
    if noticed(multi_case) or noticed(cls_case):
        raise InfraError("C04 self-test: the unpatched implementation is flagged on the directed corpus cases")
    orig_prop = mi.EvolvableMultiInput.init_dicts
    mi.EvolvableMultiInput.init_dicts = property(lambda self: self._init_dicts)
    try:
        ok5 = noticed(multi_case)
    finally:
        mi.EvolvableMultiInput.init_dicts = orig_prop
    # 6. recreate_encoder forgets preserve_parameters for a user supplied encoder class
    orig_re = nb.EvolvableNetwork.recreate_encoder

    def no_preserve_cls(self):
        if self.encoder_cls is None:
            return orig_re(self)
        init_dict = self.encoder.init_dict
        init_dict["num_outputs"] = self.latent_dim
        self.encoder = self.encoder_cls(**init_dict)
    nb.EvolvableNetwork.recreate_encoder = no_preserve_cls
    try:
        ok6 = noticed(cls_case)
    finally:
        nb.EvolvableNetwork.recreate_encoder = orig_re
    # 7. clone() transfers only part of the state: the NoisyLinear noise buffers stay the fresh ones
    noisy = {"suite": "mutation", "spec": {"kind": "mlp", "cfg": dict(num_inputs=3, num_outputs=2, hidden_size=[8],
             min_mlp_nodes=4, max_mlp_nodes=64, layer_norm=False, noisy=True)}, "seed": 7, "train": 0, "pair": False,
             "chain": [{"op": "clone"}]}
    if noticed(noisy):
        raise InfraError("C04 self-test: the unpatched implementation is flagged on the noisy clone case")

    def clone_without_noise(self):
        c = self.__class__(**copy.deepcopy(self.get_init_dict()))
        sd = {k: v for k, v in self.state_dict().items() if not k.endswith(NOISE_BUFFERS)}
        c.load_state_dict(sd, strict=False)
        return c
    mb.EvolvableModule.clone = clone_without_noise
    try:
        ok7 = noticed(noisy)
    finally:
        mb.EvolvableModule.clone = orig_clone
    # 8. the list branch of reinit_from_mutated loads the re-created targets' own state dicts
    from agilerl.hpo import mutation as hm
    orig_reinit = hm.Mutations.reinit_from_mutated

    def reinit_own(self, offspring, remove_compile_prefix=False):
        if isinstance(offspring, list):
            return [self.reinit_module(m_, m_.init_dict) for m_ in offspring]
        return orig_reinit(self, offspring, remove_compile_prefix)
    if run_agent_case(chk, "MADDPG", "vector", 4, "none", 1)[0]:
        raise InfraError("C04 self-test: the unpatched implementation is flagged on the MADDPG target case")
    hm.Mutations.reinit_from_mutated = reinit_own
    try:
        ok8 = bool(run_agent_case(chk, "MADDPG", "vector", 4, "none", 1)[0])
    finally:
        hm.Mutations.reinit_from_mutated = orig_reinit
    # 9. a constructor option is lost when the network is re-created
    gelu_case = json.loads((corpus / "mut_option_new_gelu.json").read_text())
    fault_case = json.loads((corpus / "mut_fault_then_valid_mlp.json").read_text())
    if noticed(gelu_case) or noticed(fault_case):
        raise InfraError("C04 self-test: the unpatched implementation is flagged on the option / fault corpus cases")

    def lossy_recreate(self):
        keep = self.new_gelu
        self.new_gelu = False
        try:
            orig_rec(self)
        finally:
            self.new_gelu = keep
    mm.EvolvableMLP.recreate_network = lossy_recreate
    try:
        ok9 = noticed(gelu_case)
    finally:
        mm.EvolvableMLP.recreate_network = orig_rec
    # 10. the mutation context skips its bookkeeping when an exception escapes
    orig_exit = mb.MutationContext.__exit__

    def early_exit(self, exc_type, exc_val, exc_tb):
        if exc_type is not None:
            return None
        return orig_exit(self, exc_type, exc_val, exc_tb)
    mb.MutationContext.__exit__ = early_exit
    try:
        ok10 = noticed(fault_case)
    finally:
        mb.MutationContext.__exit__ = orig_exit
    missed = [n for n, ok in (("constructor option lost on re-creation", ok9),
                              ("mutation context without bookkeeping after an exception", ok10),
                              ("clone without the noise buffers", ok7), ("multi-agent targets not reloaded", ok8),
                              ("wrong-corner copy", ok1), ("recreate without preserve", ok2),
                              ("clone without load_state_dict", ok3), ("wrong-corner copy (pure suite)", ok4),
                              ("multi-input rebuilt from stale configs", ok5),
                              ("encoder_cls encoder re-created without preserve", ok6)) if not ok]
    if missed:
        raise InfraError("C04 self-test: seeded fault(s) not noticed: " + ", ".join(missed))
    chk.notes.append("self-test: wrong-corner copy, recreate_network without preserve, clone without load_state_dict, "
                     "multi-input extractors rebuilt from construction-time configs, encoder_cls encoder re-created "
                     "without preserve, clone without the NoisyLinear noise buffers, multi-agent target networks not "
                     "reloaded from the evaluation networks, constructor option lost on re-creation, mutation context "
                     "without bookkeeping after an exception - all detected")


def replay(chk: Check, path: str) -> int:
    c = json.loads(open(path).read())
    c = c.get("replay", c)
    suite = c.get("suite")
    if suite == "pure":
        problems, diffs, tags = run_pure_case(chk, c)
        hits = {t[4:] for t in tags if t.startswith("hit:")}
    elif suite == "mutation":
        r = run_chain(chk, c)
        problems, diffs, hits = r["problems"], r["diffs"], r["hits"]
        print(json.dumps({"applied": r["applied"], "tags": sorted(set(r["tags"]))}))
    elif suite == "agent":
        problems, diffs, hits, _ = run_agent_case(chk, c["algo"], c["family"], c["seed"], c.get("kind", "arch"),
                                                  c.get("rounds", 1))
    elif suite == "ma":
        problems, diffs, hits, _ = run_ma_case(chk, c["algo"], c["seed"])
    elif suite == "probe":
        found = PROBES[c["probe"]](chk)
        print(json.dumps({"probe": c["probe"], "still_fails": bool(found), "detail": found[1] if found else None}))
        if found:
            print(f"VIOLATION property=C04 replay={path}")
        return 1 if found else 0
    else:
        print(f"unknown replay suite {suite!r}")
        return 2
    print(json.dumps({"oracle_problems": problems, "correspondence_diffs": diffs, "known_defects_met": sorted(hits)}, indent=1))
    if problems or hits:
        print(f"VIOLATION property=C04 replay={path}")
        return 1
    if diffs:
        print(f"VIOLATION property=C04 replay={path} no-failing-input-found")
        return 1
    return 0
