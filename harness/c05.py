"""
C05 — tournament selection keeps the fittest and builds a well-formed generation.

Correspondence: the real `TournamentSelection.select` against `Model/Tournament.lean`.
Two population streams go through the *same* real `select`:

  * "real": lightweight real agents (DQN, 3-dim Box / Discrete(2), one hidden layer of 4) — this
    is the stream that exercises the real `clone()` (faithful, independent copies);
  * "stub": light stand-in agents (own `index`, histories, `mut`, two "weights", deep-copying
    `clone(index, wrap)`; every other public attribute is answered by a real tiny DQN template),
    thousands of selections, populations up to 40 (where numpy's argsort is no longer stable), to
    cover the ranking / draw / index logic at volume.

  * "fam": real agents of every algorithm family (DQN, DDPG, TD3, PPO, MADDPG, NeuralUCB, NeuralTS;
    thorough also CQN, RainbowDQN, MATD3, IPPO) built by agents.py, which have ACTED and LEARNED
    before selection.  A member is compared with its parent on all state: walker.py value
    fingerprints per attribute group (every network, every optimizer, every other attribute
    `clone()` handles — sigma_inv, theta_0, counters, hyper-parameters, fitness/scores/steps), the
    greedy action on a probe, and storage sharing (walker.alias_pairs) with parents and siblings.
  * "wire": `agilerl.utils.utils.tournament_selection_and_mutation` itself (what the training loops
    call) with a real `Mutations` object (none / parameter / activation / architecture / RL-hp /
    mixed; mutate_elite on/off), elitism on/off, save_elite on/off, elite_path None / "dir/x.pt" /
    "x", accelerator None.  Judged: size, fresh distinct indices and tournament parents of the
    returned generation for populations of length 1, 2, 3 and lengths different from the configured
    population_size; members are copies, never the old objects; old population untouched (walker
    fingerprints before / after); the elite checkpoint is written exactly where
    the function says and loads to an agent equal (fingerprints of a save/load round trip) to the
    fittest agent of the OLD population; nothing is written when save_elite is off.

  * "wrapped": populations of agents inside an agent wrapper — every concrete `AgentWrapper` subclass of
    agilerl/wrappers/agent.py (RSNorm) x its constructor options at non-default values x vector / Dict / Tuple
    observation spaces (running statistics held as one object / a dict per key / a tuple), agents that have acted in
    training mode on batches of their own (statistics moved, different per member) and learned through the wrapper —
    go through the same two suites: select() ("fam": index sequence against the model exactly as for plain agents;
    a child equals its parent in every attribute group of the algorithm AND in every instance attribute of the
    wrapper object, statistics walked element by element; what the wrapper feeds the algorithm on a probe; no shared
    storage; changing a child's statistics leaves the parent's alone) and the evolution step ("wire").
  * evolution step = select() FOLLOWED BY `Mutations.mutation` (inside "wire", every mutation kind, mutate_elite on /
    off): the elite object select() returned is recorded; no object appears twice among elite + returned generation +
    old population; after the mutation the elite is still a copy of the fittest old agent (all attribute groups, action
    on the probe); hyper-parameters of a returned member differ from its parent's in the sampled one (`mut`) at most.

  * "initpop": the INITIAL population.  `py2lean_pop.py` translates `create_population` (every `algo == …` branch) and
    `EvolvableAlgorithm.population` into `lean/Gen/PopGen.lean` (members as provenance terms, loop bound and `index=`
    as integer expressions); `Proofs/PopGenEq.lean` proves it equal to `Tournament.initialPop` (length, index =
    position) for every branch and size.  Suite A runs the real functions with the algorithm classes replaced by
    recorders and sentinel arguments (all 12 branches incl. GRPO, an unknown name, sizes -2..6, with / without
    hp_config, custom networks, agent wrapper) next to an interpreter of the translated program: member count,
    class, argument names in order, identity / value of every argument, and the generated sharing table against the
    aliasing measured between members.  Suite B calls the real `create_population` with the real constructors of
    all eleven algorithms (sizes 1-6, with / without hp_config and user-supplied networks): indices 0..n-1, distinct
    objects, networks and optimizers of different members (and the user's networks) share no storage (walker).

One case = ONE `TournamentSelection` object: it serves a lineage of 1-50 generations (with fresh
scores appended, sometimes with the population re-indexed in between) and, in the "session"
cases, afterwards one to three unrelated populations of other sizes and index ranges.  The model
is stateless — `max_id` comes from the population at hand — so a selector that remembers anything
from earlier calls disagrees with it.

The `np.random.randint` draws are recorded through a wrapper during the call and handed to the
model.  Every agent carries a marker attribute (`verif_tag`) that `clone()` copies, so the parent
of each child is recoverable.  Canonical output per member of the new generation = (exact mean of
the parent's last `eval_loop` scores, index, elite-slot flag): tie-breaking inside `argsort` is not
compared (the property leaves it open; `C05_tie_breaking_irrelevant`).

Oracle (independent of Lean), on the implementation's own objects: elite has maximal mean; size;
first member is the elite; every other member's parent is among the drawn ones and no drawn agent
has a larger mean; indices distinct and fresh; the old population is value-identical (index,
fitness, scores, steps, weights, forward output) to its snapshot; every member is a faithful copy
of its parent (weights, forward output, histories) sharing no list / tensor storage with it; the
returned objects (elite and every member) are pairwise distinct objects, none is an old population
member, and changing one (scores, steps, index, mut, a weight) changes no other.

Source translation (`pre_gate`, before the Lean gate): `py2lean_tourn.py` translates the source text of
`TournamentSelection.{__init__, _tournament, _elitism, select}` (agilerl/hpo/tournament.py of the tree
under test) into `lean/Gen/TournGen.lean`; `Proofs/TournGenEq.lean` proves the generated definitions equal
to the model (`Cfg.valid`, `winner`, `elitePos`, `maxId`, `eliteOf`, `newPop`) and `Props/C05.lean`
restates the theorems over the generated definitions (`C05_source_translation_*`).  If the translator
rejects the source or those proofs stop checking, that is a gate problem naming the broken declaration;
the suites below then supply the failing input if there is one (else the VIOLATION line ends with
no-failing-input-found).
"""
from __future__ import annotations

import copy
import json
import random
import warnings
from fractions import Fraction

import numpy as np
import torch

import common
import py2lean_pop
import py2lean_tourn
from common import ROOT, Check, InfraError, ddmin

TAG = "verif_tag"
FAM = "verif_family"          # (algo, observation family) on agents built through agents.py; copied by clone()
# attribute groups (walker.py) that legitimately differ between a parent and its copy
DIFFER_OK = {"attr:index", "attr:" + TAG, "wrap:" + TAG}
# constructor options of the agent wrappers (agilerl/wrappers/agent.py), each set to a non-default value; a wrapper
# class that is not listed is built with its defaults.  An option set the constructor rejects is skipped.
WRAPPER_OPTIONS = {"RSNorm": [{}, {"epsilon": 2.0 ** -6}, {"norm_obs_keys": ["vec"]}]}
FINDING_ACT = "C05-clone-encoder-output-activation"
# explicit activations: see `probe_encoder_activation` for what happens without them
NET_CONFIG = {"encoder_config": {"hidden_size": [4], "activation": "ReLU"},
              "head_config": {"hidden_size": [4], "activation": "ReLU"}}
PROBE_OBS = torch.tensor([[0.25, -0.5, 1.0], [-0.75, 0.125, 0.5]])


# ----------------------------------------------------------------------------- agents
class StubAgent:
    """Stand-in agent for the volume stream.  Its own state is what the property talks about
    (index, fitness, scores, steps, mut, two "weights"); `clone(index=None, wrap=True)` is a deep
    copy with an optional new index.  Every *other* public attribute a real agent exposes
    (accelerator, device, algo, lr, batch_size, registry, networks, methods …) is answered by a
    real tiny DQN kept as class-level template, so a library change that merely reads another
    ordinary agent attribute inside `select` does not trip this stream."""

    _template = None          # a real EvolvableAlgorithm, set by `Pool.template()`

    def __init__(self, seed: int):
        self.index = 0
        self.fitness: list = []
        self.scores: list = []
        self.steps: list = [0]
        self.mut = None
        self.accelerator = None
        self.device = "cpu"
        self.w = [float(seed), float(seed) + 0.5]

    def __getattr__(self, name):
        # only reached when normal lookup fails
        if name.startswith("__") or StubAgent._template is None:
            raise AttributeError(name)
        return getattr(StubAgent._template, name)

    def clone(self, index=None, wrap=True):
        c = copy.deepcopy(self)
        if index is not None:
            c.index = index
        return c


class Pool:
    """real agents, built once per run (a case re-labels them; `select` must not change them)"""

    def __init__(self):
        self.agents: list = []
        self.families: dict = {}

    def family(self, algo: str, family: str, j: int):
        """j-th real agent of `algo` over observation family `family`, built with the smallest legal
        networks (agents.py) and given a real history: it has acted (the bandits' confidence matrix
        has moved away from its initial value) and learned twice (weights away from their initial
        values, optimizer moments, counters), so that a copy that forgets or re-initialises part of
        the state differs from its parent."""
        import agents as A
        lst = self.families.setdefault((algo, family), [])
        while len(lst) <= j:
            k = len(lst)
            a = A.build(algo, family, seed=4100 + k, index=k, hp_config=A.default_hp_config(algo))
            obs = A.sample_obs(a, algo, family, 4, seed=3)
            for st in range(2):
                A.greedy_action(a, algo, obs, torch_seed=5 + st, preserve_state=False)
                A.learn_once(a, algo, family, seed=20 + st + k)
            setattr(a, FAM, (algo, family))
            lst.append(a)
        return lst[j]

    def wrapped(self, spec: dict, algo: str, family: str, j: int):
        """j-th agent of `algo` over `family` inside the agent wrapper `spec` = {"cls": name, "kwargs": {...}}.
        It has acted twice in training mode on batches of its own (a wrapper that keeps running statistics has
        updated them: every member of a population normalises differently) and learned through the wrapper.
        Whether acting / learning works for the combination is not C05's subject: if the wrapper's statistics did
        not move that way they are moved through the statistics objects' own `update`."""
        import agents as A
        key = ("wrapped", spec["cls"], json.dumps(spec.get("kwargs", {}), sort_keys=True), algo, family)
        lst = self.families.setdefault(key, [])
        while len(lst) <= j:
            k = len(lst)
            inner = A.build(algo, family, seed=4300 + k, index=k, hp_config=A.default_hp_config(algo))
            w = wrapper_classes()[spec["cls"]](inner, **spec.get("kwargs", {}))
            before = [t.detach().clone() for t in wrapper_state(w)]
            for st in range(2):
                obs = A.sample_obs(w, algo, family, 4 + st, seed=3 + st + 7 * k)
                for step in (lambda: A.greedy_action(w, algo, obs, torch_seed=5 + st, preserve_state=False),
                             lambda: A.learn_once(w, algo, family, seed=20 + st + k)):
                    try:
                        step()
                    except Exception:
                        pass
            after = wrapper_state(w)
            if len(after) == len(before) and all(x.shape == y.shape and torch.equal(x, y) for x, y in zip(after, before)):
                torch.manual_seed(4400 + k)
                for so in statistics_objects(w):
                    so.update((k + 1.0) * torch.rand((5 + k,) + tuple(so.mean.shape)) - 0.25 * k)
            setattr(w, FAM, (algo, family))
            lst.append(w)
        return lst[j]

    @staticmethod
    def build(seed: int, index: int, net_config=None):
        from gymnasium import spaces
        from agilerl.algorithms.dqn import DQN
        torch.manual_seed(seed)
        obs = spaces.Box(-1, 1, (3,), dtype=np.float32)
        return DQN(obs, spaces.Discrete(2), index=index, net_config=copy.deepcopy(net_config or NET_CONFIG))

    def get(self, j: int, net_config=None):
        while len(self.agents) <= j:
            self.agents.append(Pool.build(7000 + len(self.agents), len(self.agents), net_config))
        return self.agents[j]

    @staticmethod
    def template():
        """the real agent behind every attribute a stub does not define itself"""
        if StubAgent._template is None:
            StubAgent._template = Pool.build(6999, 0)
        return StubAgent._template


def is_stub(a) -> bool:
    return isinstance(a, StubAgent)


def wrapper_classes() -> dict:
    """every concrete AgentWrapper subclass agilerl/wrappers/agent.py defines (RSNorm, …), by name"""
    import inspect
    import agilerl.wrappers.agent as WA
    return {n: c for n, c in sorted(vars(WA).items())
            if inspect.isclass(c) and issubclass(c, WA.AgentWrapper) and c is not WA.AgentWrapper
            and not inspect.isabstract(c)}


def unwrap(a):
    """(algorithm, wrapper or None)"""
    if is_stub(a):
        return a, None
    import walker
    return walker.unwrap(a)


def wrapper_state(w, depth: int = 0, seen=None) -> list:
    """the tensors a wrapper object holds itself (not the wrapped algorithm's): instance attributes, dict- / list- /
    tuple-valued ones element by element, plain objects (running statistics) through their __dict__"""
    if seen is None:
        seen = set()
    out = []
    items = [v for k, v in vars(w).items() if k != "agent"] if depth == 0 else [w]
    for v in items:
        if id(v) in seen or depth > 4:
            continue
        seen.add(id(v))
        if isinstance(v, torch.Tensor):
            out.append(v)
        elif isinstance(v, dict):
            for e in v.values():
                out += wrapper_state(e, depth + 1, seen)
        elif isinstance(v, (list, tuple)):
            for e in v:
                out += wrapper_state(e, depth + 1, seen)
        elif hasattr(v, "__dict__") and not callable(v) and not isinstance(v, (torch.nn.Module, type)) \
                and type(v).__module__.startswith("agilerl"):
            for e in vars(v).values():
                out += wrapper_state(e, depth + 1, seen)
    return out


def statistics_objects(w, depth: int = 0, seen=None) -> list:
    """the running-statistics objects a wrapper holds (objects with an `update(batch)` method and a `mean` tensor)"""
    if seen is None:
        seen = set()
    out = []
    items = [v for k, v in vars(w).items() if k != "agent"] if depth == 0 else [w]
    for v in items:
        if id(v) in seen or depth > 4:
            continue
        seen.add(id(v))
        if isinstance(v, dict):
            for e in v.values():
                out += statistics_objects(e, depth + 1, seen)
        elif isinstance(v, (list, tuple)):
            for e in v:
                out += statistics_objects(e, depth + 1, seen)
        elif callable(getattr(v, "update", None)) and isinstance(getattr(v, "mean", None), torch.Tensor):
            out.append(v)
    return out


def all_groups(a) -> dict:
    """walker attribute groups of an agent: every network, optimizer and other attribute of the algorithm and — for
    an agent inside an AgentWrapper — `wrap:<name>` for every instance attribute of the wrapper object (its running
    statistics walked element by element: dict / tuple / list entries, each statistics object through its __dict__)"""
    import walker
    inner, w = unwrap(a)
    groups = walker.family_groups(a)
    if w is not None:
        for name in sorted(vars(w)):
            v = vars(w)[name]
            if name == "agent" or "wrap:" + name in groups or callable(v):
                continue
            cells: dict = {}
            walker.walk(v, cells, name)
            g = {"kind": walker.classify(v, False), "cells": cells}
            if walker.is_immutable(v):
                g["imm"] = repr(v)
            groups["wrap:" + name] = g
    return groups


def fam_of(a):
    """(algo, family) of an agent built through agents.py, else None"""
    if is_stub(a):
        return None
    v = getattr(a, FAM, None)
    return tuple(v) if isinstance(v, (tuple, list)) and len(v) == 2 else None


def modules_of(a) -> list:
    out = []
    nets = a.evolvable_attributes(networks_only=True)
    for name in sorted(nets):
        mod = nets[name]
        out += list(mod) if isinstance(mod, list) else [mod]
    return out


def params_of(a) -> list:
    return [p for m in modules_of(a) for p in m.parameters()]


def weights_of(a) -> dict:
    if is_stub(a):
        return {"w": torch.tensor(a.w, dtype=torch.float64)}
    out = {}
    for name, mod in a.evolvable_attributes(networks_only=True).items():
        for j, m in enumerate(mod if isinstance(mod, list) else [mod]):
            for k, v in m.state_dict().items():
                out[f"{name}.{j}.{k}"] = v.detach().clone()
    return out


def forward_of(a):
    """what the agent computes on a fixed probe: network outputs (DQN pool) / greedy action (families)"""
    if is_stub(a):
        return None
    fam = fam_of(a)
    if fam is not None:
        import agents as A
        try:
            obs = A.sample_obs(a, fam[0], fam[1], 3, seed=17)
            w = unwrap(a)[1]
            if w is not None:
                return wrapped_forward(a, w, fam[0], obs)
            return ["greedy", A.greedy_action(a, fam[0], obs, torch_seed=7, preserve_state=True)]
        except Exception as ex:   # an agent that can no longer act is reported through the comparison
            return ["raised", type(ex).__name__]
    with torch.no_grad():
        return [a.actor(PROBE_OBS).clone(), a.actor_target(PROBE_OBS).clone()]


def wrapped_forward(a, w, algo: str, obs):
    """what a wrapped agent computes on a probe, without side effect: evaluation mode (a wrapper that keeps running
    statistics only updates them in training mode), the greedy action AND the observation the wrapper hands to the
    algorithm's own get_action (= the probe seen through the wrapper's state)"""
    import agents as A
    fed = []
    orig = vars(w).get("agent_get_action")
    was = bool(a.training)

    def recording(o, *args, **kw):
        fed.append(copy.deepcopy(o))
        return orig(o, *args, **kw)
    try:
        a.set_training_mode(False)
        if orig is not None:
            object.__setattr__(w, "agent_get_action", recording)
        act = A.greedy_action(a, algo, obs, torch_seed=7, preserve_state=True)
    finally:
        if orig is not None:
            object.__setattr__(w, "agent_get_action", orig)
        a.set_training_mode(was)
    return ["greedy", act, "fed", fed]


def groups_of(a):
    """walker value fingerprint per attribute group (every network, optimizer, and every other
    attribute `clone()` handles: sigma_inv, theta_0, counters, hyper-parameters, score lists …) —
    measured for family agents only (cost)"""
    if fam_of(a) is None:
        return None
    import walker
    return {n: walker.group_value(g) for n, g in all_groups(a).items()}


def snapshot(a) -> dict:
    return {"index": a.index, "fitness": list(a.fitness), "scores": list(a.scores), "steps": list(a.steps),
            "mut": a.mut, "tag": getattr(a, TAG, None), "weights": weights_of(a), "groups": groups_of(a),
            "fwd": forward_of(a), "ids": (id(a.fitness), id(a.scores), id(a.steps))}


def same_tensors(x: dict, y: dict) -> bool:
    return x.keys() == y.keys() and all(x[k].shape == y[k].shape and torch.equal(x[k], y[k]) for k in x)


def same_value(a, b) -> bool:
    if isinstance(a, dict):
        return isinstance(b, dict) and a.keys() == b.keys() and all(same_value(a[k], b[k]) for k in a)
    if isinstance(a, (list, tuple)):
        return isinstance(b, (list, tuple)) and len(a) == len(b) and all(same_value(x, y) for x, y in zip(a, b))
    if isinstance(a, str) or isinstance(b, str) or a is None or b is None:
        return a == b
    if isinstance(a, torch.Tensor):
        a = a.detach().cpu().numpy()
    if isinstance(b, torch.Tensor):
        b = b.detach().cpu().numpy()
    return np.array_equal(np.asarray(a), np.asarray(b))


def same_fwd(x, y) -> bool:
    if x is None or y is None:
        return x is None and y is None
    return same_value(x, y)


def group_diff(now: dict, then: dict, skip=()) -> list[str]:
    """names of the attribute groups whose value fingerprint differs"""
    names = sorted(set(now) | set(then))
    return [n for n in names if n not in skip and now.get(n) != then.get(n)]


def snapshot_diff(a, s: dict) -> list[str]:
    """what differs between the live agent and its earlier snapshot"""
    out = []
    if a.index != s["index"]:
        out.append(f"index {s['index']} -> {a.index}")
    for name in ("fitness", "scores", "steps"):
        if list(getattr(a, name)) != s[name]:
            out.append(f"{name} {s[name]} -> {list(getattr(a, name))}")
    if (id(a.fitness), id(a.scores), id(a.steps)) != s["ids"]:
        out.append("a history list object was replaced")
    if a.mut != s["mut"]:
        out.append(f"mut {s['mut']} -> {a.mut}")
    if getattr(a, TAG, None) != s["tag"]:
        out.append("marker changed")
    if not same_tensors(weights_of(a), s["weights"]):
        out.append("weights changed")
    if s.get("groups") is not None:
        d = group_diff(groups_of(a) or {}, s["groups"])
        if d:
            out.append("state changed: " + ", ".join(d))
    if not same_fwd(forward_of(a), s["fwd"]):
        out.append("forward output changed")
    return out


# ----------------------------------------------------------------------------- exact means
def key_of(fitness: list, w: int):
    l = fitness[-w:]
    if not l:
        return None                      # np.mean([]) = NaN
    return sum((Fraction(x) for x in l), Fraction(0)) / len(l)


def show_key(k) -> str:
    if k is None:
        return "nan"
    return str(k.numerator) if k.denominator == 1 else f"{k.numerator}/{k.denominator}"


# ----------------------------------------------------------------------------- one selection
def select_once(ts, pop, seed: int):
    """real select with the randint draws recorded; returns (snapshots, draws, elite, new)"""
    snaps = [snapshot(a) for a in pop]
    calls: list[list[int]] = []
    orig = np.random.randint

    def recording(*a, **k):
        r = orig(*a, **k)
        calls.append([int(v) for v in np.asarray(r).reshape(-1)])
        return r
    np.random.seed(seed % (2 ** 32))
    random.seed(seed)
    torch.manual_seed(seed)
    np.random.randint = recording
    try:
        with warnings.catch_warnings():
            warnings.simplefilter("ignore")          # "Mean of empty slice" for unevaluated agents
            elite, new = ts.select(pop)
    finally:
        np.random.randint = orig
    return snaps, calls, elite, new


def settle_draws(cfg, npop: int, n_new: int, calls: list, seed: int):
    """the draws each tournament member has to be judged against.  Normally the recorded ones.  If the
    implementation did not make one `np.random.randint` call of `tournament_size` positions per
    tournament member (e.g. a shortcut that skips the draw), fall back on the draws the documented
    protocol — `np.random.randint(0, len(population), size=tournament_size)` per member, in order —
    yields under this seed.  returns (draws, note or None)"""
    k, e, n, w = cfg
    n_kids = max(0, n_new - (1 if e else 0))
    ok = len(calls) == n_kids and all(len(c) == k and all(0 <= d < npop for d in c) for c in calls)
    if ok:
        return calls, None
    state = np.random.get_state()
    np.random.seed(seed % (2 ** 32))
    pred = [[int(v) for v in np.random.randint(0, npop, size=k)] for _ in range(n_kids)]
    np.random.set_state(state)
    note = (f"the implementation made {len(calls)} np.random.randint draw(s) of sizes {[len(c) for c in calls][:6]} "
            f"for {n_kids} tournament member(s) of tournament_size {k}; judged against the draws "
            f"np.random.randint(0, {npop}, size={k}) yields under the case seed")
    return pred, note


def perturb(o):
    """change everything a training loop changes on an agent; returns the undo function"""
    old_index, old_mut = o.index, o.mut
    o.fitness.append(12345.0)
    o.scores.append(12345.0)
    o.steps.append(12345)
    o.index = old_index + 100000
    o.mut = "verif-perturbed"
    if is_stub(o):
        o.w[0] += 1.0
        saved = None
    else:
        p = params_of(o)[0]
        saved = p.detach().clone()
        with torch.no_grad():
            p.add_(1.0)
    # a wrapped agent: also the wrapper's own state (first statistics tensor), in place
    w = unwrap(o)[1]
    wt = wrapper_state(w)[:1] if w is not None else []
    wsaved = [t.detach().clone() for t in wt]
    with torch.no_grad():
        for t in wt:
            t.add_(1.0)

    def undo():
        with torch.no_grad():
            for t, sv in zip(wt, wsaved):
                t.copy_(sv)
        o.fitness.pop()
        o.scores.pop()
        o.steps.pop()
        o.index = old_index
        o.mut = old_mut
        if is_stub(o):
            o.w[0] -= 1.0
        else:
            with torch.no_grad():
                p.copy_(saved)
    return undo


def copy_problems(label: str, child, parent, psnap: dict) -> list[str]:
    """is `child` a faithful and independent copy of `parent` (whose pre-select snapshot is psnap)"""
    out = []
    for name in ("fitness", "scores", "steps"):
        if list(getattr(child, name)) != psnap[name]:
            out.append(f"{label}: {name} {list(getattr(child, name))} is not the parent's {psnap[name]}")
        if getattr(child, name) is getattr(parent, name):
            out.append(f"{label}: shares its {name} list object with the parent")
    if child.mut != psnap["mut"]:
        out.append(f"{label}: mut {child.mut!r} is not the parent's {psnap['mut']!r}")
    cw = weights_of(child)
    if not same_tensors(cw, psnap["weights"]):
        out.append(f"{label}: weights differ from the parent's")
    if psnap.get("groups") is not None:
        d = group_diff(groups_of(child) or {}, psnap["groups"], skip=DIFFER_OK)
        if d:
            fam = fam_of(child) or fam_of(parent) or ("?", "?")
            out.append(f"{label}: not a faithful copy of its parent ({fam[0]} agent that has acted and learned): "
                       f"{', '.join(d)} differ{'s' if len(d) == 1 else ''} from the parent's")
    if not out and not same_fwd(forward_of(child), psnap["fwd"]):
        out.append(f"{label}: same weights but the networks compute different outputs than the parent's")
    if not is_stub(child):
        mine = {q.data_ptr() for q in params_of(child)}
        if any(q.data_ptr() in mine for q in params_of(parent)):
            out.append(f"{label}: shares parameter storage with the parent")
    if out:
        return out
    # independence: changing the copy must not change the parent
    undo = perturb(child)
    d = snapshot_diff(parent, psnap)
    if d:
        out.append(f"{label}: changing the copy changed the parent ({'; '.join(d)})")
    undo()
    return out


def alias_problems(pop: list, objs: list) -> list[str]:
    """family agents: no mutable state (network tensors, optimizer state, non-network tensors such as
    sigma_inv / theta_0, score lists, …) is shared between an old agent and a returned one or between
    two returned ones.  Constructor arguments handed on by reference (net_config, noise arrays:
    walker kinds ending in ':c') are C01's subject and not judged here."""
    if not objs or fam_of(objs[0][1]) is None:
        return []
    import walker
    labelled = [(f"population[{j}]", a) for j, a in enumerate(pop)] + list(objs)
    groups = {i: all_groups(o) for i, (_, o) in enumerate(labelled)}
    out = []
    for i, ga, j, gb in sorted(walker.alias_pairs(groups)):
        if i < len(pop) and j < len(pop):
            continue
        ka, kb = groups[i][ga]["kind"], groups[j][gb]["kind"]
        if ka.endswith(":c") or kb.endswith(":c") or ka in ("imm", "cal") or kb in ("imm", "cal"):
            continue
        out.append(f"{labelled[i][0]} and {labelled[j][0]} share storage: {ga} / {gb}")
    return out[:4]


def sibling_problems(objs: list) -> list[str]:
    """the objects `select` returns (elite + every member) are independent of one another:
    no shared history list / parameter storage, and changing one changes no other"""
    out = []
    for name in ("fitness", "scores", "steps"):
        seen: dict = {}
        for label, o in objs:
            k = id(getattr(o, name))
            if k in seen:
                out.append(f"{seen[k]} and {label} share one {name} list object")
            seen.setdefault(k, label)
    seen = {}
    for label, o in objs:
        if is_stub(o):
            k = [id(o.w)]
        else:
            k = [q.data_ptr() for q in params_of(o)]
        for x in k:
            if x in seen and seen[x] != label:
                out.append(f"{seen[x]} and {label} share weight storage")
                break
            seen.setdefault(x, label)
    if out:
        return out
    snaps = [snapshot(o) for _, o in objs]
    n = len(objs)
    picks = range(n) if n <= 8 else sorted({0, 1, 2, n // 3, n // 2, n - 1})
    for i in picks:
        label, o = objs[i]
        undo = perturb(o)
        for j, (l2, o2) in enumerate(objs):
            if j != i:
                d = snapshot_diff(o2, snaps[j])
                if d:
                    out.append(f"changing {label} (scores, index, mut, a weight) changed {l2}: {'; '.join(d)}")
        undo()
        if out:
            break
    return out


def oracle(cfg, pop, snaps, calls, elite, new, draw_note=None) -> tuple[list[str], list[str]]:
    """the property on the implementation's own objects; returns (problems, tags)"""
    k, e, n, w = cfg
    problems, tags = [], []
    keys = [key_of(s["fitness"], w) for s in snaps]
    evaluated = all(x is not None for x in keys)
    if not evaluated:
        tags.append("nan-history(mean-clauses-skipped)")

    def parent_of(obj):
        t = getattr(obj, TAG, None)
        return t if isinstance(t, int) and 0 <= t < len(pop) else None

    # every returned agent is an object of its own, and none is an old population member
    objs = [("the returned elite", elite)] + [(f"new_population[{j}]", c) for j, c in enumerate(new)]
    for i in range(len(objs)):
        for j in range(i + 1, len(objs)):
            if objs[i][1] is objs[j][1]:
                what = "elite" if i == 0 else objs[i][0]
                problems.append(f"{what} is the same object as {objs[j][0]}: whatever happens to one of them "
                                f"(training, scoring, mutation) happens to the other")
    for label, o in objs:
        for j, a in enumerate(pop):
            if o is a:
                problems.append(f"{label} is the very object population[{j}] of the old population, not a copy")
    if problems:
        return problems, tags
    problems += alias_problems(pop, objs)

    # elite = copy of an agent with maximal mean
    te = parent_of(elite)
    if te is None:
        problems.append("the returned elite carries no recoverable parent")
    else:
        if evaluated and any(keys[te] < x for x in keys):
            problems.append(f"elite's mean {show_key(keys[te])} is not the maximum of {[show_key(x) for x in keys]}")
        if evaluated and sum(1 for x in keys if x == max(keys)) > 1:
            tags.append("tie-at-top")
        if elite.index != snaps[te]["index"]:
            problems.append(f"elite index {elite.index} != index {snaps[te]['index']} of the best agent")
        problems += copy_problems("elite", elite, pop[te], snaps[te])
    # size
    if len(new) != n:
        problems.append(f"new population has {len(new)} members, population_size is {n}")
    # first is elite
    off = 1 if e else 0
    if e:
        if not new or parent_of(new[0]) != te or te is None:
            problems.append("elitism: first member is not a copy of the elite")
        else:
            if new[0].index != snaps[te]["index"]:
                problems.append(f"elitism: first member has index {new[0].index}, the elite has {snaps[te]['index']}")
            problems += copy_problems("member 0 (elite slot)", new[0], pop[te], snaps[te])
    # tournament children
    kids = new[off:]
    draws_ok = len(calls) == len(kids) and all(c and all(0 <= d < len(pop) for d in c) for c in calls)
    for t, ch in enumerate(kids):
        tp = parent_of(ch)
        if tp is None:
            problems.append(f"member {off + t} carries no recoverable parent")
            continue
        if draws_ok:
            drawn = calls[t]
            if len(set(drawn)) > 1:
                tags.append("tournament-distinct-drawn")
            if tp not in drawn:
                problems.append(f"member {off + t}: parent (position {tp}) is not among the drawn {drawn}"
                                + (f" [{draw_note}]" if draw_note else ""))
            elif evaluated:
                if any(keys[tp] < keys[d] for d in drawn):
                    problems.append((f"[{draw_note}] " if draw_note else "") +
                                    f"member {off + t}: parent's mean {show_key(keys[tp])} is below a drawn agent's "
                                    f"({[show_key(keys[d]) for d in drawn]})")
                if sum(1 for d in set(drawn) if keys[d] == keys[tp]) > 1:
                    tags.append("tie-among-drawn")
        problems += copy_problems(f"member {off + t}", ch, pop[tp], snaps[tp])
    # indices
    idx = [c.index for c in new]
    if len(set(idx)) != len(idx):
        problems.append(f"indices of the new population are not distinct: {idx}")
    old_max = max(s["index"] for s in snaps)
    for t, ch in enumerate(kids):
        if not ch.index > old_max:
            problems.append(f"member {off + t} got index {ch.index}, not above the old indices (max {old_max})")
    # the returned agents are independent of one another
    if not problems:
        problems += sibling_problems(objs)
    # old population untouched
    for j, (a, s) in enumerate(zip(pop, snaps)):
        d = snapshot_diff(a, s)
        if d:
            problems.append(f"old population changed by select: agent at position {j}: {'; '.join(d)}")
    return problems, tags


def canonical(cfg, pop, snaps, elite, new) -> str:
    k, e, n, w = cfg

    def pkey(obj):
        t = getattr(obj, TAG, None)
        if not (isinstance(t, int) and 0 <= t < len(snaps)):
            return "?"
        return show_key(key_of(snaps[t]["fitness"], w))
    def pidx(obj, elite_slot):
        # which of several tied agents becomes the elite is open, hence so is the index it keeps:
        # in the elite slots compare "keeps the parent's index", elsewhere the number itself
        t = getattr(obj, TAG, None)
        if elite_slot and isinstance(t, int) and 0 <= t < len(snaps) and obj.index == snaps[t]["index"]:
            return "keep"
        return str(obj.index)
    parts = [f"E {pkey(elite)} {pidx(elite, True)}"]
    for j, ch in enumerate(new):
        slot = bool(e and j == 0)
        parts.append(f"{pkey(ch)} {pidx(ch, slot)} {1 if slot else 0}")
    return " ; ".join(parts)


def model_lines(cfg, snaps, calls, rank=None) -> list[str]:
    k, e, n, w = cfg
    lines = [f"tourn cfg {k} {1 if e else 0} {n} {w}"]
    for s in snaps:
        fs = " ".join(show_key(Fraction(x)) for x in s["fitness"])
        lines.append(f"tourn agent {s['index']} {fs}".rstrip())
    if rank is not None:
        lines.append("tourn ranking " + " ".join(map(str, rank)))
    lines.append(("tourn select " + " ".join(str(d) for c in calls for d in c)).rstrip())
    return lines


# ----------------------------------------------------------------------------- cases
VALUE_POOLS = {
    "small-int": [-2, -1, 0, 1, 2],
    "binary": [0, 1],
    "const": [3],
    "quarters": [Fraction(v, 4) for v in range(-9, 10)],
    "wide": list(range(-50, 51)),
}


def gen_agents(rng: random.Random, npop: int, w: int, pool: list, style: str, with_empty: bool = False) -> list:
    """one population: fitness histories from `pool`, indices according to `style`"""
    same_len = rng.random() < 0.3
    base_len = rng.randint(1, w + 2)
    if style == "low":
        indices = list(range(npop))
        rng.shuffle(indices)
    elif style == "offset":
        off = rng.randint(1, 500)
        indices = rng.sample(range(off, off + 3 * npop + 2), npop)
    elif style == "high":
        off = rng.randint(1000, 5000)
        indices = rng.sample(range(off, off + 2 * npop + 2), npop)
    else:   # "mixed": negative, sparse
        indices = rng.sample(range(-20, 60), npop)
    agents = []
    for j in range(npop):
        ln = base_len if same_len else rng.randint(1, w + 2)
        agents.append({"index": indices[j], "fitness": [str(rng.choice(pool)) for _ in range(ln)]})
    if with_empty:
        agents[rng.randrange(npop)]["fitness"] = []
    return agents


def gen_case(rng: random.Random, kind: str, tier: str, chain: bool = False, session: bool = False) -> dict:
    """a case = one TournamentSelection object serving one or several populations ("agents"/"gens"
    and the further segments in "more"); in chains the population may be re-indexed between
    generations ("reindex" = probability per generation)"""
    if kind == "real":
        npop = rng.choice([1, 2, 2, 3, 3, 4, 4, 5, 6]) if not (chain or session) else rng.choice([2, 3])
        if chain:
            npop = 2
    else:
        npop = rng.choice([1, 2, 3, 4, 5, 6, 8, 10, 12]) if rng.random() < 0.85 else rng.choice([17, 24, 40])
        if chain or session:
            npop = rng.choice([2, 3, 4, 6])
    n = npop if rng.random() < 0.7 else rng.randint(1, npop + 3)
    if kind == "real":
        n = min(n, 6 if not session else 3)
    k = rng.randint(1, npop + 2) if rng.random() < 0.8 else rng.choice([1, 2, 3])
    w = rng.choice([1, 2, 3, 4])
    e = rng.random() < 0.6
    pool = VALUE_POOLS[rng.choice(["small-int", "small-int", "binary", "const", "quarters", "wide"])]
    style = rng.choices(["low", "offset", "mixed", "high"], [60, 20, 15, 5])[0]
    agents = gen_agents(rng, npop, w, pool, style, with_empty=(rng.random() < 0.06 and not chain and not session))
    gens = 1 if not chain else (rng.randint(20, 24) if tier == "quick" else rng.randint(30, 50))
    case = {"kind": kind, "cfg": [k, e, n, w], "agents": agents, "seed": rng.randrange(1 << 30),
            "gens": gens, "pool": [str(v) for v in pool]}
    if chain and rng.random() < 0.5:
        case["reindex"] = 0.3
    if session:
        # the same selector is afterwards handed unrelated populations: other sizes, other index ranges
        # (above, below, overlapping what it has seen and handed out before)
        more = []
        for _ in range(rng.randint(1, 3) if kind == "stub" else 1):
            m = rng.choice([1, 2, 3, 4, 6]) if kind == "stub" else rng.choice([2, 3])
            st = rng.choice(["low", "offset", "mixed", "high"])
            more.append({"agents": gen_agents(rng, m, w, pool, st), "gens": rng.choice([1, 1, 2, 3]) if kind == "stub" else 1})
        case["more"] = more
        case["gens"] = rng.choice([1, 1, 2, 3]) if kind == "stub" else 1
        if rng.random() < 0.3:
            case["reindex"] = 0.5
    return case


def segments_of(case: dict) -> list:
    return [{"agents": case["agents"], "gens": case.get("gens", 1)}] + list(case.get("more", []))


def with_segments(case: dict, segs: list) -> dict:
    c = dict(case)
    c["agents"], c["gens"] = segs[0]["agents"], segs[0]["gens"]
    c["more"] = [dict(x) for x in segs[1:]]
    return c


def implementation_rank(ts, pop):
    """the rank array and max_id the implementation computes (`_elitism`), so that the model can test
    numpy's actual ranking against the relational specification `IsRanking` the theorems assume.
    Skipped silently if a refactoring removed the helper."""
    fn = getattr(ts, "_elitism", None)
    if fn is None:
        return None, []
    try:
        with warnings.catch_warnings():
            warnings.simplefilter("ignore")
            _, rank, max_id = fn(pop)
        rank = [int(x) for x in rank]
        if len(rank) != len(pop) or any(x < 0 for x in rank):
            return None, []
        return rank, [f"1 {int(max_id)}"]
    except Exception:
        return None, []


FAMILY_ALGOS_QUICK = ["DQN", "DDPG", "TD3", "PPO", "MADDPG", "NeuralUCB", "NeuralTS"]
FAMILY_ALGOS_MORE = ["CQN", "RainbowDQN", "MATD3", "IPPO"]


def build_population(kind: str, specs: list, pool: Pool, case: dict | None = None) -> list:
    pop = []
    for j, spec in enumerate(specs):
        if kind == "real":
            a = pool.get(j)
        elif kind in ("fam", "wire"):
            if case.get("wrapper"):
                a = pool.wrapped(case["wrapper"], case["algo"], case.get("family", "vector"), j)
            else:
                a = pool.family(case["algo"], case.get("family", "vector"), j)
        else:
            a = StubAgent(j)
        a.index = int(spec["index"])
        a.fitness = [float(Fraction(s)) for s in spec["fitness"]]
        a.scores = [float(j), float(-j)]
        a.steps = [0, 10 * j]
        a.mut = None
        setattr(a, TAG, j)
        pop.append(a)
    return pop


def run_case(case: dict, pool: Pool):
    """runs every population / generation of a case through ONE selector object of the real
    implementation.  returns (impl_lines, model_op_lines, problems, tags)"""
    from agilerl.hpo.tournament import TournamentSelection
    if case["kind"] == "wire":
        return run_wire_case(case, pool)
    k, e, n, w = case["cfg"]
    cfg = (int(k), bool(e), int(n), int(w))
    impl, ops, problems, tags = [], [], [], []
    try:
        ts = TournamentSelection(cfg[0], cfg[1], cfg[2], cfg[3])
    except AssertionError:
        return ["reject"], [f"tourn cfg {cfg[0]} {1 if cfg[1] else 0} {cfg[2]} {cfg[3]}"], [], ["ctor-reject"]
    if case["kind"] == "stub":
        Pool.template()
    if case["kind"] == "fam":
        tags.append(f"family-{case['algo']}")
    tags += wrapper_tags(case)
    segments = segments_of(case)
    if not segments[0]["agents"] and len(segments) == 1:
        try:
            ts.select([])
            impl_line = "no-error"
        except Exception:
            impl_line = "reject"
        return (["ok", impl_line], [f"tourn cfg {cfg[0]} {1 if cfg[1] else 0} {cfg[2]} {cfg[3]}", "tourn select"],
                [], ["empty-population"])
    values = [Fraction(v) for v in case.get("pool", ["0", "1"])]
    reindex_p = float(case.get("reindex", 0))
    tags.append("elitism-on" if cfg[1] else "elitism-off")
    tags.append(f"kind-{case['kind']}")
    if len(segments) > 1:
        tags.append("selector-reused-on-unrelated-population")
    many = len(segments) > 1 or any(sg["gens"] > 1 for sg in segments)
    for si, seg in enumerate(segments):
        specs = seg["agents"]
        if not specs:
            continue
        pop = build_population(case["kind"], specs, pool, case)
        if cfg[0] > len(pop):
            tags.append("tsize>population")
        if cfg[2] != len(pop):
            tags.append("len(pop)!=population_size")
        if any(len(s["fitness"]) < cfg[3] for s in specs):
            tags.append("history-shorter-than-window")
        if len({len(s["fitness"]) for s in specs}) > 1:
            tags.append("unequal-lengths")
        if any(Fraction(v) < 0 for s in specs for v in s["fitness"]):
            tags.append("negative-scores")
        if seg["gens"] > 1:
            tags.append("chain")
        for g in range(seg["gens"]):
            rank, rank_line = implementation_rank(ts, pop)
            sseed = case["seed"] + 1000 * si + g
            snaps, calls, elite, new = select_once(ts, pop, sseed)
            calls, draw_note = settle_draws(cfg, len(pop), len(new), calls, sseed)
            if draw_note:
                tags.append("draws-predicted-from-seed")
            impl += ["ok"] * (1 + len(snaps)) + rank_line + [canonical(cfg, pop, snaps, elite, new)]
            ops += model_lines(cfg, snaps, calls, rank)
            p, t = oracle(cfg, pop, snaps, calls, elite, new, draw_note)
            where = (f"population {si}, " if len(segments) > 1 else "") + f"generation {g}: "
            problems += [where + x for x in p] if many else p
            tags += t
            if p:
                return impl, ops, problems, tags
            # next generation: the children are evaluated again (most of them); their indices are
            # kept, or - `reindex` - replaced by unrelated ones (restored / re-numbered population)
            if g + 1 < seg["gens"]:
                r = random.Random(case["seed"] * 31 + 1000 * si + g)
                pop = list(new)
                for j, a in enumerate(pop):
                    setattr(a, TAG, j)
                    if r.random() < 0.9:
                        a.fitness.append(float(r.choice(values)))
                if r.random() < reindex_p:
                    base = r.choice([-50, 0, 3, 40, 700, 9000])
                    fresh = r.sample(range(base, base + 2 * len(pop) + 1), len(pop))
                    for a, ix in zip(pop, fresh):
                        a.index = ix
                    tags.append("reindexed-between-generations")
    return impl, ops, problems, tags


def wrapper_tags(case: dict) -> list:
    w = case.get("wrapper")
    if not w:
        return []
    return [f"wrapped-{w['cls']}", f"wrapped-{w['cls']}-obs-{case.get('family', 'vector')}",
            "wrapper-options-" + ("default" if not w.get("kwargs") else "+".join(sorted(w["kwargs"])))]


def wrapper_specs(family: str) -> list:
    """every agent wrapper class of the library x its option sets (those its constructor accepts on `family`)"""
    import agents as A
    if family not in _SPEC_CACHE:
        out = []
        for name, cls in wrapper_classes().items():
            for kw in WRAPPER_OPTIONS.get(name, [{}]):
                try:
                    cls(A.build("DQN", family, seed=1), **kw)
                except Exception:
                    continue                # e.g. RSNorm(norm_obs_keys=[...]) on a Dict space raises in build_rms
                out.append({"cls": name, "kwargs": dict(kw)})
        _SPEC_CACHE[family] = out
    return [dict(sp, kwargs=dict(sp["kwargs"])) for sp in _SPEC_CACHE[family]]


_SPEC_CACHE: dict = {}


def gen_family_case(rng: random.Random, algo: str, family: str = "vector", wire: bool = False) -> dict:
    """select() (kind "fam") or tournament_selection_and_mutation (kind "wire") on real agents of `algo`
    that have acted and learned"""
    # every length of the population handed in, incl. 1, and configured sizes equal to / different from it
    npop = rng.choice([1, 2, 3, 3]) if not wire else rng.choice([1, 1, 2, 2, 3])
    n = rng.choice([npop, npop, 2, 4]) if not wire else rng.choice([npop, 1, 2, 3, 4])
    k = rng.randint(1, npop + 1)
    w = rng.choice([1, 2, 3])
    e = rng.random() < 0.6
    pool = VALUE_POOLS[rng.choice(["small-int", "binary", "quarters"])]
    style = rng.choice(["low", "offset", "mixed"])
    case = {"kind": "wire" if wire else "fam", "algo": algo, "family": family, "cfg": [k, e, n, w],
            "agents": gen_agents(rng, npop, w, pool, style), "seed": rng.randrange(1 << 30),
            "gens": 1 if wire else rng.choice([1, 1, 2]), "pool": [str(v) for v in pool]}
    if wire:
        case["save_elite"] = rng.random() < 0.8
        case["elite_path"] = rng.choice([None, "elite_dir/best.pt", "best_agent"])
        case["mutate_elite"] = rng.random() < 0.5
        case["mutation"] = rng.choice(["param", "param", "rl_hp", "none", "act", "arch", "mixed"])
    return case


WRAPPED_FAMILIES = ["vector", "dict", "tuple"]
WRAPPED_ALGOS_QUICK = ["DQN", "DDPG"]
WRAPPED_ALGOS_MORE = ["TD3", "CQN", "MADDPG"]
MUTATION_KINDS = ["rl_hp", "param", "arch", "act", "none", "mixed"]


def wrapped_cases(rng: random.Random, quick: bool) -> list:
    """per (wrapper class, option set, observation family): one select() case (kind "fam") and one evolution-step
    case (kind "wire", nothing check-pointed: `Algo.load` does not restore wrappers).  quick: every class with default
    options on every family + two drawn non-default option sets; thorough: the full grid over more algorithms."""
    combos = []
    for fam in WRAPPED_FAMILIES:
        specs = wrapper_specs(fam)
        default = [sp for sp in specs if not sp["kwargs"]]
        other = [sp for sp in specs if sp["kwargs"]]
        if quick:
            combos += [(sp, fam, "DQN") for sp in default]
            combos += [(sp, fam, "DQN") for sp in (rng.sample(other, 1) if other and fam != "vector" else [])]
        else:
            combos += [(sp, fam, a) for sp in specs for a in ["DQN", rng.choice(WRAPPED_ALGOS_QUICK[1:] + WRAPPED_ALGOS_MORE)]]
    if quick and combos:
        sp, fam, _ = rng.choice(combos)
        combos.append((sp, fam, rng.choice(WRAPPED_ALGOS_QUICK[1:])))
    out = []
    kinds = list(MUTATION_KINDS)
    rng.shuffle(kinds)
    for i, (sp, fam, algo) in enumerate(combos):
        c = gen_family_case(rng, algo, fam)
        c["wrapper"] = sp
        if len(c["agents"]) < 2:
            c["agents"] = gen_agents(rng, 3, c["cfg"][3], [Fraction(v) for v in c["pool"]], "offset")
        c["cfg"][2] = max(c["cfg"][2], 3)           # at least two tournament children: a sequence of fresh indices
        out.append(c)
        w = gen_family_case(rng, algo, fam, wire=True)
        if len(w["agents"]) < 2:
            w["agents"] = gen_agents(rng, 2, w["cfg"][3], [Fraction(v) for v in w["pool"]], "low")
        w["cfg"][2] = max(w["cfg"][2], 2)
        w.update(wrapper=sp, save_elite=False, elite_path=None, mutation=kinds[i % len(kinds)],
                 mutate_elite=bool((i // len(kinds) + i) % 2 == 0))
        out.append(w)
    # the configuration in which the elite and the first member are furthest apart: elitism, mutate_elite, a
    # hyper-parameter mutation of every member
    if combos:
        sp, fam, algo = combos[rng.randrange(len(combos))]
        w = gen_family_case(rng, "DQN", fam, wire=True)
        w.update(wrapper=sp, save_elite=False, elite_path=None, mutation="rl_hp", mutate_elite=True,
                 cfg=[2, True, 3, w["cfg"][3]])
        out.append(w)
    return out


def mutations_for(kind: str, mutate_elite: bool, seed: int):
    """a real Mutations object whose draw is (almost) always of the named kind"""
    from agilerl.hpo.mutation import Mutations
    p = {"no_mutation": 0.0, "architecture": 0.0, "parameters": 0.0, "activation": 0.0, "rl_hp": 0.0}
    key = {"none": "no_mutation", "arch": "architecture", "param": "parameters", "act": "activation",
           "rl_hp": "rl_hp"}.get(kind)
    if key is None:                                   # mixed
        p = {k: 0.2 for k in p}
    else:
        p[key] = 1.0
    return Mutations(no_mutation=p["no_mutation"], architecture=p["architecture"], new_layer_prob=0.5,
                     parameters=p["parameters"], activation=p["activation"], rl_hp=p["rl_hp"], mutation_sd=0.5,
                     mutate_elite=bool(mutate_elite), rand_seed=seed % (2 ** 31), device="cpu")


def checkpoint_groups(agent, path: str):
    """value fingerprints of what a checkpoint of `agent` restores (save + Algo.load)"""
    agent.save_checkpoint(path)
    loaded = type(agent).load(path)
    import walker
    return loaded, {n: walker.group_value(g) for n, g in walker.agent_groups(loaded).items()}


def run_wire_case(case: dict, pool: Pool):
    """the wiring every training loop uses: `tournament_selection_and_mutation(population, tournament,
    mutation, env_name, algo, elite_path, save_elite)` with a real Mutations object, accelerator None.
    Judged: the returned generation (size, fresh distinct indices, parents = tournament winners), the old
    population untouched, and the check-pointed elite = the fittest agent of the OLD population."""
    import os
    import shutil
    import tempfile
    import walker
    from agilerl.hpo.tournament import TournamentSelection
    from agilerl.utils import utils as U
    k, e, n, w = case["cfg"]
    cfg = (int(k), bool(e), int(n), int(w))
    tags = ["wiring", f"family-{case['algo']}", f"wiring-len(pop)={len(case['agents'])}",
            "wiring-len(pop)" + ("==" if len(case["agents"]) == cfg[2] else "!=") + "population_size",
            "elitism-on" if cfg[1] else "elitism-off",
            f"mutation-{case['mutation']}", "mutate-elite" if case["mutate_elite"] else "keep-elite",
            "save-elite" if case["save_elite"] else "no-save"] + wrapper_tags(case)
    ts = TournamentSelection(*cfg)
    # the objects select() hands to the wiring (the elite never leaves tournament_selection_and_mutation otherwise)
    selected: list = []
    real_select = ts.select

    def recording_select(population):
        r = real_select(population)
        selected.append(r)
        return r
    ts.select = recording_select
    pop = build_population("wire", case["agents"], pool, case)
    hp_names = list(pop[0].registry.hp_config.names()) if getattr(pop[0].registry, "hp_config", None) else []
    hp0 = [{n_: getattr(a, n_) for n_ in hp_names} for a in pop]
    mut = mutations_for(case["mutation"], case["mutate_elite"], case["seed"])
    snaps = [snapshot(a) for a in pop]
    tmp = tempfile.mkdtemp(prefix="c05wire_")
    tmp_ref = tempfile.mkdtemp(prefix="c05wire_ref_")
    cwd = os.getcwd()
    # what a checkpoint of each fittest OLD agent restores, measured before the call (a wiring that mutates
    # the old agent in place must not move the reference along with it)
    keys0 = [key_of(s_["fitness"], cfg[3]) for s_ in snaps]
    tops0 = [j for j, x in enumerate(keys0) if x == max(keys0)]
    refs = {c_: checkpoint_groups(pop[c_], os.path.join(tmp_ref, f"ref_{c_}.pt"))[1] for c_ in tops0} \
        if case["save_elite"] else {}
    calls: list[list[int]] = []
    orig = np.random.randint

    def recording(*a, **kw):
        r = orig(*a, **kw)
        calls.append([int(v) for v in np.asarray(r).reshape(-1)])
        return r
    problems: list[str] = []
    env_name = "verifenv"
    rel = case.get("elite_path")
    elite_path = None if rel is None else os.path.join(tmp, rel)
    if elite_path is not None:
        os.makedirs(os.path.dirname(elite_path), exist_ok=True)
    expected = (elite_path.split(".pt")[0] if elite_path is not None
                else os.path.join(tmp, f"{env_name}-elite_{type(pop[0]).__name__}")) + ".pt"
    try:
        os.chdir(tmp)
        np.random.seed(case["seed"] % (2 ** 32))
        random.seed(case["seed"])
        torch.manual_seed(case["seed"])
        np.random.randint = recording
        try:
            with warnings.catch_warnings():
                warnings.simplefilter("ignore")
                new = U.tournament_selection_and_mutation(pop, ts, mut, env_name, elite_path=elite_path,
                                                          save_elite=bool(case["save_elite"]))
        finally:
            np.random.randint = orig
            os.chdir(cwd)
        n_kids = max(0, cfg[2] - (1 if cfg[1] else 0))
        draws, draw_note = settle_draws(cfg, len(pop), len(new), calls[:n_kids], case["seed"])
        keys = [key_of(s["fitness"], cfg[3]) for s in snaps]
        best = max(keys)
        tops = [j for j, x in enumerate(keys) if x == best]
        if len(tops) > 1:
            tags.append("tie-at-top")
        # ---- the returned generation
        if len(new) != cfg[2]:
            problems.append(f"returned population has {len(new)} members, population_size is {cfg[2]}")
        idx = [c.index for c in new]
        if len(set(idx)) != len(idx):
            problems.append(f"indices of the returned population are not distinct: {idx}")
        old_max = max(s["index"] for s in snaps)
        off = 1 if cfg[1] else 0
        for j, c in enumerate(new):
            if any(c is a for a in pop):
                problems.append(f"returned member {j} is an object of the old population")
            t = getattr(c, TAG, None)
            if not (isinstance(t, int) and 0 <= t < len(pop)):
                problems.append(f"returned member {j} carries no recoverable parent")
                continue
            if j < off:
                if keys[t] != best or c.index != snaps[t]["index"]:
                    problems.append(f"elitism: first returned member (index {c.index}, parent mean {show_key(keys[t])}) "
                                    f"is not the fittest old agent (mean {show_key(best)})")
            else:
                if not c.index > old_max:
                    problems.append(f"returned member {j} got index {c.index}, not above the old indices (max {old_max})")
                if j - off < len(draws):
                    drawn = draws[j - off]
                    if t not in drawn or any(keys[t] < keys[d] for d in drawn):
                        problems.append(f"returned member {j}: parent (position {t}, mean {show_key(keys[t])}) is not the "
                                        f"best of the drawn {drawn}" + (f" [{draw_note}]" if draw_note else ""))
            if list(c.fitness) != snaps[t]["fitness"]:
                problems.append(f"returned member {j}: fitness history {list(c.fitness)} is not its parent's")
        # ---- old population untouched
        for j, (a, s_) in enumerate(zip(pop, snaps)):
            d = snapshot_diff(a, s_)
            if d:
                problems.append(f"old population changed by selection/mutation: position {j}: {'; '.join(d)}")
        # ---- one evolution step = select() FOLLOWED BY Mutations.mutation: the elite select() returned, every member
        #      of the new generation and every member of the old one are objects of their own, and after the mutation
        #      of the new generation the elite is still what it was: a copy of the fittest old agent
        how = f"Mutations.mutation ({case['mutation']}, mutate_elite={bool(case['mutate_elite'])})"
        if len(selected) == 1:
            elite = selected[0][0]
            objs = [("the elite select() returned", elite)] + [(f"returned member {j}", c) for j, c in enumerate(new)] \
                + [(f"old population[{j}]", a) for j, a in enumerate(pop)]
            for i in range(len(objs)):
                for j in range(i + 1, len(objs)):
                    if objs[i][1] is objs[j][1]:
                        problems.append(f"{objs[i][0]} and {objs[j][0]} are one object: what {how} does to one of them "
                                        f"happens to the other")
            te = getattr(elite, TAG, None)
            if isinstance(te, int) and 0 <= te < len(pop):
                if snaps[te].get("groups") is not None:
                    d = group_diff(groups_of(elite) or {}, snaps[te]["groups"], skip=DIFFER_OK)
                    if d:
                        problems.append(f"after {how} of the new generation the elite select() returned is no longer a "
                                        f"copy of the fittest old agent (position {te}): {', '.join(d[:8])} differ"
                                        + (" — it is the same object as returned member 0" if new and elite is new[0] else ""))
                if not same_fwd(forward_of(elite), snaps[te]["fwd"]):
                    problems.append(f"after {how} of the new generation the elite select() returned acts differently "
                                    f"from the fittest old agent (position {te})")
            else:
                problems.append("the elite select() returned carries no recoverable parent")
        else:
            tags.append(f"select-called-{len(selected)}-times")
        # exactly the sampled hyper-parameter of exactly the mutated member changes (no hyper-parameter at all for the
        # other mutation kinds); elite and old population are covered by the fingerprints above
        for j, c in enumerate(new):
            t = getattr(c, TAG, None)
            if not (isinstance(t, int) and 0 <= t < len(pop)):
                continue
            moved = [n_ for n_ in hp_names if not same_value(getattr(c, n_), hp0[t][n_])]
            if [n_ for n_ in moved if n_ != c.mut]:
                problems.append(f"returned member {j} (copy of position {t}, mut={c.mut!r}): hyper-parameters {moved} "
                                f"differ from its parent's after {how}")
        # ---- the check-pointed elite
        written = sorted(os.path.join(dp, f) for dp, _, fs in os.walk(tmp) for f in fs)
        loaded_line = "E * *"
        if not case["save_elite"]:
            if written:
                problems.append(f"save_elite=False but files were written: {[os.path.relpath(x, tmp) for x in written]}")
        elif not os.path.exists(expected):
            problems.append(f"save_elite=True but {os.path.relpath(expected, tmp)} was not written "
                            f"(found {[os.path.relpath(x, tmp) for x in written]})")
        else:
            loaded = type(pop[0]).load(expected)
            got = {n_: walker.group_value(g) for n_, g in walker.agent_groups(loaded).items()}
            misses = []
            for c_ in tops:
                d = group_diff(got, refs[c_])
                if not d:
                    misses = []
                    break
                misses.append((c_, d))
            if misses:
                c_, d = min(misses, key=lambda m: len(m[1]))
                problems.append(
                    f"the check-pointed elite is not the fittest agent of the old population: it loads to index "
                    f"{loaded.index}, fitness {list(loaded.fitness)}, mut {loaded.mut!r}; the fittest old agent "
                    f"(position {c_}) has index {snaps[c_]['index']}, fitness {snaps[c_]['fitness']}; differing state: "
                    f"{', '.join(d[:8])}")
            kk = show_key(key_of(list(loaded.fitness), cfg[3]))
            # (the marker attribute is not part of a checkpoint) "keeps its parent's index" = carries the
            # index of one of the fittest old agents
            keep = loaded.index in {snaps[c_]["index"] for c_ in tops}
            loaded_line = f"E {kk} {'keep' if keep else loaded.index}"
        parts = [loaded_line]
        for j, c in enumerate(new):
            t = getattr(c, TAG, None)
            pk = show_key(keys[t]) if isinstance(t, int) and 0 <= t < len(pop) else "?"
            slot = bool(cfg[1] and j == 0)
            ix = "keep" if slot and isinstance(t, int) and 0 <= t < len(pop) and c.index == snaps[t]["index"] else str(c.index)
            parts.append(f"{pk} {ix} {1 if slot else 0}")
        impl = ["ok"] * (1 + len(snaps)) + [" ; ".join(parts)]
        ops = model_lines(cfg, snaps, draws, None)
    finally:
        os.chdir(cwd)
        shutil.rmtree(tmp, ignore_errors=True)
        shutil.rmtree(tmp_ref, ignore_errors=True)
    return impl, ops, problems, tags


def driver_run(chk: Check, lines: list[str]) -> list[str]:
    """the lake workspace is shared: another build may be relinking the driver this very second"""
    import time
    for attempt in range(6):
        try:
            return chk.driver.run(lines)
        except InfraError as ex:
            if "missing" not in str(ex) or attempt == 5:
                raise
            time.sleep(5)
    raise InfraError("unreachable")


def evaluate(chk: Check, cases: list[dict], pool: Pool):
    """impl for every case, one driver call, per case (diff, problems, tags, impl, model)"""
    runs = []
    for c in cases:
        try:
            runs.append(run_case(c, pool))
        except Exception as ex:   # select raised on a legal population
            runs.append(([], [], [f"implementation raised {type(ex).__name__}: {ex}"], ["impl-raised"]))
    lines = ["reset"]
    for impl, ops, _, _ in runs:
        lines += ops
    out = driver_run(chk, lines)[1:] if len(lines) > 1 else []
    chk.corr["model_lines"] += len(out)
    res, pos = [], 0
    for impl, ops, problems, tags in runs:
        model = out[pos:pos + len(ops)]
        pos += len(ops)
        model = [("E * *" + b[b.index(" ; "):] if a.startswith("E * *") and b.startswith("E ") and " ; " in b else b)
                 for a, b in zip(impl, model)] + model[len(impl):]
        diff = next((i for i, (a, b) in enumerate(zip(impl, model)) if a != b), None)
        if diff is None and len(impl) != len(model):
            diff = min(len(impl), len(model))
        res.append((diff, problems, tags, impl, model))
    return res


def shrink(chk: Check, case: dict, pool: Pool, by_oracle: bool) -> dict:
    def fails_case(c):
        d, p, *_ = evaluate(chk, [c], pool)[0]
        return bool(p) if by_oracle else d is not None

    def fails_segs(segs):
        return bool(segs) and bool(segs[0]["agents"]) and fails_case(with_segments(small, segs))
    small = dict(case)
    if small.get("reindex") and fails_case(dict(small, reindex=0)):
        small = dict(small, reindex=0)
    segs = [dict(x) for x in segments_of(small)]
    # fewer populations served by the selector
    if len(segs) > 1:
        segs = ddmin(segs, fails_segs)
        if not fails_segs(segs):
            segs = [dict(x) for x in segments_of(small)]
    # fewer generations per population
    for i in range(len(segs)):
        for g in range(1, segs[i]["gens"]):
            cand = [dict(x) for x in segs]
            cand[i]["gens"] = g
            if fails_segs(cand):
                segs = cand
                break
    # fewer agents, shorter histories
    for i in range(len(segs)):
        if len(segs[i]["agents"]) > 1:
            def fails_agents(sub, i=i):
                cand = [dict(x) for x in segs]
                cand[i]["agents"] = sub
                return fails_segs(cand)
            sub = ddmin(segs[i]["agents"], fails_agents)
            if fails_agents(sub):
                segs[i]["agents"] = sub
        for j in range(len(segs[i]["agents"])):
            while len(segs[i]["agents"][j]["fitness"]) > 1:
                cand = [dict(x) for x in segs]
                cand[i]["agents"] = [dict(a) for a in segs[i]["agents"]]
                cand[i]["agents"][j]["fitness"] = segs[i]["agents"][j]["fitness"][1:]
                if not fails_segs(cand):
                    break
                segs = cand
    return with_segments(small, segs)


def report(chk: Check, case: dict, pool: Pool, diff, problems, impl, model) -> None:
    small = shrink(chk, case, pool, by_oracle=bool(problems))
    d2, p2, _, impl2, model2 = evaluate(chk, [small], pool)[0]
    if (problems and not p2) or (not problems and d2 is None):
        small, d2, p2, impl2, model2 = case, diff, problems, impl, model
    replay_obj = dict(small, impl=impl2, model=model2, oracle_problems=p2,
                      correspondence="harness/c05.py vs Model/Tournament.lean", theorems=chk.gate["theorems"])
    if p2:
        chk.violation(p2[0], replay_obj)
    else:
        a = impl2[d2] if d2 is not None and d2 < len(impl2) else "<missing>"
        b = model2[d2] if d2 is not None and d2 < len(model2) else "<missing>"
        chk.violation(f"implementation and Tournament model disagree at line {d2}: impl={a!r} model={b!r}; "
                      f"the property oracle holds on this case and its shrinks", replay_obj, no_input=True)


# ----------------------------------------------------------------------------- known-defect probe
def probe_encoder_activation(chk: Check) -> None:
    """`clone()` of an agent whose encoder_config names no activation (the config used by
    tests/test_hpo/test_tournament.py) yields an encoder ending in ReLU while the original ends in
    Identity: same weights, different function — the new generation is not made of faithful copies."""
    from agilerl.hpo.tournament import TournamentSelection
    nc = {"encoder_config": {"hidden_size": [4]}, "head_config": {"hidden_size": [4]}}
    pool = Pool()
    pop = []
    for j in range(2):
        a = pool.get(j, net_config=nc)
        a.fitness = [float(j), 1.0]
        setattr(a, TAG, j)
        pop.append(a)
    ts = TournamentSelection(2, True, 2, 2)
    snaps, calls, elite, new = select_once(ts, pop, 11)
    bad = []
    for name, obj in [("elite", elite)] + [(f"member {j}", c) for j, c in enumerate(new)]:
        s = snaps[getattr(obj, TAG)]
        if same_tensors(weights_of(obj), s["weights"]) and not same_fwd(forward_of(obj), s["fwd"]):
            bad.append(name)
    chk.case(["probe", FINDING_ACT], nontrivial=True, tags=["probe-encoder-activation"])
    if bad:
        chk.finding(FINDING_ACT,
                    f"{', '.join(bad)}: equal weights but different network output than the parent "
                    f"(encoder output activation Identity in the original, ReLU in the clone) for net_config={nc}",
                    {"probe": FINDING_ACT, "net_config": nc, "cfg": [2, True, 2, 2], "seed": 11})


# ----------------------------------------------------------------------------- initial population (create_population)
# `py2lean_pop.description` is the program `Gen/PopGen.lean` was printed from, as plain data.  Suite A interprets it
# next to the real `create_population` / `EvolvableAlgorithm.population` whose algorithm classes are replaced by
# recorders (so every branch runs, GRPO included, with sentinel arguments): member count, class, argument names in
# order, every argument's identity / value, the wrapper, the indices, and the generated sharing table against the
# aliasing measured between members.  Suite B calls the real function with real constructors (tiny networks).
POP_LITERAL = {"RainbowDQN": "Rainbow DQN"}          # agents.py name -> the literal create_population tests
IP_IMMUTABLE = (int, float, str, bool, type(None))


class _Sent:
    """a mutable stand-in argument; deep copies are new objects of the same class carrying the same name"""

    def __init__(self, name):
        self.name = name

    def __repr__(self):
        return f"<{self.name}>"


def ip_recorder(name: str, log: list):
    class R:
        def __init__(self, *a, **k):
            self.verif_cls, self.args, self.kwargs = name, a, k
            self.index = k.get("index", 0)            # the constructors' default
            log.append(self)
    R.__name__ = R.__qualname__ = name
    return R


def ip_wrapper(log: list):
    def agent_wrapper(agent, *a, **k):
        class W:
            pass
        w = W()
        w.verif_cls, w.args, w.kwargs, w.agent = "<wrapper>", (agent,) + a, k, agent
        w.index = getattr(agent, "index", None)       # AgentWrapper forwards attribute access
        log.append(w)
        return w
    return agent_wrapper


def ip_walk(d, f):
    """apply f to every dict of the plain-data description"""
    if isinstance(d, dict):
        f(d)
        for v in d.values():
            ip_walk(v, f)
    elif isinstance(d, list):
        for v in d:
            ip_walk(v, f)


def ip_eval(d, env, ints, classes):
    import ast as _ast
    if "param" in d:
        return env[d["param"]]
    if "int" in d:
        return eval(d["int"], {"__builtins__": {}}, dict(ints))
    if "const" in d:
        return _ast.literal_eval(d["const"])
    if "get" in d:
        return ip_eval(d["get"], env, ints, classes).get(d["key"], ip_eval(d["default"], env, ints, classes))
    if "sub" in d:
        return ip_eval(d["sub"], env, ints, classes)[d["key"]]
    if "item" in d:
        return ip_eval(d["item"], env, ints, classes)[eval(d["index"], {"__builtins__": {}}, dict(ints))]
    if "deepcopy" in d:
        return copy.deepcopy(ip_eval(d["deepcopy"], env, ints, classes))
    if "copy" in d:
        return copy.copy(ip_eval(d["copy"], env, ints, classes))
    if "ite" in d:
        t = ip_eval(d["ite"], env, ints, classes)
        return ip_eval(d["then"] if (t is not None) == d["is_not"] else d["else"], env, ints, classes)
    if "build" in d or "call" in d:
        f = classes[d["build"]] if "build" in d else ip_eval(d["call"], env, ints, classes)
        pos, kw = [], {}
        for a in d["args"]:
            v = ip_eval(a["val"], env, ints, classes)
            if a["kind"] == "pos":
                pos.append(v)
            elif a["kind"] == "kw":
                kw[a["key"]] = v
            else:
                kw.update(v)
        return f(*pos, **kw)
    raise InfraError(f"description term not understood: {d}")


def ip_run_program(stmts, env, ints, strs, given, classes, acc=None):
    """interpret the translated program; returns the list it builds"""
    for st in stmts:
        if "init" in st:
            acc = []
        elif "if" in st:
            c = st["if"]
            cond = (strs[c["eq"]] == c["literal"]) if "eq" in c else (given[c["given"]] == c["is_not"])
            acc = ip_run_program(st["then"] if cond else st["else"], env, ints, strs, given, classes, acc)
        elif "for" in st:
            bounds = [eval(e, {"__builtins__": {}}, dict(ints)) for e in st["range"]]
            for i in range(*bounds):
                loc, ii = dict(env), dict(ints, **{st["for"]: i})
                for b in st["body"]:
                    if "assign" in b:
                        loc["%" + b["assign"]] = ip_eval(ip_bind(b["val"], loc), loc, ii, classes)
                    else:
                        acc.append(ip_eval(ip_bind(b["append"], loc), loc, ii, classes))
        elif "return" in st:
            r = st["return"]
            bounds = [eval(e, {"__builtins__": {}}, dict(ints)) for e in r["range"]]
            return [ip_eval(r["comp"], env, dict(ints, **{r["for"]: i}), classes) for i in range(*bounds)]
        else:
            raise InfraError(f"description statement not understood: {st}")
    return acc


def ip_bind(d, loc):
    """the description inlines bound locals (`x0`) as their terms, so nothing to substitute: identity.  Kept as the one
    place that would change if the translator started to emit references."""
    return d


def ip_compare(exp, act, vdata, where: str, fresh_ids: dict, problems: list):
    """expected object (from the interpreted description) against the recorded one, guided by the term's sharing class"""
    sh = py2lean_pop.share_of(vdata) if isinstance(vdata, dict) else "mixed"
    if hasattr(exp, "verif_cls") or hasattr(act, "verif_cls"):
        if getattr(exp, "verif_cls", None) != getattr(act, "verif_cls", None):
            problems.append(f"{where}: the source builds {getattr(act, 'verif_cls', type(act).__name__)}, the translation "
                            f"{getattr(exp, 'verif_cls', type(exp).__name__)}")
            return
        if list(exp.kwargs) != list(act.kwargs) or len(exp.args) != len(act.args):
            problems.append(f"{where}: arguments differ: source {len(act.args)} positional + {list(act.kwargs)}, "
                            f"translation {len(exp.args)} positional + {list(exp.kwargs)}")
            return
        agent_d = vdata
        while isinstance(agent_d, dict) and "ite" in agent_d:      # the arm that was taken has the same shape
            agent_d = agent_d["then"] if "args" in agent_d["then"] and len(agent_d["then"]["args"]) and \
                hasattr(act, "agent") else agent_d["else"]
        args = agent_d.get("args", []) if isinstance(agent_d, dict) else []
        pos_d = [a["val"] for a in args if a["kind"] == "pos"]
        kw_d = {a["key"]: a["val"] for a in args if a["kind"] == "kw"}
        star = [a["val"] for a in args if a["kind"] == "star2"]
        for k, (e, a) in enumerate(zip(exp.args, act.args)):
            ip_compare(e, a, pos_d[k] if k < len(pos_d) else None, f"{where}.#{k}", fresh_ids, problems)
        for k in exp.kwargs:
            vd = kw_d.get(k, {"sub": star[0], "key": k} if star else None)
            ip_compare(exp.kwargs[k], act.kwargs[k], vd, f"{where}.{k}", fresh_ids, problems)
        return
    if sh in ("shared", "perIndex"):
        if isinstance(exp, IP_IMMUTABLE) and isinstance(act, IP_IMMUTABLE):     # a literal default: value, not identity
            if type(exp) is not type(act) or exp != act:
                problems.append(f"{where}: the source passes {act!r}, the translation {exp!r}")
        elif exp is not act:
            problems.append(f"{where}: the source passes {act!r}, the translation says the object {exp!r} itself ({sh})")
    elif sh == "immutable":
        if type(exp) is not type(act) or exp != act:
            problems.append(f"{where}: the source passes {act!r}, the translation {exp!r}")
    else:
        if type(exp) is not type(act) or (isinstance(exp, _Sent) and exp.name != act.name):
            problems.append(f"{where}: the source passes {act!r}, the translation a fresh {exp!r}")
        if not isinstance(act, IP_IMMUTABLE):
            fresh_ids.setdefault(where.split("]", 1)[-1], []).append(id(act))


def ip_inner(m):
    while hasattr(m, "agent") and getattr(m, "verif_cls", "") == "<wrapper>":
        m = m.agent
    return m


def ip_measured_table(members: list) -> dict:
    """{argument: 'shared' | 'distinct' | 'immutable' | 'mixed'} measured over the recorded constructor calls"""
    out = {}
    inner = [ip_inner(m) for m in members]
    for k in inner[0].kwargs:
        vals = [m.kwargs.get(k) for m in inner]
        if all(isinstance(v, IP_IMMUTABLE) for v in vals):
            out[k] = "immutable"
        elif all(v is vals[0] for v in vals):
            out[k] = "shared"
        elif len({id(v) for v in vals}) == len(vals):
            out[k] = "distinct"
        else:
            out[k] = "mixed"
    return out


def ip_keys(desc_prog) -> tuple[set, set]:
    """INIT_HP keys read with [] and with .get in the description"""
    subs, gets = set(), set()

    def f(d):
        if "sub" in d and d["sub"] == {"param": "INIT_HP"}:
            subs.add(d["key"])
        if "get" in d and d["get"] == {"param": "INIT_HP"}:
            gets.add(d["key"])
    ip_walk(desc_prog, f)
    return subs, gets


def ip_build_names(desc_prog) -> list:
    names = []
    ip_walk(desc_prog, lambda d: names.append(d["build"]) if "build" in d and d["build"] not in names else None)
    return names


def ip_case_recorded(case: dict, desc: dict) -> tuple[list, list, dict]:
    """suite A, one case: (observed lines, problems, info)"""
    import agilerl.utils.utils as U
    from agilerl.algorithms.core.base import EvolvableAlgorithm
    rng = random.Random(case["seed"])
    n, problems = case["n"], []
    if case["fn"] == "population":
        prog = desc["population"]["program"]
        log_a, log_e = [], []
        cls_a, cls_e = ip_recorder("cls", log_a), ip_recorder("cls", log_e)
        wk = {"w": _Sent("wrapper-arg")}
        kwargs = {"hp_config": _Sent("hp_config"), "net_config": {"k": 1}, "lr": 0.5}
        obs, act = _Sent("obs"), _Sent("act")
        wa, we = (ip_wrapper(log_a), ip_wrapper(log_e)) if case["wrapper"] else (None, None)
        real = EvolvableAlgorithm.population.__func__(cls_a, n, obs, act, wrapper_cls=wa, wrapper_kwargs=wk, **kwargs)
        env = {"cls": cls_e, "observation_space": obs, "action_space": act, "wrapper_cls": we, "wrapper_kwargs": wk,
               "kwargs": kwargs}
        exp = ip_run_program(prog, env, {"size": n}, {}, {"wrapper_cls": case["wrapper"]}, {})
        table_row = None
    else:
        prog = desc["create_population"]["program"]
        algo = case["algo"]
        subs, gets = ip_keys(prog)
        init = {k: _Sent("INIT_HP." + k) for k in subs}
        for k in sorted(gets):
            if rng.random() < 0.6:
                init[k] = _Sent("INIT_HP." + k)
        if "COSINE_lR_SCHEDULER" in init:
            init["COSINE_lR_SCHEDULER"] = {"a": 1} if rng.random() < 0.5 else None
        names = ip_build_names(prog)
        missing = [c for c in names if not hasattr(U, c)]
        if missing:
            return [], [f"create_population names {missing}, which agilerl.utils.utils does not define"], {}
        log_a, log_e = [], []
        cls_a = {c: ip_recorder(c, log_a) for c in names}
        cls_e = {c: ip_recorder(c, log_e) for c in names}
        wa, we = (ip_wrapper(log_a), ip_wrapper(log_e)) if case["wrapper"] else (None, None)
        args = dict(observation_space=_Sent("obs"), action_space=_Sent("act"), net_config={"k": 1}, INIT_HP=init,
                    hp_config=_Sent("hp_config") if case["hp"] else None,
                    actor_network=_Sent("actor") if case["nets"] else None,
                    critic_network=_Sent("critic") if case["nets"] else None,
                    wrapper_kwargs={"w": _Sent("wrapper-arg")}, num_envs=3, device="cpu",
                    accelerator=[_Sent(f"acc{j}") for j in range(max(n, 0))], torch_compiler=None)
        saved = {c: getattr(U, c) for c in names}
        try:
            for c in names:
                setattr(U, c, cls_a[c])
            real = U.create_population(algo, agent_wrapper=wa, population_size=n, **args)
        finally:
            for c, v in saved.items():
                setattr(U, c, v)
        env = dict(args, algo=algo, agent_wrapper=we, population_size=n)
        exp = ip_run_program(prog, env, {"population_size": n}, {"algo": algo}, {}, cls_e)
        table_row = next((r for r in desc["create_population"]["table"] if r[0] == algo), None)
    observed = [f"members {len(real)}", "indices " + " ".join(str(getattr(m, "index", None)) for m in real)]
    expected = [f"members {len(exp)}", "indices " + " ".join(str(getattr(m, "index", None)) for m in exp)]
    # the description's members, for the per-argument comparison
    member_d = ip_member_terms(prog, case)
    fresh_ids: dict = {}
    if len(real) == len(exp):
        for j, (e, a) in enumerate(zip(exp, real)):
            ip_compare(e, a, member_d, f"[{j}]", fresh_ids, problems)
    for where, ids in fresh_ids.items():
        if len(set(ids)) != len(ids):
            problems.append(f"argument{where}: the translation says a fresh object per member, the source hands the "
                            f"same object to several members")
    # the property on what the real function returned
    known = case["fn"] == "population" or case["algo"] in desc["create_population"]["algos"]
    want = max(n, 0) if known else 0
    if len(real) != want:
        problems.append(f"{case['fn']} returned {len(real)} members for size {n}")
    idx = [getattr(m, "index", None) for m in real]
    if idx != list(range(len(real))):
        problems.append(f"indices of the initial population are {idx}, not 0..{len(real) - 1}")
    if len(set(idx)) != len(idx):
        problems.append(f"indices of the initial population are not distinct: {idx}")
    if len({id(m) for m in real}) != len(real) or len({id(ip_inner(m)) for m in real}) != len(real):
        problems.append("two members of the initial population are the same object")
    info = {}
    if table_row is not None and len(real) >= 2:
        measured = ip_measured_table(real)
        info["measured"] = measured
        for arg, sh in table_row[2]:
            m = measured.get(arg)
            ok = (m == "immutable" or m is None or sh == "mixed" or (sh == "shared" and m == "shared")
                  or (sh in ("fresh", "perIndex") and m == "distinct") or sh == "immutable" and m in ("immutable",))
            if sh == "immutable" and m not in ("immutable", None):
                ok = False
            if not ok:
                problems.append(f"sharing table of {case['algo']}: argument {arg} is `{sh}` in the generated table, "
                                f"measured `{m}` over {len(real)} members")
    return (observed, expected), problems, info


def ip_member_terms(prog, case):
    """the term of the member the case's path appends / returns (first matching branch, like the if-chain)"""
    def go(stmts):
        for st in stmts:
            if "if" in st:
                c = st["if"]
                cond = (case.get("algo") == c["literal"]) if "eq" in c else (case["wrapper"] == c["is_not"])
                r = go(st["then"] if cond else st["else"])
                if r is not None or cond:
                    return r
            elif "for" in st:
                for b in st["body"]:
                    if "append" in b:
                        return b["append"]
            elif "return" in st:
                return st["return"]["comp"]
        return None
    return go(prog)


def ip_real_args(algo: str, seed: int, custom_nets: bool):
    """arguments of a real create_population call with the smallest legal networks"""
    import agents as A
    fam = "vector"
    sp = A.spaces_for(algo, fam)
    init = {"BATCH_SIZE": 8, "LR": 2.0 ** -10, "LR_ACTOR": 2.0 ** -12, "LR_CRITIC": 2.0 ** -9, "LEARN_STEP": 4,
            "GAMMA": 0.875, "TAU": 2.0 ** -7, "POLICY_FREQ": 2, "GAE_LAMBDA": 0.75, "ACTION_STD_INIT": 0.5,
            "CLIP_COEF": 0.25, "ENT_COEF": 2.0 ** -6, "VF_COEF": 0.5, "MAX_GRAD_NORM": 0.5, "TARGET_KL": None,
            "UPDATE_EPOCHS": 2, "NUM_ATOMS": 5, "V_MIN": -2.0, "V_MAX": 2.0, "N_STEP": 3}
    if A.is_multi_agent(algo):
        obs, act, ids = sp
        init["AGENT_IDS"] = ids
    else:
        obs, act = sp
    nets = {}
    if custom_nets and not A.is_multi_agent(algo):
        donor = A.build(algo, fam, seed=seed)
        if algo in ("DQN", "CQN", "RainbowDQN", "NeuralUCB", "NeuralTS"):
            nets = {"actor_network": donor.actor}
        elif algo in ("DDPG", "PPO"):
            nets = {"actor_network": donor.actor, "critic_network": donor.critic}
        elif algo == "TD3":
            nets = {"actor_network": donor.actor, "critic_network": [donor.critic_1, donor.critic_2]}
    return obs, act, A.default_net_config(algo, fam), init, nets


def ip_case_real(case: dict) -> tuple[list, dict]:
    """suite B, one case: the real constructors.  (problems, info)"""
    import agents as A
    import walker
    from agilerl.utils.utils import create_population
    algo, n = case["algo"], case["n"]
    problems, info = [], {}
    obs, act, net_config, init, nets = ip_real_args(algo, case["seed"], case["nets"])
    hp = A.default_hp_config(algo) if case["hp"] else None
    A.seed_all(case["seed"])
    pop = create_population(POP_LITERAL.get(algo, algo), obs, act, None if nets else net_config, init, hp_config=hp,
                            population_size=n, **nets)
    if len(pop) != n:
        problems.append(f"create_population({algo!r}, population_size={n}) returned {len(pop)} agents")
    idx = [a.index for a in pop]
    if idx != list(range(len(pop))):
        problems.append(f"indices of the initial population are {idx}, not 0..{len(pop) - 1}")
    if any(type(a).__name__ != algo for a in pop):
        problems.append(f"create_population({algo!r}) built {sorted({type(a).__name__ for a in pop})}")
    if len({id(a) for a in pop}) != len(pop):
        problems.append("two members of the initial population are the same object")
    # networks and optimizers of different members share no tensor storage, nor with user-supplied networks
    # (constant tensors that are VIEWS of the numpy arrays of the one space object every member receives —
    # DeterministicActor.action_low / action_high = torch.as_tensor(action_space.low) — are the shared constructor
    # argument itself; they are reported, not judged)
    space_ptrs = ip_space_ptrs([obs, act])
    groups, views = {}, set()
    for j, a in enumerate(pop):
        g = OrderedDictFilter(walker.agent_groups(a))
        for name, gr in g.items():
            for c in [c for c in gr["cells"] if c[0] == "T" and c[1] in space_ptrs]:
                views.add(gr["cells"].pop(c)[0].split("]", 1)[-1])
        groups[j] = g
    if views:
        info["views_of_the_shared_space_arrays"] = sorted(views)[:6]
    shared = sorted({(gi, gj) for (_, gi, _, gj) in walker.alias_pairs(groups)})
    if shared:
        problems.append(f"members of the initial population share storage: {shared[:4]}")
    if nets:
        import torch as _t
        donor_cells = set()
        for v in nets.values():
            for m in (v if isinstance(v, list) else [v]):
                donor_cells |= {walker.tensor_cell(t) for t in walker.module_tensors(m).values()}
        for j, g in groups.items():
            hit = [name for name, gr in g.items() if donor_cells & set(gr["cells"])]
            if hit:
                problems.append(f"member {j} trains the user-supplied network object itself: {hit[:3]}")
    # configuration objects: identity across members, measured
    cfgs = [a.registry.hp_config for a in pop]
    if hp is not None and len(pop) >= 2:
        same_cfg = all(c is cfgs[0] for c in cfgs)
        distinct_cfg = len({id(c) for c in cfgs}) == len(cfgs)
        entries = [[id(c.config[k]) for k in c.config] for c in cfgs]
        same_entries = all(e == entries[0] for e in entries)
        distinct_entries = len({x for e in entries for x in e}) == sum(len(e) for e in entries)
        info["hp_config"] = "shared" if same_cfg and same_entries else "private" if distinct_cfg and distinct_entries \
            else "mixed"
        info["hp_config_is_argument"] = cfgs[0] is hp
    return problems, info, pop, hp


def ip_space_ptrs(spaces) -> set:
    """data addresses of the numpy arrays held by (nested) gymnasium spaces"""
    out, todo = set(), list(spaces)
    while todo:
        sp = todo.pop()
        if isinstance(sp, (list, tuple)):
            todo += list(sp)
            continue
        if hasattr(sp, "spaces"):
            inner = sp.spaces
            todo += list(inner.values()) if isinstance(inner, dict) else list(inner)
        for name in ("low", "high", "nvec", "bounded_below", "bounded_above"):
            arr = getattr(sp, name, None)
            if isinstance(arr, np.ndarray):
                out.add(arr.__array_interface__["data"][0])
    return out


def OrderedDictFilter(groups):
    """network and optimizer groups only (constructor arguments handed on by reference — spaces, net_config — are
    reported by the sharing table, not judged as storage sharing)"""
    from collections import OrderedDict
    return OrderedDict((k, v) for k, v in groups.items() if k.startswith(("net:", "opt:")))


def initpop_cases(rng: random.Random, desc: dict | None, quick: bool) -> list:
    cases = []
    if desc is not None:
        algos = desc["create_population"]["algos"]
        sizes = list(range(0, 7))
        for algo in algos + ["no-such-algorithm"]:
            picks = sorted(rng.sample(sizes, 3 if quick else 7)) + ([rng.choice([-2, -1])] if rng.random() < 0.3 else [])
            for n in picks:
                cases.append({"suite": "A", "fn": "create_population", "algo": algo, "n": n, "hp": rng.random() < 0.7,
                              "nets": rng.random() < 0.5, "wrapper": rng.random() < 0.5, "seed": rng.randrange(2 ** 30)})
        for n in sizes:
            for w in (False, True):
                cases.append({"suite": "A", "fn": "population", "n": n, "wrapper": w, "seed": rng.randrange(2 ** 30)})
    import agents as A
    sizes = list(range(1, 7))
    rng.shuffle(sizes)
    real_algos = list(A.ALGOS)
    rng.shuffle(real_algos)
    for k, algo in enumerate(real_algos):
        reps = 1 if quick else 3
        for r in range(reps):
            n = sizes[(k + r) % 6] if not (quick and A.is_multi_agent(algo)) else min(sizes[(k + r) % 6], 3)
            cases.append({"suite": "B", "fn": "create_population", "algo": algo, "n": n, "hp": (k + r) % 3 != 2,
                          "nets": (k + r) % 2 == 1 and not A.is_multi_agent(algo), "seed": rng.randrange(2 ** 30)})
    return cases


def run_initpop_case(case: dict, desc: dict | None):
    """(diff: bool, problems, tags, sample)"""
    if case["suite"] == "A":
        if desc is None:
            return False, [], ["initpop-untranslated"], {}
        (obs_l, exp_l), problems, info = ip_case_recorded(case, desc)
        table_problems = [p for p in problems if p.startswith(("sharing table", "argument", "["))]
        oracle = [p for p in problems if p not in table_problems]
        diff = obs_l != exp_l or bool(table_problems)
        tags = ["initpop-recorded", f"initpop-{case['fn']}", f"initpop-size-{min(max(case['n'], 0), 6)}"]
        return diff, oracle, tags, {"observed": obs_l, "translated": exp_l, "disagreements": table_problems[:6],
                                     "measured_sharing": info.get("measured")}
    problems, info, _, _ = ip_case_real(case)
    tags = ["initpop-real", f"initpop-real-{case['algo']}", f"initpop-size-{case['n']}"]
    tags += [f"initpop-hp_config-{info['hp_config']}"] if "hp_config" in info else []
    tags += ["initpop-custom-networks"] if case["nets"] else []
    return False, problems, tags, info


def initpop_description():
    try:
        return py2lean_pop.description(common.REPO)
    except py2lean_pop.Unsupported:
        return None


def run_initpop(chk: Check, selftest_only=None) -> tuple[int, int]:
    """the two suites; returns (cases, disagreements)"""
    desc = initpop_description()
    cases = initpop_cases(chk.rng, desc, chk.tier == "quick") if selftest_only is None else selftest_only
    corpus = []
    for f in sorted((ROOT / "corpus" / "C05").glob("initpop-*.json")):
        c = json.loads(f.read_text())
        corpus.append(c.get("replay", c)["initpop"])
    ndiff = 0
    for case in corpus + cases:
        try:
            diff, problems, tags, sample = run_initpop_case(case, desc)
        except InfraError:
            raise
        except Exception as ex:
            diff, problems, tags, sample = False, [f"building the initial population raised {type(ex).__name__}: {ex}"], \
                ["initpop-raised"], {}
        chk.case(["initpop", case], nontrivial=case["n"] >= 2, tags=tags,
                 sample={"kind": "initial-population", "case": case, **{k: v for k, v in sample.items() if v}})
        if not diff and not problems:
            continue
        ndiff += bool(diff)
        replay_obj = {"initpop": case, "oracle_problems": problems, "details": sample,
                      "correspondence": "harness/c05.py (initial population) vs Gen/PopGen.lean",
                      "theorems": ["C05_source_translation_initial_population_distinct",
                                   "C05_source_translation_create_population_then_select_distinct"]}
        if selftest_only is not None:
            continue
        if problems:
            chk.violation("initial population: " + problems[0], replay_obj)
        else:
            chk.violation("the real create_population / population() and their translation (Gen/PopGen.lean) disagree: "
                          + "; ".join(sample.get("disagreements", [])[:2] or [f"{sample.get('observed')} vs {sample.get('translated')}"])
                          + "; the property oracle holds on this case", replay_obj, no_input=True)
    return len(corpus) + len(cases), ndiff


# ----------------------------------------------------------------------------- source translation
def pre_gate(chk: Check) -> None:
    """Regenerate lean/Gen/TournGen.lean from the source text of the tree under test (before the Lean
    gate) and re-check `generated = model` (Proofs/TournGenEq.lean) and the theorems over the generated
    definitions (Props/C05.lean).  A failure is a gate problem; the suites then look for the failing input."""
    # both generated files are imported by Props/C05.lean: bring BOTH up to date with the tree under test before the
    # first build, so that a file left behind by a run against another tree is never blamed on the wrong translator
    for tr, rel in ((py2lean_tourn, "Gen/TournGen.lean"), (py2lean_pop, "Gen/PopGen.lean")):
        try:
            tr.write_if_changed(tr.translate(common.REPO)[0], common.LEAN_DIR / rel)
        except tr.Unsupported:
            pass
    common.translation_gate(chk, py2lean_tourn, "Gen/TournGen.lean",
                            ["Gen.TournGen", "Proofs.TournGenEq", "Props.C05"],
                            "TournamentSelection.__init__, _tournament, _elitism, select")
    # the initial population: create_population / EvolvableAlgorithm.population -> lean/Gen/PopGen.lean
    common.translation_gate(chk, py2lean_pop, "Gen/PopGen.lean",
                            ["Gen.PopGen", "Proofs.PopGenEq", "Props.C05"],
                            "create_population, EvolvableAlgorithm.population")


# ----------------------------------------------------------------------------- check
def load_corpus() -> list[dict]:
    out = []
    for f in sorted((ROOT / "corpus" / "C05").glob("*.json")):
        c = json.loads(f.read_text())
        c = c.get("replay", c)
        if "probe" in c or "initpop" in c:
            continue
        c.setdefault("gens", 1)
        c["origin"] = f.name
        out.append(c)
    return out


def run(chk: Check) -> None:
    torch.set_num_threads(1)
    rng = chk.rng
    quick = chk.tier == "quick"
    chk.rule = ("real TournamentSelection.select on (a) populations of 1-6 real DQN agents and (b) duck-typed "
                "agents (1-40), tournament size 1..len+2 (also > population), window 1-4, elitism on/off, "
                "population_size equal to or different from len(population); integer / quarter-valued fitness "
                "histories with many ties, negatives, unequal lengths, shorter than the window, sometimes empty; "
                "recorded np.random.randint draws replayed in the model; one selector object per case: chains of "
                "20-50 generations with fresh scores appended (half of them with re-indexing in between) and "
                "sessions in which the same selector then serves 1-3 unrelated populations; select() on populations of "
                "every algorithm family whose agents have acted and learned (all state compared with the parent's "
                "through walker fingerprints); tournament_selection_and_mutation with a real Mutations object, "
                "save_elite on/off, elite_path variants, elitism on/off, mutate_elite on/off (the check-pointed elite "
                "must load to the fittest old agent; the elite object select() returned must still equal the fittest old "
                "agent after the mutation step; no object shared between elite, new and old population); the same two "
                "suites on populations of WRAPPED agents (every AgentWrapper subclass x constructor options x vector / "
                "Dict / Tuple observation spaces, statistics already moved); distinct = distinct case; non-trivial = a tournament drew two different agents "
                "or the top mean is tied")
    chk.assumptions = [
        "fitness scores in the correspondence are small integers or quarters, so float sums are exact and the "
        "order of np.mean values equals the order of the exact rational means the model uses",
        "np.argsort orders NaN last (numpy's documented sort order); histories are non-empty inside the training "
        "loops — the theorems about exact means assume evaluated agents, the model covers NaN as top element",
        "parent identity is recovered from a marker attribute that clone() copies like any other attribute",
        "clone() internals belong to C01; here a copy is compared by weights, forward output on a probe batch, "
        "fitness/scores/steps and list/tensor storage identity, and for the algorithm-family stream by the walker's "
        "value fingerprint of every attribute group (constructor arguments handed on by reference are not judged)",
        "the elite checkpoint is compared with a save/load round trip of the fittest old agent, so what a checkpoint "
        "does not store (C07) is not judged here",
    ]
    pool = Pool()
    cases = load_corpus()
    n_real, n_stub = (45, 1200) if quick else (450, 12000)
    n_chain_real, n_chain_stub = (1, 6) if quick else (4, 40)
    for _ in range(n_real):
        cases.append(gen_case(rng, "real", chk.tier))
    for _ in range(n_chain_real):
        cases.append(gen_case(rng, "real", chk.tier, chain=True))
    for _ in range(n_stub):
        cases.append(gen_case(rng, "stub", chk.tier))
    for _ in range(n_chain_stub):
        cases.append(gen_case(rng, "stub", chk.tier, chain=True))
    n_sess_real, n_sess_stub = (5, 200) if quick else (40, 2000)
    for _ in range(n_sess_real):
        cases.append(gen_case(rng, "real", chk.tier, session=True))
    for _ in range(n_sess_stub):
        cases.append(gen_case(rng, "stub", chk.tier, session=True))
    # every algorithm family, agents with a real history (acted + learned): select() and the wiring around it
    fam_algos = FAMILY_ALGOS_QUICK if quick else FAMILY_ALGOS_QUICK + FAMILY_ALGOS_MORE
    for rep in range(1 if quick else 4):
        for algo in fam_algos:
            fam = "vector" if (quick or rep < 2) else rng.choice(["vector", "image"])
            cases.append(gen_family_case(rng, algo, fam))
    wire_algos = ["DQN", "NeuralUCB", "DDPG", "PPO"] if quick else ["DQN", "NeuralUCB", "DDPG", "PPO", "TD3", "NeuralTS",
                                                                   "CQN", "MADDPG"]
    for rep in range(2 if quick else 6):
        for algo in wire_algos:
            cases.append(gen_family_case(rng, algo, "vector", wire=True))
    # the two configurations in which "elite" and "first member of the mutated generation" differ most
    cases.append(dict(gen_family_case(rng, "DQN", "vector", wire=True), save_elite=True, mutate_elite=True,
                      mutation="param", cfg=[2, True, 3, 2]))
    cases.append(dict(gen_family_case(rng, "DQN", "vector", wire=True), save_elite=True, mutate_elite=False,
                      mutation="none", cfg=[2, False, 3, 2]))
    # population lengths 1 and 2 and lengths different from the configured population_size, always present
    for algo, npop_, n_, e_, mk in (("DQN", 1, 3, True, "param"), ("DQN", 1, 1, True, "param"),
                                     ("NeuralUCB", 1, 2, False, "param"), ("DQN", 2, 4, True, "rl_hp"),
                                     ("DDPG", 3, 2, False, "none"), ("PPO", 2, 1, True, "param")):
        c = gen_family_case(rng, algo, "vector", wire=True)
        w_ = c["cfg"][3]
        c.update(cfg=[rng.randint(1, npop_ + 1), e_, n_, w_], save_elite=True, mutate_elite=True, mutation=mk,
                 agents=gen_agents(rng, npop_, w_, [Fraction(v) for v in c["pool"]], "offset"))
        cases.append(c)
    # populations of WRAPPED agents (every AgentWrapper subclass x its constructor options) on vector / Dict / Tuple
    # observation spaces, statistics already moved: select() alone and the evolution step select() -> mutation
    cases += wrapped_cases(rng, quick)
    # rejected inputs: the constructor's assertions and the empty population
    for bad in ([0, True, 3, 2], [2, True, 0, 2], [2, False, 3, 0]):
        cases.append({"kind": "stub", "cfg": bad, "agents": [{"index": 0, "fitness": ["1"]}], "seed": 1, "gens": 1})
    cases.append({"kind": "stub", "cfg": [2, True, 3, 2], "agents": [], "seed": 1, "gens": 1})

    ndiff = {"real": 0, "stub": 0, "fam": 0, "wire": 0}
    count = {"real": 0, "stub": 0, "fam": 0, "wire": 0}
    for start in range(0, len(cases), 200):
        if len(chk.violations) >= 5:
            chk.notes.append(f"stopped after {len(chk.violations)} violations; {len(cases) - start} cases not run")
            break
        batch = cases[start:start + 200]
        for case, (diff, problems, tags, impl, model) in zip(batch, evaluate(chk, batch, pool)):
            count[case["kind"]] += 1
            nontrivial = any(t in ("tournament-distinct-drawn", "tie-at-top") for t in tags)
            key = [case["kind"], case["cfg"], case["agents"], case["seed"], case["gens"], case.get("more"),
                   case.get("reindex"), case.get("algo"), case.get("mutation"), case.get("save_elite"),
                   case.get("mutate_elite"), case.get("elite_path")]
            sample = {"kind": case["kind"] + (":" + case["algo"] if case.get("algo") else ""),
                      "cfg(tsize,elitism,popsize,window)": case["cfg"],
                      "agents": case["agents"][:4], "gens": case["gens"],
                      "further_populations_same_selector": len(case.get("more", [])),
                      "observed": impl[-1][:160] if impl else None}
            chk.case(key, nontrivial=nontrivial, sample=sample, tags=sorted(set(tags)))
            if diff is None and not problems:
                continue
            ndiff[case["kind"]] += diff is not None
            if len(chk.violations) < 5:
                report(chk, case, pool, diff, problems, impl, model)
            else:       # already five shrunk replays: count, do not shrink again
                chk.violation(problems[0] if problems else f"model/implementation differ at line {diff}", None,
                              no_input=not problems)
    chk.suite("select-real-agents", count["real"], ndiff["real"])
    chk.suite("select-duck-typed-agents", count["stub"], ndiff["stub"])
    chk.suite("select-all-algorithm-families-after-acting-and-learning", count["fam"], ndiff["fam"])
    chk.suite("tournament_selection_and_mutation-wiring", count["wire"], ndiff["wire"])
    if len(chk.violations) < 5:
        n_ip, d_ip = run_initpop(chk)
        chk.suite("create_population-initial-population", n_ip, d_ip)
    probe_encoder_activation(chk)
    if chk.tier == "thorough":
        selftest(chk, pool)


# ----------------------------------------------------------------------------- self-test
def selftest(chk: Check, pool: Pool) -> None:
    """seeded faults in the implementation must be noticed by the oracle and by the correspondence"""
    from agilerl.hpo import tournament as T
    from agilerl.algorithms.core.base import EvolvableAlgorithm
    TS = T.TournamentSelection
    rng = random.Random(991)
    stub_cases = [gen_case(rng, "stub", "quick") for _ in range(60)]
    stub_cases = [c for c in stub_cases if c["agents"] and all(a["fitness"] for a in c["agents"])]
    real_case = {"kind": "real", "cfg": [2, True, 3, 2], "seed": 5, "gens": 1,
                 "agents": [{"index": 0, "fitness": ["1", "2"]}, {"index": 1, "fitness": ["3"]},
                            {"index": 2, "fitness": ["-1", "0", "2"]}]}

    def argmin_tournament(self, fitness_values):
        selection = np.random.randint(0, len(fitness_values), size=self.tournament_size)
        return selection[np.argmin([fitness_values[i] for i in selection])]

    def worst_elite(self, population):
        last = [np.mean(i.fitness[-self.eval_loop:]) for i in population]
        rank = np.argsort(last).argsort()
        max_id = max(i.index for i in population)
        return population[int(np.argsort(rank)[0])].clone(), rank, max_id

    def select_from_max_id(self, population):
        elite, rank, max_id = self._elitism(population)
        new_population = []
        if self.elitism:
            new_population.append(elite.clone(wrap=False))
            size = self.population_size - 1
        else:
            size = self.population_size
        for _ in range(size):
            parent = population[self._tournament(rank)]
            new_population.append(parent.clone(max_id, wrap=False))     # fault: index before the increment
            max_id += 1
        return elite, new_population

    def select_elite_last(self, population):
        elite, rank, max_id = self._elitism(population)
        new_population = []
        size = self.population_size - 1 if self.elitism else self.population_size
        for _ in range(size):
            max_id += 1
            new_population.append(population[self._tournament(rank)].clone(max_id, wrap=False))
        if self.elitism:
            new_population.append(elite.clone(wrap=False))               # fault: elite not first
        return elite, new_population

    orig_select = TS.select

    def select_touching_parents(self, population):
        r = orig_select(self, population)
        population[0].fitness.append(0.0)                                # fault: old population altered
        return r

    def select_with_id_counter(self, population):
        elite, new = orig_select(self, population)
        if not hasattr(self, "_verif_ctr"):                              # fault: max_id scanned only once,
            self._verif_ctr = max(i.index for i in population)           # numbering continues from a counter
        for ch in new[(1 if self.elitism else 0):]:
            self._verif_ctr += 1
            ch.index = self._verif_ctr
        return elite, new

    def select_elite_is_member0(self, population):
        elite, new = orig_select(self, population)
        if self.elitism and new:
            new[0] = elite                                               # fault: one object in two roles
        return elite, new

    def select_elite_uncloned(self, population):
        elite, new = orig_select(self, population)
        if not self.elitism:
            elite = population[getattr(elite, TAG)]                      # fault: the old member itself
        return elite, new

    def select_siblings_share_scores(self, population):
        elite, new = orig_select(self, population)
        if len(new) > 1:
            new[-1].scores = new[0].scores                               # fault: two members share a list
        return elite, new

    session_cases = [gen_case(rng, "stub", "quick", session=True) for _ in range(60)]

    def clone_reinit_bandit_state(self, index=None, wrap=True):
        c = orig_clone(self, index, wrap)
        if hasattr(c, "sigma_inv") and isinstance(c.sigma_inv, torch.Tensor):
            c.sigma_inv = torch.eye(c.sigma_inv.shape[0], dtype=c.sigma_inv.dtype)   # fault: statistics forgotten
        return c

    from agilerl.utils import utils as U

    def wiring_saves_member0(population, tournament, mutation, env_name, algo=None, elite_path=None,
                             save_elite=False, accelerator=None, language_model=False):
        if algo is None:
            algo = population[0].__class__.__name__
        elite, population = tournament.select(population)
        population = mutation.mutation(population)
        if save_elite:
            path = elite_path.split(".pt")[0] if elite_path is not None else f"{env_name}-elite_{algo}"
            population[0].save_checkpoint(f"{path}.pt")                  # fault: not the elite select returned
        return population

    fam_cases = [gen_family_case(rng, a) for a in ("NeuralUCB", "NeuralTS", "DQN")]
    wire_cases = [dict(gen_family_case(rng, a, wire=True), save_elite=True, mutate_elite=True, mutation="param")
                  for a in ("DQN", "NeuralUCB", "DDPG")]
    wire_cases += [dict(gen_family_case(rng, "DQN", wire=True), save_elite=True, cfg=[2, False, 3, 1])]
    orig_clone = EvolvableAlgorithm.clone

    def aliasing_clone(self, index=None, wrap=True):
        c = orig_clone(self, index, wrap)
        c.fitness = self.fitness                                         # fault: history list shared
        return c

    # ---- wrapped populations and the evolution step (select -> mutation)
    import agilerl.wrappers.agent as WA
    orig_wclone = WA.AgentWrapper.clone
    orig_copy = EvolvableAlgorithm.copy_attributes

    def wclone_drops_index(self, index=None, wrap=True):
        return orig_wclone(self, None, wrap)                             # fault: the fresh index never reaches the agent

    def copy_attributes_keeps_fresh_dicts(agent, clone):
        keep = {n: v for n, v in vars(clone).items()
                if isinstance(v, dict) and isinstance(vars(agent).get(n), dict) and v.keys() == vars(agent)[n].keys()}
        out = orig_copy(agent, clone)
        for n, v in keep.items():                                        # fault: dict-valued attributes stay as constructed
            object.__setattr__(out, n, v)
        return out

    def wclone_shares_statistics(self, index=None, wrap=True):
        c = orig_wclone(self, index, wrap)
        for n, v in vars(self).items():
            if n != "agent" and wrapper_state(v, 1):                     # fault: the statistics objects are shared
                object.__setattr__(c, n, v)
        return c

    rsn = {"cls": next(iter(wrapper_classes())), "kwargs": {}}
    st_agents = [{"index": 0, "fitness": ["1", "2"]}, {"index": 1, "fitness": ["0"]}, {"index": 5, "fitness": ["2", "2"]}]
    wrap_cases = [{"kind": "fam", "algo": "DQN", "family": f, "cfg": [2, e, 3, 2], "seed": 61 + i, "gens": 1,
                   "pool": ["0", "1", "2"], "agents": st_agents, "wrapper": rsn}
                  for i, (f, e) in enumerate((("dict", True), ("vector", False), ("tuple", True)))]
    evo_cases = [{"kind": "wire", "algo": "DQN", "family": "vector", "cfg": [2, True, 3, 2], "seed": 71 + i, "gens": 1,
                  "pool": ["0", "1", "2"], "agents": st_agents, "save_elite": False, "elite_path": None,
                  "mutate_elite": True, "mutation": m, **({"wrapper": rsn} if i == 1 else {})}
                 for i, m in enumerate(("rl_hp", "param", "arch"))]

    faults = [
        ("AgentWrapper.clone drops the fresh index (wrapped populations)", WA.AgentWrapper, "clone", wclone_drops_index,
         wrap_cases),
        ("dict-valued attributes (per-key running statistics of a wrapper) are left as freshly constructed",
         EvolvableAlgorithm, "copy_attributes", copy_attributes_keeps_fresh_dicts, wrap_cases[:1]),
        ("wrapper clones share the parent's statistics objects", WA.AgentWrapper, "clone", wclone_shares_statistics,
         wrap_cases),
        ("slot 0 of the new generation is the elite object itself: the mutation step moves the elite", TS, "select",
         select_elite_is_member0, evo_cases),
        ("rank inverted in _tournament", TS, "_tournament", argmin_tournament, stub_cases),
        ("elite = worst agent", TS, "_elitism", worst_elite, stub_cases),
        ("indices from max_id instead of max_id+1", TS, "select", select_from_max_id, stub_cases),
        ("elite not first", TS, "select", select_elite_last, stub_cases),
        ("select alters the old population", TS, "select", select_touching_parents, stub_cases[:10]),
        ("clone shares the fitness list", EvolvableAlgorithm, "clone", aliasing_clone, [real_case]),
        ("selector numbers children from a counter kept across calls", TS, "select", select_with_id_counter,
         session_cases),
        ("elite and new_population[0] are one object", TS, "select", select_elite_is_member0, stub_cases + [real_case]),
        ("elite is the old member itself when elitism is off", TS, "select", select_elite_uncloned, stub_cases),
        ("two members share their scores list", TS, "select", select_siblings_share_scores, stub_cases + [real_case]),
        ("clone re-initialises the bandits' confidence matrix", EvolvableAlgorithm, "clone", clone_reinit_bandit_state,
         fam_cases),
        ("the wiring check-points the first member of the mutated generation as elite", U,
         "tournament_selection_and_mutation", wiring_saves_member0, wire_cases),
    ]
    for name, owner, attr, fn, cases in faults:
        orig = vars(owner).get(attr, getattr(owner, attr))               # the descriptor itself (staticmethod)
        setattr(owner, attr, staticmethod(fn) if isinstance(orig, staticmethod) else fn)
        try:
            res = evaluate(chk, cases, pool)
        finally:
            setattr(owner, attr, orig)
        by_oracle = sum(1 for d, p, *_ in res if p)
        by_diff = sum(1 for d, p, *_ in res if d is not None)
        if by_oracle == 0:
            raise InfraError(f"C05 self-test: seeded fault '{name}' was not noticed by the oracle")
        chk.notes.append(f"self-test: '{name}' noticed (oracle {by_oracle}/{len(res)} cases, model diff {by_diff}/{len(res)})")
    # and the unpatched implementation is clean on the same cases
    res = evaluate(chk, stub_cases[:20] + session_cases[:20] + [real_case] + fam_cases + wire_cases + wrap_cases
                   + evo_cases, pool)
    if any(p or d is not None for d, p, *_ in res):
        raise InfraError("C05 self-test: the restored implementation is flagged on the self-test cases")
    # initial population: seeded faults in create_population (every member numbered 0 / one member short / the first
    # member handed out twice) must be noticed by the oracle of the real-constructor suite
    orig_cp = U.create_population
    ip_case = {"suite": "B", "fn": "create_population", "algo": "DQN", "n": 3, "hp": True, "nets": False, "seed": 5}

    def cp_all_zero(*a, **k):
        pop = orig_cp(*a, **k)
        for m in pop:
            m.index = 0
        return pop

    def cp_one_short(*a, **k):
        return orig_cp(*a, **k)[:-1]

    def cp_same_object(*a, **k):
        pop = orig_cp(*a, **k)
        return [pop[0]] + pop[:-1]

    for name, fn in (("create_population numbers every member 0", cp_all_zero),
                     ("create_population returns one member too few", cp_one_short),
                     ("create_population hands out one agent twice", cp_same_object)):
        U.create_population = fn
        try:
            _, problems, _, _ = run_initpop_case(ip_case, None)
        finally:
            U.create_population = orig_cp
        if not problems:
            raise InfraError(f"C05 self-test: seeded fault '{name}' was not noticed by the initial-population oracle")
        chk.notes.append(f"self-test: '{name}' noticed ({problems[0][:80]})")
    if run_initpop_case(ip_case, None)[1]:
        raise InfraError("C05 self-test: the restored create_population is flagged")


# ----------------------------------------------------------------------------- replay
def replay(chk: Check, path: str) -> int:
    torch.set_num_threads(1)
    c = json.loads(open(path).read())
    c = c.get("replay", c)
    if c.get("probe") == FINDING_ACT:
        probe_encoder_activation(chk)
        print(json.dumps({"probe": FINDING_ACT, "still_fails": bool(chk.violations or chk.known_hits)}))
        return 1 if chk.violations else 0
    if "initpop" in c:
        diff, problems, tags, sample = run_initpop_case(c["initpop"], initpop_description())
        print(json.dumps({"diff": diff, "oracle_problems": problems, "details": sample, "tags": tags}, indent=1, default=str))
        if problems:
            print(f"VIOLATION property=C05 replay={path}")
            return 1
        if diff:
            print(f"VIOLATION property=C05 replay={path} no-failing-input-found")
            return 1
        return 0
    c.setdefault("gens", 1)
    diff, problems, tags, impl, model = evaluate(chk, [c], Pool())[0]
    print(json.dumps({"diff_at": diff, "oracle_problems": problems, "impl": impl, "model": model, "tags": tags}, indent=1))
    if problems:
        print(f"VIOLATION property=C05 replay={path}")
        return 1
    if diff is not None:
        print(f"VIOLATION property=C05 replay={path} no-failing-input-found")
        return 1
    return 0
