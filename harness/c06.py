"""
C06 — hyperparameter mutation stays in its configured range and takes effect.

Correspondence (vs Model/HpMut.lean, token `hpmut`):
  * suite `mutate1`: `RLParameter.mutate` on dyadic min/max/factors/values (float == exact rational),
    the `torch.rand` draw recorded and handed to the model.
  * suite `population`: populations built by `create_population` / `Algo.population` with ONE shared
    `HyperparameterConfig`, then sequences of `Mutations.rl_hyperparam_mutation(agent)`,
    `Mutations.mutation(pop)`, `agent.clone()` and `TournamentSelection.select`; after every op every
    agent's every configured hyperparameter and every optimizer's `param_groups[*]['lr']` is compared
    with the model's `dump`.  The registry descriptor (hyperparameter names, optimizers, their lr
    attribute names and group counts) is read from the live object and handed to the model.
  * op `evo` inside suite `population` (and the dedicated `gen_evo_case` histories): ONE EVOLUTION STEP as the training
    loops perform it — `TournamentSelection.select` (elitism on/off) FOLLOWED BY `Mutations.mutation(new population)`
    with each of the five mutation kinds (RL-hp / none / parameters / activation / architecture) and mutate_elite
    on/off.  The model sees `select` + one `mut` per member that was given a hyper-parameter mutation; the oracle
    judges "exactly the sampled hyper-parameter of exactly that agent changes" over the returned ELITE, every member
    of the NEW population and every member of the OLD population together (hyper-parameters and every optimizer
    group's lr), naming the twin when two of them are one object.
Oracle (independent of the model; Fractions + a static optimizer→lr-attribute table): exactly one
hyperparameter of exactly the mutated agent moved, to its OWN previous value × shrink|grow, clipped,
cast; in range; right Python type; every optimizer group on that lr attribute carries the new value;
nobody else moved.

Source translation (`pre_gate`, before the Lean gate): `py2lean_hpmut.py` translates the source text of
`RLParameter.mutate` and `HyperparameterConfig.sample` (agilerl/algorithms/core/registry.py of the tree
under test) into `lean/Gen/HpMutGen.lean`; `Proofs/HpMutGenEq.lean` proves the generated definitions
equal to `HpMut.mutate1` / `HpMut.sample` and `Props/C06.lean` restates the theorems over the generated
definitions (`C06_source_translation_*`).  If the translator rejects the source or those proofs stop
checking, that is a gate problem naming the broken declaration; the suites below then supply the failing
input if there is one (else the VIOLATION line ends with no-failing-input-found).  Suite `mutate1`
therefore also pins the draw (`coin` in the case: exactly 1/2, just below, 0, just below 1) so that a
changed branch condition shows up as a concrete disagreement, and suite `sample` drives
`HyperparameterConfig.sample` alone with the recorded permutation.

Initial population (suite `create_population-initial-configs`): `py2lean_pop.py` translates `create_population` /
`EvolvableAlgorithm.population` into `lean/Gen/PopGen.lean`; `Props/C06.lean` proves that in every branch the members'
`hp_config` arguments have one sharing class the repaired semantics covers (`C06_source_translation_initial_population_
configs`).  The suite builds real populations of every algorithm through the real `create_population`, compares the
generated sharing table with the measured identity of the configuration objects and their RLParameter entries, and runs
`Mutations.rl_hyperparam_mutation` over the members: one attribute of one agent moves, from that agent's OWN value,
no other agent's attributes / optimizer learning rates / configuration entries (min, max, factors, dtype) move.
"""
from __future__ import annotations

import json
import math
import random
from fractions import Fraction

import numpy as np
import torch

import common
import py2lean_hpmut
import py2lean_pop
from common import ROOT, Check, InfraError, ddmin, frac

torch.set_num_threads(1)

# optimizer attribute -> learning-rate attribute, read off the algorithms' constructors
# (deliberately NOT taken from the registry: the oracle must not trust what it checks)
ALGOS = {
    "DQN": dict(ma=False, act="disc", opts={"optimizer": "lr"},
                floats=["lr", "gamma", "tau"], ints=["batch_size", "learn_step"]),
    "CQN": dict(ma=False, act="disc", opts={"optimizer": "lr"},
                floats=["lr", "gamma", "tau"], ints=["batch_size", "learn_step"]),
    "NeuralUCB": dict(ma=False, act="disc", opts={"optimizer": "lr"},
                      floats=["lr", "gamma"], ints=["batch_size", "learn_step"]),
    "NeuralTS": dict(ma=False, act="disc", opts={"optimizer": "lr"},
                     floats=["lr", "gamma"], ints=["batch_size", "learn_step"]),
    "DDPG": dict(ma=False, act="box", opts={"actor_optimizer": "lr_actor", "critic_optimizer": "lr_critic"},
                 floats=["lr_actor", "lr_critic", "gamma", "tau"], ints=["batch_size", "learn_step", "policy_freq"]),
    "TD3": dict(ma=False, act="box",
                opts={"actor_optimizer": "lr_actor", "critic_1_optimizer": "lr_critic", "critic_2_optimizer": "lr_critic"},
                floats=["lr_actor", "lr_critic", "gamma", "tau"], ints=["batch_size", "learn_step", "policy_freq"]),
    "PPO": dict(ma=False, act="disc", opts={"optimizer": "lr"},
                floats=["lr", "gamma", "gae_lambda", "clip_coef", "ent_coef", "vf_coef"],
                ints=["batch_size", "learn_step", "update_epochs"]),
    "MADDPG": dict(ma=True, act="box", opts={"actor_optimizers": "lr_actor", "critic_optimizers": "lr_critic"},
                   floats=["lr_actor", "lr_critic", "gamma", "tau"], ints=["batch_size", "learn_step"]),
    "MATD3": dict(ma=True, act="box",
                  opts={"actor_optimizers": "lr_actor", "critic_1_optimizers": "lr_critic",
                        "critic_2_optimizers": "lr_critic"},
                  floats=["lr_actor", "lr_critic", "gamma", "tau"], ints=["batch_size", "learn_step", "policy_freq"]),
    "IPPO": dict(ma=True, act="disc", opts={"actor_optimizers": "lr", "critic_optimizers": "lr"},
                 floats=["lr", "gamma", "gae_lambda", "clip_coef", "ent_coef", "vf_coef"],
                 ints=["batch_size", "learn_step", "update_epochs"]),
}
QUICK_WEIGHTS = {"DQN": 4, "CQN": 1, "NeuralUCB": 1, "NeuralTS": 1, "DDPG": 3, "TD3": 4, "PPO": 3,
                 "MADDPG": 2, "MATD3": 2, "IPPO": 3}
INIT_KEY = {"lr": "LR", "lr_actor": "LR_ACTOR", "lr_critic": "LR_CRITIC", "batch_size": "BATCH_SIZE",
            "learn_step": "LEARN_STEP", "gamma": "GAMMA", "tau": "TAU", "policy_freq": "POLICY_FREQ",
            "gae_lambda": "GAE_LAMBDA", "clip_coef": "CLIP_COEF", "ent_coef": "ENT_COEF", "vf_coef": "VF_COEF",
            "update_epochs": "UPDATE_EPOCHS"}
# safe boxes for the constructors' assertions: (lowest min, highest max) as exponents of two / ints
FLOAT_BOX = {"lr": (-18, -3), "lr_actor": (-18, -3), "lr_critic": (-18, -3), "gamma": (-1, 0), "tau": (-10, -1),
             "gae_lambda": (-2, 0), "clip_coef": (-6, 0), "ent_coef": (-8, -1), "vf_coef": (-4, 0)}
INT_BOX = {"batch_size": (1, 1024), "learn_step": (1, 64), "policy_freq": (1, 8), "update_epochs": (1, 8)}
BASE_HP = {"BATCH_SIZE": 64, "LR": 2.0 ** -10, "LR_ACTOR": 2.0 ** -12, "LR_CRITIC": 2.0 ** -9, "LEARN_STEP": 4,
           "GAMMA": 0.875, "TAU": 2.0 ** -7, "POLICY_FREQ": 2, "AGENT_IDS": ["agent_0", "agent_1"],
           "GAE_LAMBDA": 0.75, "ACTION_STD_INIT": 0.5, "CLIP_COEF": 0.25, "ENT_COEF": 2.0 ** -6, "VF_COEF": 0.5,
           "MAX_GRAD_NORM": 0.5, "TARGET_KL": None, "UPDATE_EPOCHS": 2, "DOUBLE": False, "O_U_NOISE": True}
NET = {"encoder_config": {"hidden_size": [4]}, "head_config": {"hidden_size": [4]}}
SMALL_SHRINK = [Fraction(1, 2), Fraction(3, 4), Fraction(7, 8), Fraction(5, 8), Fraction(1, 4)]
SMALL_GROW = [Fraction(5, 4), Fraction(3, 2), Fraction(9, 8), Fraction(2), Fraction(7, 4), Fraction(4)]
MAX_MUT_OPS = 10          # 4 bits per factor + 3 initial bits stay far below float64's 53


def drive(chk: Check, lines: list) -> list:
    """`chk.driver.run`, patient while a concurrent `lake build` re-links the shared driver executable"""
    import time
    for attempt in range(30):
        try:
            return chk.driver.run(lines)
        except InfraError as e:
            if "missing" not in str(e) and "exited" not in str(e) or attempt == 29:
                raise
            time.sleep(2)
        except (PermissionError, OSError):
            if attempt == 29:
                raise
            time.sleep(2)
    raise InfraError("driver unavailable")


# ----------------------------------------------------------------------------- exact arithmetic
def py_trunc(q: Fraction) -> int:
    return math.trunc(q)


def cast(dt: str, q: Fraction) -> Fraction:
    return q if dt == "f" else Fraction(py_trunc(q))


def clamp(lo: Fraction, hi: Fraction, x: Fraction) -> Fraction:
    return min(max(x, lo), hi)


def expected_values(hp: dict, own) -> set:
    lo, hi = Fraction(hp["lo"]), Fraction(hp["hi"])
    return {cast(hp["dt"], clamp(lo, hi, Q(own) * Fraction(f))) for f in (hp["shrink"], hp["grow"])}


def exactly_representable(q: Fraction) -> bool:
    try:
        return Fraction(float(q)) == q
    except OverflowError:
        return False


def fl(q: Fraction) -> float:
    x = float(q)
    if Fraction(x) != q:
        raise InfraError(f"generator produced a non-dyadic number {q}")
    return x


def num_of(v):
    """python number behind a 0-dim tensor / numpy scalar (exact)"""
    if torch.is_tensor(v):
        return v.item()
    if isinstance(v, np.generic):
        return v.item()
    return v


def fr(v) -> str:
    return frac(num_of(v))


def Q(v) -> Fraction:
    return Fraction(num_of(v))


def tag_of(v) -> str:
    if isinstance(v, bool):
        return "bool"
    if isinstance(v, int):
        return "i"
    if isinstance(v, float):
        return "f"
    return type(v).__name__


# ----------------------------------------------------------------------------- RNG recorder
class Draws:
    """records what `torch.randperm` / `torch.rand` hand out while the implementation runs"""

    def __init__(self, force_rand=None):
        self.force_rand = force_rand          # pin every one-element `torch.rand` draw to this value

    def __enter__(self):
        self.log = []
        self._rp, self._r = torch.randperm, torch.rand

        def randperm(n, *a, **k):
            out = self._rp(n, *a, **k)
            self.log.append(("perm", [int(x) for x in out.tolist()]))
            return out

        def rand(*a, **k):
            out = self._r(*a, **k)
            if out.numel() == 1 and self.force_rand is not None:
                out = torch.full_like(out, self.force_rand)
            if out.numel() == 1:
                self.log.append(("rand", float(out.reshape(-1)[0].item())))
            return out

        torch.randperm, torch.rand = randperm, rand
        return self

    def __exit__(self, *exc):
        torch.randperm, torch.rand = self._rp, self._r
        return False

    def pairs(self, ncfg: int) -> list:
        """[(perm, coin)] — one per `sample()` + `mutate()`"""
        log = self.log

        def scan(any_length: bool) -> list:
            out, i = [], 0
            while i < len(log):
                if log[i][0] == "perm" and (any_length or len(log[i][1]) == ncfg) and i + 1 < len(log) \
                        and log[i + 1][0] == "rand":
                    out.append((log[i][1], log[i + 1][1]))
                    i += 2
                else:
                    i += 1
            return out
        # a tree whose `sample` draws a permutation of another length: hand that draw to the model as it is
        return scan(False) or scan(True)


def seed_all(s: int) -> None:
    torch.manual_seed(s)
    np.random.seed(s % (2 ** 32))
    random.seed(s)


# ----------------------------------------------------------------------------- suite 1: RLParameter.mutate
def gen_mutate1(rng: random.Random) -> dict:
    dt = "i" if rng.random() < 0.4 else "f"

    def dy(lo_e=-6, hi_e=6, signed=True):
        m = rng.choice([1, 1, 3, 5, 7, 9, 11, 13])
        q = Fraction(m) * Fraction(2) ** rng.randint(lo_e, hi_e)
        return -q if signed and rng.random() < 0.2 else q
    a, b = dy(), dy()
    if dt == "i" and rng.random() < 0.6:
        a, b = Fraction(rng.randint(-20, 40)), Fraction(rng.randint(-20, 600))
    lo, hi = min(a, b), max(a, b)
    r = rng.random()
    if r < 0.08:
        hi = lo                                             # degenerate interval
    mode = rng.random()
    if mode < 0.55:                                         # inside the range
        k = rng.randint(0, 16)
        v = lo + (hi - lo) * Fraction(k, 16)
    elif mode < 0.75:
        v = rng.choice([lo, hi])                            # on a bound
    else:
        v = dy()                                            # anywhere
    if dt == "i" and rng.random() < 0.8:
        v = Fraction(py_trunc(v))
    sh = rng.choice(SMALL_SHRINK + [Fraction(1), Fraction(0), Fraction(-1, 2), Fraction(5, 4)]
                    if rng.random() < 0.2 else SMALL_SHRINK)
    gr = rng.choice(SMALL_GROW + [Fraction(1), Fraction(3, 4), Fraction(-2), Fraction(0)]
                    if rng.random() < 0.2 else SMALL_GROW)
    c = {"lo": str(lo), "hi": str(hi), "shrink": str(sh), "grow": str(gr), "dt": dt, "v": str(v),
         "vint": bool(v.denominator == 1 and rng.random() < 0.7), "seed": rng.randrange(1 << 30)}
    if rng.random() < 0.06:                                 # pin the draw on / next to the branch condition
        c["coin"] = rng.choice(FORCED_COINS)
    return c


# float32 values `torch.rand(1).item()` can return: the branch boundary, its predecessor, the ends of [0, 1)
FORCED_COINS = [0.5, 0.5 - 2.0 ** -25, 0.0, 1.0 - 2.0 ** -24, 0.5 + 2.0 ** -24]


def run_mutate1(c: dict):
    """-> (impl line, model op line, problems, tags)"""
    from agilerl.algorithms.core.registry import RLParameter
    lo, hi, sh, gr, v = (Fraction(c[k]) for k in ("lo", "hi", "shrink", "grow", "v"))
    as_py = (lambda q, want_int: int(q) if want_int and q.denominator == 1 else fl(q))
    p = RLParameter(min=as_py(lo, c["dt"] == "i"), max=as_py(hi, c["dt"] == "i"), shrink_factor=fl(sh), grow_factor=fl(gr),
                    dtype=int if c["dt"] == "i" else float)
    p.value = as_py(v, c["vint"])
    seed_all(c["seed"])
    with Draws(force_rand=c.get("coin")) as d:
        out = p.mutate()
    coins = [x[1] for x in d.log if x[0] == "rand"]
    if len(coins) != 1:
        raise InfraError(f"RLParameter.mutate made {len(coins)} torch.rand draws; the harness expects exactly one "
                         "(RNG source changed? update harness/c06.py)")
    coin = coins[0]
    line = f"hpmut mutate {lo} {hi} {sh} {gr} {c['dt']} {v} {frac(coin)}"
    hp = {"lo": lo, "hi": hi, "shrink": sh, "grow": gr, "dt": c["dt"]}
    problems, tags = [], [f"m1-{c['dt']}"]
    res = Fraction(out)
    exp = expected_values(hp, v)
    for f in (sh, gr):
        if not exactly_representable(v * f):
            raise InfraError(f"inexact product generated: {v}*{f}")
    if res not in exp:
        problems.append(f"RLParameter.mutate(value={v}, min={lo}, max={hi}, shrink={sh}, grow={gr}, dtype={c['dt']}) "
                        f"returned {res}, not value×factor clipped and cast (one of {sorted(map(str, exp))})")
    rlo, rhi = cast(c["dt"], lo), cast(c["dt"], hi)
    if not (rlo <= res <= rhi):
        problems.append(f"RLParameter.mutate returned {res} outside [{rlo}, {rhi}] (min={lo}, max={hi}, dtype={c['dt']})")
    if tag_of(out) != c["dt"]:
        problems.append(f"RLParameter.mutate returned a {type(out).__name__}, configured dtype is {c['dt']}")
    if res in (rlo, rhi) and (v * sh != res and v * gr != res):
        tags.append("m1-clipped")
    if c["dt"] == "i" and any(cast("f", clamp(lo, hi, v * f)).denominator != 1 for f in (sh, gr)):
        tags.append("m1-truncating")
    if c["dt"] == "i" and (lo.denominator != 1 or hi.denominator != 1):
        tags.append("m1-nonintegral-bounds")
    if c.get("coin") is not None:
        if coin != c["coin"]:
            raise InfraError(f"pinned draw {c['coin']} came out as {coin}")
        tags.append("m1-coin-at-half" if coin == 0.5 else "m1-coin-pinned")
    tags.append("m1-shrink" if coin < 0.5 else "m1-grow")
    return str(res), line, problems, tags


# ----------------------------------------------------------------------------- suite 1b: HyperparameterConfig.sample
def run_sample(c: dict):
    """-> (impl line, model op line, problems, tags)"""
    from agilerl.algorithms.core.registry import HyperparameterConfig, RLParameter
    names = c["names"]
    params = {n: RLParameter(min=float(i), max=float(i + 1)) for i, n in enumerate(names)}
    cfg = HyperparameterConfig(**params)
    seed_all(c["seed"])
    raised = None
    with Draws() as d:
        try:
            name, param = cfg.sample()
        except Exception as e:                  # e.g. IndexError: the draw does not name a configured hyperparameter
            raised, name, param = e, None, None
    perms = [x[1] for x in d.log if x[0] == "perm"]
    if len(perms) != 1 or any(x[0] == "rand" for x in d.log):
        raise InfraError(f"HyperparameterConfig.sample made {len(d.log)} draws, the harness expects one torch.randperm "
                         "(RNG source changed? update harness/c06.py)")
    perm = perms[0]
    line = f"hpmut sample {len(names)} " + " ".join(map(str, perm))
    problems = []
    if raised is not None:
        problems.append(f"HyperparameterConfig.sample raised {type(raised).__name__}: {raised} on the configuration "
                        f"{names} (draw torch.randperm -> {perm})")
        return f"raised {type(raised).__name__}", line, problems, [f"sample-n{len(names)}"]
    if name not in names:
        problems.append(f"HyperparameterConfig.sample returned the name {name!r}, configured are {names}")
    elif param is not params[name]:
        problems.append(f"HyperparameterConfig.sample returned {name!r} with the RLParameter of "
                        f"{[n for n in names if params[n] is param] or 'nobody'}")
    if not problems and not (perm and perm[0] < len(names) and name == names[perm[0]]):
        problems.append(f"HyperparameterConfig.sample returned {name!r} (index {names.index(name)}), the head of the "
                        f"permutation {perm} names {names[perm[0]] if perm and perm[0] < len(names) else 'nobody'!r}")
    impl = str(names.index(name)) if name in names else repr(name)
    return impl, line, problems, [f"sample-n{len(names)}", f"sample-k{impl}"]


# ----------------------------------------------------------------------------- suite 2: populations
def spaces_for(algo: str):
    from gymnasium import spaces
    box = spaces.Box(-1, 1, (3,), dtype=np.float32)
    act = spaces.Discrete(2) if ALGOS[algo]["act"] == "disc" else spaces.Box(-1, 1, (2,), dtype=np.float32)
    if ALGOS[algo]["ma"]:
        return [box, box], [act, act]
    return box, act


INT_OK = {"gamma", "gae_lambda", "clip_coef", "ent_coef", "vf_coef"}   # asserted (float, int) by the constructors


def gen_hp(rng: random.Random, name: str, drift: bool, ma: bool = False) -> dict:
    if name in FLOAT_BOX:
        e0, e1 = FLOAT_BOX[name]
        a, b = sorted((rng.randint(e0, e1), rng.randint(e0, e1)))
        lo, hi = Fraction(2) ** a, Fraction(2) ** b
        if rng.random() < 0.3 and a < b:
            lo = lo * rng.choice([1, Fraction(3, 2), Fraction(5, 4)])
        k = rng.choice([0, 0, 1, 2, 4, 8, 8])
        v = lo + (hi - lo) * Fraction(k, 8) if rng.random() < 0.5 else Fraction(2) ** rng.randint(a, b)
        v = min(max(v, lo), hi)
        if Fraction(v).numerator.bit_length() > 6:
            v = lo
        dt = "f"
        # the agent may HOLD a float hyper-parameter in another number type: an int literal at an integral
        # point of the range (gamma=1, gae_lambda=1, ent_coef=0 — the constructors accept them), a numpy
        # scalar read from a config file, a 0-dim tensor (gamma).  The mutated attribute on the agent must
        # still be a float in range.  (int-typed hyper-parameters are asserted `int` by every constructor.)
        vtype = None
        x = rng.random()
        if not drift and name in INT_OK and not (name == "gamma" and ma) and x < 0.45:
            if name != "gamma" and rng.random() < 0.3:
                lo, v = Fraction(0), Fraction(0)
            else:
                hi, v = max(hi, Fraction(1)), Fraction(1)
                lo = min(lo, hi)
            vtype = "int"
        elif not drift and x < 0.60:
            vtype = "np"
        elif not drift and name == "gamma" and not ma and x < 0.70:
            vtype = "tensor"
    else:
        i0, i1 = INT_BOX[name]
        a, b = sorted((rng.randint(i0, i1), rng.randint(i0, i1)))
        lo, hi = Fraction(a), Fraction(b)
        v = Fraction(rng.randint(a, b))
        if rng.random() < 0.25:                       # non-integral bounds (>= 1.5 keeps int(min) >= 1)
            lo, hi = lo + Fraction(1, 2), hi + Fraction(1, 2)
            v = Fraction(min(max(int(v), a + 1), b))
        dt = "i"
    if drift:
        sh, gr = rng.choice([Fraction(1, 2), Fraction(1, 4)]), rng.choice([Fraction(2), Fraction(4)])
    else:
        sh, gr = rng.choice(SMALL_SHRINK), rng.choice(SMALL_GROW)
        if rng.random() < 0.06:
            sh, gr = rng.choice([(Fraction(1), gr), (sh, Fraction(1)), (Fraction(5, 4), Fraction(3, 4))])
    out = {"name": name, "lo": str(lo), "hi": str(hi), "shrink": str(sh), "grow": str(gr), "dt": dt, "v": str(v)}
    if dt == "f" and vtype:
        out["vtype"] = vtype
    return out


def gen_case(rng: random.Random, tier: str, algo: str | None = None, drift: bool = False,
             types: bool = False) -> dict:
    if algo is None:
        names = list(QUICK_WEIGHTS)
        algo = rng.choices(names, weights=[QUICK_WEIGHTS[a] for a in names])[0]
    info = ALGOS[algo]
    lrs = sorted(set(info["opts"].values()))
    cand = info["floats"] + info["ints"]
    r = rng.random()
    if r < 0.25:
        chosen = list(lrs)                                         # learning rates only
    elif r < 0.35:
        chosen = [rng.choice(cand)]
    else:
        chosen = [n for n in cand if rng.random() < 0.45] or [rng.choice(cand)]
        if rng.random() < 0.7:
            chosen = list(dict.fromkeys(chosen + [rng.choice(lrs)]))
    if types:
        # every float hyper-parameter the constructor lets through as an int is HELD as an int (or as a numpy
        # scalar / 0-dim tensor) when it is first mutated
        ok = [n for n in info["floats"] if n in INT_OK and not (n == "gamma" and info["ma"])]
        chosen = ok if ok else list(lrs)
    rng.shuffle(chosen)
    hps = [gen_hp(rng, n, drift, info["ma"]) for n in chosen]
    if types:
        for h in hps:
            if h["name"] in INT_OK and not (h["name"] == "gamma" and info["ma"]) and rng.random() < 0.8:
                if h.get("vtype") != "int":
                    h.update(v="1", hi=str(max(Fraction(h["hi"]), Fraction(1))), vtype="int")
            elif "vtype" not in h:
                h["vtype"] = rng.choice(["np", "np", "tensor"]) if h["name"] == "gamma" else "np"
    pop = rng.choice([1, 2, 2, 3, 3, 4]) if not drift else rng.choice([2, 3])
    ops, size, nmut = [], pop, 0
    length = rng.randint(4, 10) if tier == "quick" else rng.randint(4, 16)
    if drift:
        length = rng.randint(25, 45)
    cap = MAX_MUT_OPS if not drift else 10 ** 6
    # in a training loop an agent has LEARNED (its optimizers hold state) before it is mutated:
    # a good share of the histories starts with a learning step of every agent (index -1 = all)
    if rng.random() < 0.6:
        ops.append(["learn", -1])
    for _ in range(length):
        x = rng.random()
        if (x < 0.52 or drift and x < 0.86) and nmut < cap:
            ops.append(["mut", rng.randrange(size)])
            nmut += 1
        elif x < 0.62 and nmut < cap:
            ops.append(["mutall"])
            nmut += 1
        elif x < 0.70 or drift and x < 0.92:
            ops.append(["learn", rng.choice([-1, rng.randrange(size)])])
        elif x < 0.76 and not drift:
            # another kind of mutation on an agent: it must leave the hyper-parameters alone and every
            # optimizer it re-creates must keep stepping with the agent's CURRENT learning rate
            ops.append(["othermut", rng.randrange(size), rng.choice(["param", "act", "arch"])])
        elif x < 0.80 and size < 5:
            ops.append(["clone", rng.randrange(size)])
            size += 1
        elif x < 0.88 and not drift:
            # a continuation through the disk: save_checkpoint -> load_checkpoint into an un-mutated twin
            # ("ckpt") or -> Algo.load ("load"); the restored agent takes the place of the saved one
            ops.append([rng.choice(["ckpt", "ckpt", "load"]), rng.randrange(size)])
        elif x < 0.94 or drift:
            ops.append(["select", rng.random() < 0.6, [rng.randint(0, 9) for _ in range(size)]])
        else:
            # the evolution step of the training loops: select() followed by Mutations.mutation of the new population
            kind = "rl_hp" if rng.random() < 0.55 and nmut < cap else rng.choice(EVO_KINDS[1:])
            ops.append(["evo", rng.random() < 0.6, [rng.randint(0, 9) for _ in range(size)], rng.random() < 0.6, kind])
            nmut += kind == "rl_hp"
    if not any(o[0] in ("mut", "mutall") for o in ops):
        ops.insert(0, ["mut", 0])
    # "the new value is what the agent SUBSEQUENTLY uses": in half of the histories one mutation is followed
    # IMMEDIATELY (no learning step in between: the re-created optimizer is still stateless) by a
    # continuation of that agent — checkpoint round trip, load(), clone, learning step
    if not drift and rng.random() < 0.5:
        at = rng.choice([i for i, o in enumerate(ops) if o[0] in ("mut", "mutall")])
        who = ops[at][1] if ops[at][0] == "mut" else 0
        cont = rng.choice(["ckpt", "ckpt", "load", "clone", "learn"])
        ops.insert(at + 1, [cont, who])
        if rng.random() < 0.5:
            ops.insert(at + 2, ["learn", who])
    return {"algo": algo, "pop": pop, "via": "population" if rng.random() < 0.25 else "create_population",
            "hps": hps, "ops": ops, "seed": rng.randrange(1 << 30)}


EVO_KINDS = ["rl_hp", "none", "param", "act", "arch"]


def gen_evo_case(rng: random.Random, tier: str, algo: str) -> dict:
    """a history made of evolution steps (select -> Mutations.mutation): the first one with elitism and
    mutate_elite and a hyper-parameter mutation of every member, then one or two drawn from the full grid
    elitism x mutate_elite x five mutation kinds, learning steps in between"""
    c = gen_case(rng, tier, algo=algo)
    size = c["pop"] = rng.choice([2, 3, 3, 4])
    fits = lambda: [rng.randint(0, 9) for _ in range(size)]
    ops = [["learn", -1]] if rng.random() < 0.6 else []
    if rng.random() < 0.4:
        ops.append(["mut", rng.randrange(size)])
    ops.append(["evo", True, fits(), True, "rl_hp"])
    for _ in range(rng.randint(1, 2)):
        if rng.random() < 0.5:
            ops.append(["learn", rng.choice([-1, rng.randrange(size)])])
        ops.append(["evo", rng.random() < 0.5, fits(), rng.random() < 0.5, rng.choice(EVO_KINDS)])
    c["ops"] = ops
    return c


def start_value(hp: dict, native: bool = False):
    """the initial value in the number type the case asks the agent to hold it in"""
    v = Fraction(hp["v"])
    if hp["dt"] == "i":
        return int(v)
    t = None if native else hp.get("vtype")
    if t == "int" and v.denominator == 1:
        return int(v)
    if t == "np":
        return np.float64(fl(v))
    if t == "tensor":
        return torch.tensor(fl(v))
    return fl(v)


def build_population(case: dict):
    """the population; when a constructor rejects a requested start-value type (assert isinstance …) the
    case is rebuilt with native types (case['_native'] is set so that the rest of the run knows)"""
    if any(h.get("vtype") for h in case["hps"]) and not case.get("_native"):
        try:
            return _build_population(case)
        except (AssertionError, TypeError, ValueError):
            case["_native"] = True
    return _build_population(case)


def _build_population(case: dict):
    from agilerl.algorithms.core.registry import HyperparameterConfig, RLParameter
    from agilerl.utils.utils import create_population
    algo = case["algo"]
    obs, act = spaces_for(algo)
    cfg_kwargs, init = {}, dict(BASE_HP)
    for hp in case["hps"]:
        lo, hi = Fraction(hp["lo"]), Fraction(hp["hi"])
        isint = hp["dt"] == "i"
        cfg_kwargs[hp["name"]] = RLParameter(
            min=int(lo) if isint and lo.denominator == 1 else fl(lo),
            max=int(hi) if isint and hi.denominator == 1 else fl(hi),
            shrink_factor=fl(Fraction(hp["shrink"])), grow_factor=fl(Fraction(hp["grow"])),
            dtype=int if isint else float)
        if hp["name"] in INIT_KEY:
            init[INIT_KEY[hp["name"]]] = start_value(hp, native=case.get("_native", False))
    if case.get("same_object_lrs"):
        init["LR_CRITIC"] = init["LR_ACTOR"]               # one float object for both learning rates
    cfg = HyperparameterConfig(**cfg_kwargs)
    seed_all(case["seed"])
    if case.get("via") == "population":
        import agilerl.algorithms as algs
        cls = getattr(algs, algo)
        kw = {n: init[INIT_KEY[n]] for n in ALGOS[algo]["floats"] + ALGOS[algo]["ints"]}
        if ALGOS[algo]["ma"]:
            kw["agent_ids"] = init["AGENT_IDS"]
        pop = cls.population(case["pop"], obs, act, hp_config=cfg, net_config=NET, **kw)
    else:
        pop = create_population(algo, obs, act, NET, init, hp_config=cfg, population_size=case["pop"])
    return pop, cfg


def opt_groups(agent, opt_attr: str) -> list:
    w = getattr(agent, opt_attr)
    inner = w.optimizer if isinstance(w.optimizer, (list, tuple)) else [w.optimizer]
    out = []
    for o in inner:
        for g in o.param_groups:
            lr = g["lr"]
            out.append(lr.item() if hasattr(lr, "item") else lr)
    return out


def optimizer_state_sizes(agent, opt_attrs) -> dict:
    """{optimizer attribute: number of parameters the torch optimizer(s) hold state for}"""
    out = {}
    for o in opt_attrs:
        w = getattr(agent, o)
        inner = w.optimizer if isinstance(w.optimizer, (list, tuple)) else [w.optimizer]
        out[o] = sum(len(x.state) for x in inner)
    return out


def dump_line(pop, all_names, opt_attrs) -> str:
    parts = []
    for a in pop:
        attrs = " ".join(fr(getattr(a, n)) for n in all_names)
        opts = " ; ".join(" ".join(frac(x) for x in opt_groups(a, o)) for o in opt_attrs)
        parts.append(attrs + " @ " + opts)
    return " | ".join(parts)


def snapshot(pop, names, table) -> list:
    return [{"obj": a, "hp": {n: getattr(a, n) for n in names},
             "opt": {o: opt_groups(a, o) for o in table if hasattr(a, o)}} for a in pop]


def same_value(x, y) -> bool:
    return tag_of(x) == tag_of(y) and x == y


def check_invariant(pop, table, where: str, problems: list) -> None:
    """every optimizer group's lr is the agent's current learning-rate attribute"""
    for j, a in enumerate(pop):
        for o, lrn in table.items():
            if not hasattr(a, o):
                problems.append(f"{where}: agent {j} has no optimizer attribute {o}")
                continue
            want = getattr(a, lrn)
            got = opt_groups(a, o)
            if any(g != want for g in got):
                problems.append(f"{where}: agent {j} (index {a.index}) steps {o} with lr {got} but its {lrn} is {want}")


def check_mutated(j, a, before, others_before, hps, table, where, problems, tags, shared: bool) -> None:
    """the property for ONE mutation of agent `a` (snapshot `before`)"""
    names = [h["name"] for h in hps]
    changed = [n for n in names if not same_value(getattr(a, n), before["hp"][n])]
    mut = getattr(a, "mut", None)
    if mut not in names:
        problems.append(f"{where}: agent {j}.mut = {mut!r} is not a configured hyperparameter {names}")
        return
    if any(n != mut for n in changed):
        problems.append(f"{where}: agent {j}: hyperparameters {changed} changed, sampled one is {mut!r}")
    hp = hps[names.index(mut)]
    own, new = before["hp"][mut], getattr(a, mut)
    exp = expected_values(hp, own)
    tolerant = False
    for f in (hp["shrink"], hp["grow"]):
        if not exactly_representable(Q(own) * Fraction(f)):
            # every value the harness generates keeps its products exact.  If the history has been correct so
            # far this is the generator's fault; if the implementation already deviated (a problem is recorded)
            # the non-dyadic number is ITS doing: go on with a toleranced comparison, finish with the violations
            if not problems:
                raise InfraError(f"inexact product generated: {own}*{f} ({where})")
            tolerant = True
    lo, hi = Fraction(hp["lo"]), Fraction(hp["hi"])
    rlo, rhi = cast(hp["dt"], lo), cast(hp["dt"], hi)
    if tolerant:
        fexp = set()
        for f in (hp["shrink"], hp["grow"]):
            x = min(max(float(num_of(own)) * float(Fraction(f)), float(lo)), float(hi))
            fexp.add(float(int(x)) if hp["dt"] == "i" else x)
        if not any(abs(float(num_of(new)) - e) <= 1e-12 * max(1.0, abs(e)) for e in fexp):
            problems.append(f"{where}: agent {j} (index {a.index}) {mut}: {own!r} -> {new!r}, but own value × "
                            f"shrink|grow clipped to [{lo}, {hi}] and cast to {hp['dt']} is one of {sorted(fexp)} "
                            f"(float comparison: the value was already off the generated dyadic grid) [wrong base value]")
    elif Q(new) not in exp:
        foreign = [k for k, ob in others_before
                   if Q(new) in expected_values(hp, ob["hp"][mut]) and ob["hp"][mut] != own]
        hint = f"; it IS agent {foreign[0]}'s value × factor" if foreign else ""
        problems.append(f"{where}: agent {j} (index {a.index}) {mut}: {fr(own)} -> {fr(new)}, but own value × "
                        f"shrink|grow clipped to [{lo}, {hi}] and cast to {hp['dt']} is one of "
                        f"{sorted(map(str, exp))}{hint} [wrong base value]")
    if not (rlo <= Q(new) <= rhi):
        problems.append(f"{where}: agent {j} {mut} = {fr(new)} is outside [{rlo}, {rhi}] [out of range]")
    if tag_of(new) != hp["dt"]:
        problems.append(f"{where}: agent {j} (index {a.index}) {mut} = {new!r} is a {type(new).__name__} on the agent "
                        f"(held as {type(own).__name__} {own!r} before), configured dtype {hp['dt']} [wrong type]")
    users = [o for o, lrn in table.items() if lrn == mut]
    for o in users:
        got = opt_groups(a, o)
        if any(g != new for g in got):
            problems.append(f"{where}: agent {j} (index {a.index}) mutated {mut} to {fr(new)} but {o} still steps "
                            f"with lr {[frac(g) for g in got]} [optimizer not updated]")
    for o, lrn in table.items():
        if lrn != mut and opt_groups(a, o) != before["opt"].get(o):
            problems.append(f"{where}: agent {j}: {o} (on {lrn}) changed its lr although {mut} was mutated")
    # tags
    if Q(new) in (rlo, rhi) and Q(new) not in (Q(own) * Fraction(hp["shrink"]),
                                                            Q(own) * Fraction(hp["grow"])):
        tags.append("clipped")
    if hp["dt"] == "i":
        tags.append("int-hp")
        if lo.denominator != 1 or hi.denominator != 1:
            tags.append("int-nonintegral-bounds")
    if len(users) > 1:
        tags.append("lr-of-several-optimizers")
    elif users:
        tags.append("lr-of-one-optimizer")
    if shared:
        tags.append("shared-config-mutation")
    if tag_of(own) != hp["dt"] or type(own) not in (int, float):
        tags.append(f"held-as-{type(own).__name__}")
    tags.append(f"hp-{mut}")


def run_case(case: dict, mut=None):
    """-> (impl lines, model op lines, problems, tags, trace)"""
    g = case_steps(case, mut)
    try:
        while True:
            next(g)
    except StopIteration as e:
        return e.value


def case_steps(case: dict, mut=None):
    """generator form of a population history: yields after the construction and after every op, returns
    (impl lines, model op lines, problems, tags, trace).  `mut` = the Mutations object to use (a session
    shares ONE object between several populations of different algorithms); None = a fresh one"""
    from agilerl.hpo.mutation import Mutations
    from agilerl.hpo.tournament import TournamentSelection
    algo, hps = case["algo"], case["hps"]
    table = ALGOS[algo]["opts"]
    names = [h["name"] for h in hps]
    impl, model, problems, tags, trace = [], [], [], [f"algo-{algo}", f"via-{case.get('via', 'create_population')}"], []
    pop, cfg = build_population(case)
    if mut is None:
        mut = Mutations(0, 0, 0, 0, 0, 1, rand_seed=case["seed"] % (2 ** 31))
    # registry descriptor, read from the live object
    reg = pop[0].registry
    cfg_names = list(reg.hp_config.names())
    if cfg_names != names:
        problems.append(f"registry lists hyperparameters {cfg_names}, configured {names}")
    opt_attrs = [oc.name for oc in reg.optimizers]
    lr_names = [oc.lr for oc in reg.optimizers]
    for o, l in zip(opt_attrs, lr_names):
        if o in table and table[o] != l:
            problems.append(f"registry optimizers: {o} is registered on learning rate {l!r}, the constructor builds it "
                            f"from {table[o]!r}")
    extras = [n for n in dict.fromkeys(lr_names) if n not in names]
    all_names = names + extras
    model.append("hpmut cfg %d " % len(hps) + " ".join(
        f"{h['lo']} {h['hi']} {h['shrink']} {h['grow']} {h['dt']}" for h in hps))
    impl.append("ok")
    model.append("hpmut opts %d " % len(opt_attrs) + " ".join(
        f"{all_names.index(l)} {len(opt_groups(pop[0], o))}" for o, l in zip(opt_attrs, lr_names)))
    impl.append("ok")
    model.append(f"hpmut pop own all {len(pop)} " + " ".join(fr(getattr(pop[0], n)) for n in all_names))
    impl.append("ok")
    model.append("hpmut dump")
    impl.append(dump_line(pop, all_names, opt_attrs))
    for h in hps:                                     # the initial value is the one we asked for
        if Q(getattr(pop[0], h["name"])) != Fraction(h["v"]) and h["name"] in INIT_KEY:
            raise InfraError(f"{algo}.{h['name']} = {getattr(pop[0], h['name'])}, asked for {h['v']}")
    check_invariant(pop, table, "after construction", problems)

    stateless_lr: set = set()        # id(agent): a learning rate was mutated and no learn() happened since
    if case.get("_native"):
        tags.append("start-type-rejected-by-constructor")

    def shared_cfg(a) -> bool:
        return sum(1 for b in pop if b.registry.hp_config is a.registry.hp_config) > 1

    yield
    for t, op in enumerate(case["ops"]):
        s = (case["seed"] * 7919 + 104729 * (t + 1)) % (2 ** 31)
        seed_all(s)
        where = f"op {t} {op[0]}"
        if op[0] == "mut":
            j = op[1] % len(pop)
            a = pop[j]
            snap = snapshot(pop, names, table)
            sh = shared_cfg(a)
            trained = optimizer_state_sizes(a, opt_attrs)
            with Draws() as d:
                ret = mut.rl_hyperparam_mutation(a)
            if a.mut in lr_names and any(trained[o] > 0 for o, l in zip(opt_attrs, lr_names) if l == a.mut):
                tags.append("lr-mutation-of-trained-optimizer")
            if ret is not a:
                problems.append(f"{where}: rl_hyperparam_mutation returned a different object")
            pairs = d.pairs(len(hps))
            if len(pairs) != 1:
                raise InfraError(f"rl_hyperparam_mutation made {len(pairs)} (randperm, rand) draw pairs, expected 1 "
                                 "(RNG source changed? update harness/c06.py)")
            perm, coin = pairs[0]
            trace.append({"op": op, "agent": j, "perm": perm, "coin": coin, "mut": a.mut})
            model.append(f"hpmut mut {j} {frac(coin)} " + " ".join(map(str, perm)))
            k = names.index(a.mut) if a.mut in names else -1
            impl.append(f"{k} {tag_of(getattr(a, a.mut, None))} {fr(getattr(a, a.mut))}" if k >= 0 else str(a.mut))
            check_mutated(j, a, snap[j], [(i, x) for i, x in enumerate(snap) if i != j], hps, table, where, problems, tags, sh)
            for i, b in enumerate(pop):
                if i == j:
                    continue
                now = snapshot([b], names, table)[0]
                if any(not same_value(now["hp"][n], snap[i]["hp"][n]) for n in names) or now["opt"] != snap[i]["opt"]:
                    problems.append(f"{where}: agent {i} moved although agent {j} was mutated")
            tags.append("op-mut")
            if a.mut in lr_names:
                stateless_lr.add(id(a))
        elif op[0] == "mutall":
            snap = snapshot(pop, names, table)
            shs = [shared_cfg(a) for a in pop]
            trained_all = [optimizer_state_sizes(a, opt_attrs) for a in pop]
            with Draws() as d:
                newpop = mut.mutation(pop)
            for a, tr in zip(newpop, trained_all):
                if a.mut in lr_names and any(tr[o] > 0 for o, l in zip(opt_attrs, lr_names) if l == a.mut):
                    tags.append("lr-mutation-of-trained-optimizer")
            pairs = d.pairs(len(hps))
            if len(pairs) != len(pop) or len(newpop) != len(pop):
                raise InfraError(f"Mutations.mutation made {len(pairs)} draw pairs for {len(pop)} agents")
            if any(x is not y for x, y in zip(newpop, pop)):
                problems.append(f"{where}: Mutations.mutation returned different agent objects")
            pop = list(newpop)
            for j, a in enumerate(pop):
                perm, coin = pairs[j]
                trace.append({"op": op, "agent": j, "perm": perm, "coin": coin, "mut": a.mut})
                model.append(f"hpmut mut {j} {frac(coin)} " + " ".join(map(str, perm)))
                k = names.index(a.mut) if a.mut in names else -1
                impl.append(f"{k} {tag_of(getattr(a, a.mut, None))} {fr(getattr(a, a.mut))}" if k >= 0 else str(a.mut))
                check_mutated(j, a, snap[j], [(i, x) for i, x in enumerate(snap) if i != j], hps, table, where, problems,
                              tags, shs[j])
            tags.append("op-mutall")
            stateless_lr.update(id(a) for a in pop if a.mut in lr_names)
        elif op[0] == "learn":
            # one real learning step (harness/agents.py builds the batch in the form learn() accepts); the
            # model is untouched: no hyper-parameter and no optimizer learning rate may move
            import agents
            who = list(range(len(pop))) if op[1] < 0 else [op[1] % len(pop)]
            snap = snapshot(pop, names, table)
            for j in who:
                try:
                    agents.learn_once(pop[j], algo, "vector", seed=(s + 31 * j) % (2 ** 31), n=8)
                    tags.append("op-learn")
                    stateless_lr.discard(id(pop[j]))
                except Exception as e:              # whether learn() works at all is not C06's subject
                    tags.append(f"op-learn-raised-{type(e).__name__}")
            now = snapshot(pop, names, table)
            for i in range(len(pop)):
                if any(not same_value(now[i]["hp"][n], snap[i]["hp"][n]) for n in names):
                    problems.append(f"{where}: a learning step changed hyper-parameters of agent {i}")
            trace.append({"op": op, "agents": who,
                          "optimizer_has_state": [optimizer_state_sizes(pop[j], opt_attrs) for j in who]})
            # (the dump after every op, below, compares every optimizer lr with the untouched model)
        elif op[0] in ("ckpt", "load"):
            # save_checkpoint(agent j) -> load_checkpoint into a freshly built, un-mutated twin / Algo.load();
            # the restored agent replaces agent j.  Model: `reload j` (attributes and group lrs by value)
            import os
            import tempfile
            j = op[1] % len(pop)
            a = pop[j]
            fd, path = tempfile.mkstemp(prefix="c06_", suffix=".pt")
            os.close(fd)
            twin = None
            try:
                a.save_checkpoint(path)
                if op[0] == "ckpt":
                    twin = build_population({**case, "pop": 1})[0][0]
                    seed_all(s)
                    twin.load_checkpoint(path)
                else:
                    twin = type(a).load(path)
                tags.append(f"op-{op[0]}")
            except InfraError:
                raise
            except Exception as e:                  # whether checkpoints work at all is C07's subject
                twin = None
                tags.append(f"op-{op[0]}-raised-{type(e).__name__}")
            finally:
                if os.path.exists(path):
                    os.remove(path)
            if twin is not None:
                if id(a) in stateless_lr:
                    tags.append("restored-right-after-lr-mutation")
                    stateless_lr.add(id(twin))
                for n in names:
                    if not same_value(getattr(twin, n), getattr(a, n)):
                        problems.append(f"{where}: agent {j} saved with {n}={getattr(a, n)!r}, restored agent has "
                                        f"{getattr(twin, n)!r}")
                pop[j] = twin
                model.append(f"hpmut reload {j}")
                impl.append("ok")
                trace.append({"op": op, "agent": j})
        elif op[0] == "othermut":
            j = op[1] % len(pop)
            kind = op[2]
            snap = snapshot(pop, names, table)
            m2 = Mutations(0, int(kind == "arch"), 0.5, int(kind == "param"), int(kind == "act"), 0,
                           rand_seed=s % (2 ** 31))
            try:
                out = m2.mutation([pop[j]])
                pop[j] = out[0]
                tags.append(f"op-othermut-{kind}")
            except Exception as e:                      # coherence after such mutations is C02's subject
                tags.append(f"op-othermut-{kind}-raised-{type(e).__name__}")
            now = snapshot(pop, names, table)
            for i in range(len(pop)):
                if any(not same_value(now[i]["hp"][n], snap[i]["hp"][n]) for n in names):
                    problems.append(f"{where}: a {kind} mutation of agent {j} changed hyper-parameters of agent {i}")
            impl.append("ok")
            model.append("hpmut dump")                   # the model's state is untouched by other mutation kinds
            impl[-1] = dump_line(pop, all_names, opt_attrs)
        elif op[0] == "clone":
            j = op[1] % len(pop)
            c = pop[j].clone()
            for n in names:
                if not same_value(getattr(c, n), getattr(pop[j], n)):
                    problems.append(f"{where}: clone of agent {j} has {n}={getattr(c, n)!r}, parent {getattr(pop[j], n)!r}")
            pop.append(c)
            model.append(f"hpmut clone {j}")
            impl.append("ok")
            tags.append("op-clone")
        elif op[0] == "select":
            elitism, fits = bool(op[1]), op[2]
            for i, a in enumerate(pop):
                a.fitness = [float(fits[i % len(fits)])]
                a.c06_tag = i
            ts = TournamentSelection(tournament_size=2, elitism=elitism, population_size=len(pop), eval_loop=1)
            _, newpop = ts.select(pop)
            parents = [getattr(b, "c06_tag", None) for b in newpop]
            if any(p is None for p in parents) or len(newpop) != len(pop):
                raise InfraError("cannot identify the parents of the selected population (tag attribute not copied)")
            for b, p in zip(newpop, parents):
                for n in names:
                    if not same_value(getattr(b, n), getattr(pop[p], n)):
                        problems.append(f"{where}: child of agent {p} has {n}={getattr(b, n)!r}, parent {getattr(pop[p], n)!r}")
            pop = list(newpop)
            trace.append({"op": ["select", elitism], "parents": parents})
            model.append("hpmut select " + " ".join(map(str, parents)))
            impl.append("ok")
            tags.append("op-select")
        elif op[0] == "evo":
            # one evolution step as every training loop performs it: TournamentSelection.select FOLLOWED BY
            # Mutations.mutation(new population).  "No other agent's value moves" is judged over everything the step
            # hands back or leaves behind: the elite select() returned, the new population and the old population.
            elitism, fits, mutate_elite, kind = bool(op[1]), op[2], bool(op[3]), op[4]
            for i, a in enumerate(pop):
                a.fitness = [float(fits[i % len(fits)])]
                a.c06_tag = i
            old = list(pop)
            ts = TournamentSelection(tournament_size=2, elitism=elitism, population_size=len(old), eval_loop=1)
            elite, newpop = ts.select(old)
            parents = [getattr(b, "c06_tag", None) for b in newpop]
            if any(p is None for p in parents) or len(newpop) != len(old):
                raise InfraError("cannot identify the parents of the selected population (tag attribute not copied)")
            for b, p in zip(newpop, parents):
                for n in names:
                    if not same_value(getattr(b, n), getattr(old[p], n)):
                        problems.append(f"{where}: child of agent {p} has {n}={getattr(b, n)!r}, parent {getattr(old[p], n)!r}")
            model.append("hpmut select " + " ".join(map(str, parents)))
            impl.append("ok")
            watched = [("the elite select() returned", elite)] + [(f"agent {i} of the old population", a)
                                                                  for i, a in enumerate(old)]
            labelled = watched + [(f"agent {j} of the new population", b) for j, b in enumerate(newpop)]
            snap_w = snapshot([o for _, o in watched], names, table)
            snap_n = snapshot(newpop, names, table)
            pr = {"none": (1, 0, 0, 0, 0), "arch": (0, 1, 0, 0, 0), "param": (0, 0, 1, 0, 0), "act": (0, 0, 0, 1, 0),
                  "rl_hp": (0, 0, 0, 0, 1)}[kind]
            m2 = Mutations(pr[0], pr[1], 0.5, pr[2], pr[3], pr[4], mutate_elite=mutate_elite, rand_seed=s % (2 ** 31))
            hit = []
            if kind == "rl_hp":
                with Draws() as d:
                    out = list(m2.mutation(newpop))
                hit = [j for j in range(len(out)) if mutate_elite or j > 0]
                pairs = d.pairs(len(hps))
                if len(pairs) != len(hit) or len(out) != len(newpop):
                    raise InfraError(f"Mutations.mutation(mutate_elite={mutate_elite}) made {len(pairs)} draw pairs for "
                                     f"{len(hit)} agents to mutate")
                for j, (perm, coin) in zip(hit, pairs):
                    a = out[j]
                    trace.append({"op": op, "agent": j, "perm": perm, "coin": coin, "mut": a.mut})
                    model.append(f"hpmut mut {j} {frac(coin)} " + " ".join(map(str, perm)))
                    k = names.index(a.mut) if a.mut in names else -1
                    impl.append(f"{k} {tag_of(getattr(a, a.mut, None))} {fr(getattr(a, a.mut))}" if k >= 0 else str(a.mut))
                    check_mutated(j, a, snap_n[j], [(i, x) for i, x in enumerate(snap_n) if i != j], hps, table, where,
                                  problems, tags, sum(1 for b in out if b.registry.hp_config is a.registry.hp_config) > 1)
                stateless_lr.update(id(out[j]) for j in hit if out[j].mut in lr_names)
            else:
                try:
                    out = list(m2.mutation(newpop))
                except InfraError:
                    raise
                except Exception as e:                  # coherence after such mutations is C02's subject
                    out = list(newpop)
                    tags.append(f"op-evo-{kind}-raised-{type(e).__name__}")
            if len(out) == len(newpop):
                now_n = snapshot(out, names, table)
                for j in range(len(out)):
                    if j in hit:
                        continue
                    moved = [n for n in names if not same_value(now_n[j]["hp"][n], snap_n[j]["hp"][n])]
                    if moved or now_n[j]["opt"] != snap_n[j]["opt"]:
                        problems.append(f"{where}: agent {j} of the new population was not given a hyper-parameter "
                                        f"mutation ({kind}, mutate_elite={mutate_elite}) but {moved or 'an optimizer lr'} moved")
            # nobody else moved: the elite and every member of the old population
            now_w = snapshot([o for _, o in watched], names, table)
            for (label, o), b, n_ in zip(watched, snap_w, now_w):
                moved = [n for n in names if not same_value(n_["hp"][n], b["hp"][n])]
                lrs = [o_ for o_ in b["opt"] if n_["opt"].get(o_) != b["opt"][o_]]
                if moved or lrs:
                    twin = [l for l, x in labelled if x is o and l != label]
                    what = [f"{n} {fr(b['hp'][n])} -> {fr(n_['hp'][n])}" for n in moved] + \
                           [f"lr of {o_} {[frac(g) for g in b['opt'][o_]]} -> {[frac(g) for g in n_['opt'][o_]]}" for o_ in lrs]
                    problems.append(f"{where}: {label} (index {o.index}) moved although only the new population was mutated "
                                    f"(select with elitism={elitism}, then Mutations.mutation {kind}, mutate_elite="
                                    f"{mutate_elite}): {'; '.join(what)}"
                                    + (f" — it is the same object as {twin[0]}" if twin else "") + " [another agent moved]")
            trace.append({"op": op[:2] + op[3:], "parents": parents, "elite_parent": getattr(elite, "c06_tag", None),
                          "mutated": hit})
            pop = out
            tags += ["op-evo", f"op-evo-{kind}", "op-evo-mutate-elite" if mutate_elite else "op-evo-keep-elite",
                     "op-evo-elitism" if elitism else "op-evo-no-elitism"]
            if elitism and mutate_elite and kind == "rl_hp":
                tags.append("op-evo-elite-slot-mutated")
        else:
            raise InfraError(f"unknown op {op}")
        check_invariant(pop, table, where, problems)
        model.append("hpmut dump")
        impl.append(dump_line(pop, all_names, opt_attrs))
        yield
    return impl, model, problems, tags, trace


def one_case(chk: Check, case: dict):
    """-> (diff index | None, problems, tags, impl lines, model out, trace)"""
    try:
        impl, model_ops, problems, tags, trace = run_case(case)
    except InfraError:
        raise
    except Exception as e:  # the implementation raised on a legal sequence
        return None, [f"implementation raised {type(e).__name__}: {e}"], [], [], [], []
    model_out = drive(chk, ["reset"] + model_ops)[1:]
    diff = next((i for i, (a, b) in enumerate(zip(impl, model_out)) if a != b), None)
    # de-duplicate oracle messages, keep order
    problems = list(dict.fromkeys(problems))
    return diff, problems, tags, impl, model_out, trace


# ----------------------------------------------------------------------------- sessions: ONE Mutations object
def gen_session(rng: random.Random, tier: str) -> dict:
    """several populations of DIFFERENT algorithms mutated, interleaved, by one and the same Mutations object
    (as a user does who keeps one `Mutations` for several experiments); every part is an ordinary
    population history with its learning rates among the configured hyper-parameters"""
    groups = [["DQN", "CQN", "PPO", "NeuralUCB", "NeuralTS", "IPPO"], ["DDPG", "TD3", "MADDPG", "MATD3"]]
    rng.shuffle(groups)
    algos = [rng.choice(groups[0]), rng.choice(groups[1])]
    if rng.random() < 0.5:
        algos.append(rng.choice(groups[0] + groups[1]))
    parts = []
    for a in algos:
        c = gen_case(rng, "quick", algo=a)
        lrs = sorted(set(ALGOS[a]["opts"].values()))
        have = [h["name"] for h in c["hps"]]
        c["hps"] = [h for h in c["hps"] if h["name"] in lrs] + \
                   [gen_hp(rng, n, False, ALGOS[a]["ma"]) for n in lrs if n not in have]
        c["pop"] = rng.choice([1, 2])
        c["ops"] = [o for o in c["ops"] if o[0] in ("mut", "mutall", "learn", "clone", "ckpt")][:5]
        if not any(o[0] in ("mut", "mutall") for o in c["ops"]):
            c["ops"] = [["mut", 0]] + c["ops"]
        c["ops"] = c["ops"] + [["mutall"]]
        parts.append(c)
    order = [i for i, c in enumerate(parts) for _ in c["ops"]]
    rng.shuffle(order)
    return {"suite": "session", "parts": parts, "order": order, "seed": rng.randrange(1 << 30)}


def run_session(sess: dict) -> list:
    """-> per part: (impl, model ops, problems, tags, trace) or an exception text"""
    from agilerl.hpo.mutation import Mutations
    mut = Mutations(0, 0, 0, 0, 0, 1, rand_seed=sess["seed"] % (2 ** 31))
    gens = [case_steps(p, mut) for p in sess["parts"]]
    results: list = [None] * len(gens)

    def advance(i):
        if results[i] is not None:
            return
        try:
            next(gens[i])
        except StopIteration as e:
            results[i] = e.value
        except InfraError:
            raise
        except Exception as e:                       # the implementation raised on a legal sequence
            results[i] = f"implementation raised {type(e).__name__}: {e}"
    for i in range(len(gens)):
        advance(i)                                   # construction of every population first
    for i in sess["order"]:
        if 0 <= i < len(gens):
            advance(i)
    for i in range(len(gens)):
        for _ in range(len(sess["parts"][i]["ops"]) + 2):
            advance(i)
    return results


def one_session(chk: Check, sess: dict):
    """-> list per part of (diff, problems, tags, impl, model_out, trace)"""
    out = []
    for r in run_session(sess):
        if isinstance(r, str) or r is None:
            out.append((None, [r or "history did not finish"], [], [], [], []))
            continue
        impl, model_ops, problems, tags, trace = r
        model_out = drive(chk, ["reset"] + model_ops)[1:]
        diff = next((i for i, (a, b) in enumerate(zip(impl, model_out)) if a != b), None)
        out.append((diff, list(dict.fromkeys(problems)), tags, impl, model_out, trace))
    return out


def session_fails(chk: Check, sess: dict) -> bool:
    return any(d is not None or p for d, p, *_ in one_session(chk, sess))


def report_session(chk: Check, sess: dict, res: list) -> None:
    """a failing part that also fails on its own is an ordinary population violation; otherwise the shared
    Mutations object matters: shrink to two parts, then their ops"""
    bad = next(i for i, (d, p, *_) in enumerate(res) if d is not None or p)
    d, p, _, impl, model_out, _ = one_case(chk, sess["parts"][bad])
    if d is not None or p:
        report(chk, sess["parts"][bad], d, p, impl, model_out, shrink=len(chk.violations) < 4)
        return
    small = sess
    for other in range(len(sess["parts"])):
        if other == bad:
            continue
        keep = sorted((other, bad))
        cand = {**sess, "parts": [sess["parts"][k] for k in keep],
                "order": [keep.index(i) for i in sess["order"] if i in keep]}
        if session_fails(chk, cand):
            small = cand
            break
    if len(chk.violations) < 4:
        for k in range(len(small["parts"])):
            def fails(sub, k=k):
                parts = [dict(c) for c in small["parts"]]
                parts[k]["ops"] = sub
                order = [i for i, c in enumerate(parts) for _ in c["ops"]]   # part after part
                return session_fails(chk, {**small, "parts": parts, "order": order})
            if session_fails(chk, {**small, "order": [i for i, c in enumerate(small["parts"]) for _ in c["ops"]]}):
                small = {**small, "order": [i for i, c in enumerate(small["parts"]) for _ in c["ops"]]}
                ops = ddmin(small["parts"][k]["ops"], fails) if len(small["parts"][k]["ops"]) > 1 else small["parts"][k]["ops"]
                parts = [dict(c) for c in small["parts"]]
                parts[k]["ops"] = ops
                cand = {**small, "parts": parts, "order": [i for i, c in enumerate(parts) for _ in c["ops"]]}
                if session_fails(chk, cand):
                    small = cand
    res2 = one_session(chk, small)
    if not any(d is not None or p for d, p, *_ in res2):
        small, res2 = sess, res
    probs = [f"[part {i} {small['parts'][i]['algo']}] {m}" for i, (d, p, *_) in enumerate(res2) for m in p]
    replay = {"suite": "session", **small,
              "results": [{"algo": small["parts"][i]["algo"], "first_diff": d, "oracle_problems": p, "trace": tr,
                           "impl": im, "model": mo} for i, (d, p, _, im, mo, tr) in enumerate(res2)],
              "how": "ONE Mutations(0,0,0,0,0,1) object performs the ops of all parts, interleaved in `order` "
                     "(part index per op); the failing part passes when it is run with a Mutations object of its own",
              "theorems": chk.gate["theorems"]}
    if probs:
        chk.violation(probs[0] + " — only when the Mutations object has mutated another algorithm's agent before",
                      replay)
    else:
        i, d = next((i, d) for i, (d, *_) in enumerate(res2) if d is not None)
        chk.violation(f"session part {i}: implementation and HpMut model disagree at line {d}; oracle holds", replay,
                      no_input=True)


def shrink_case(chk: Check, case: dict, by_oracle: bool) -> dict:
    def fails_with(c) -> bool:
        d, p, *_ = one_case(chk, c)
        return bool(p) if by_oracle else d is not None
    ops = ddmin(case["ops"], lambda sub: fails_with({**case, "ops": sub}))
    small = {**case, "ops": ops}
    for n in range(1, case["pop"]):
        cand = {**small, "pop": n}
        try:
            if fails_with(cand):
                small = cand
                break
        except InfraError:
            pass
    if len(small["hps"]) > 1:
        for h in list(small["hps"]):
            cand = {**small, "hps": [x for x in small["hps"] if x is not h]}
            try:
                if cand["hps"] and fails_with(cand):
                    small = cand
            except InfraError:
                pass
    return normalize_ops(small)


def normalize_ops(case: dict) -> dict:
    """agent indices are taken modulo the current population size; write them out"""
    size, ops = case["pop"], []
    for op in case["ops"]:
        if op[0] in ("mut", "clone", "othermut", "ckpt", "load") or op[0] == "learn" and op[1] >= 0:
            ops.append([op[0], op[1] % size] + list(op[2:]))
            size += op[0] == "clone"
        else:
            ops.append(op)
    return {**case, "ops": ops}


def script_for(case: dict) -> str:
    """a stand-alone reproduction of a (shrunk) population case"""
    hp_lines = ", ".join(
        f"{h['name']}=RLParameter(min={num_repr(h['lo'], h['dt'])}, max={num_repr(h['hi'], h['dt'])}, "
        f"shrink_factor={float(Fraction(h['shrink']))}, grow_factor={float(Fraction(h['grow']))}, "
        f"dtype={'int' if h['dt'] == 'i' else 'float'})" for h in case["hps"])
    return (f"# VERIF_REPO on sys.path; algo={case['algo']} pop={case['pop']} via={case.get('via')}\n"
            f"# cfg = HyperparameterConfig({hp_lines})\n"
            f"# initial values: " + ", ".join(f"{h['name']}={h['v']}" for h in case["hps"]) + "\n"
            f"# ops (seeded from case seed {case['seed']}): {case['ops']}\n"
            f"# re-run: bin/check C06 --replay <this file>")


def num_repr(s: str, dt: str) -> str:
    q = Fraction(s)
    return str(int(q)) if dt == "i" and q.denominator == 1 else repr(float(q))


def report(chk: Check, case: dict, diff, problems, impl, model_out, shrink: bool = True) -> None:
    by_oracle = bool(problems)
    small = shrink_case(chk, case, by_oracle) if shrink else case
    d2, p2, _, impl2, model2, trace2 = one_case(chk, small)
    if by_oracle and not p2 or (not by_oracle and d2 is None):
        small, d2, p2, impl2, model2 = case, diff, problems, impl, model_out
        trace2 = []
    replay = {"suite": "population", **small, "trace": trace2, "impl": impl2, "model": model2,
              "first_diff": d2, "oracle_problems": p2, "how": script_for(small),
              "correspondence": "harness/c06.py vs Model/HpMut.lean (repaired semantics: own value, all optimizers)",
              "theorems": chk.gate["theorems"]}
    if p2:
        chk.violation(p2[0], replay)
    else:
        chk.violation(f"implementation and HpMut model disagree at line {d2}: impl={impl2[d2]!r} model={model2[d2]!r}; "
                      f"the property oracle holds on this case and its shrinks", replay, no_input=True)


# ----------------------------------------------------------------------------- probes
def probe_rejects_unknown_hp(chk: Check) -> None:
    """`_registry_init`: a configured hyperparameter that is not an attribute is rejected; model: `reject`"""
    from agilerl.algorithms.core.registry import HyperparameterConfig, RLParameter
    from agilerl.utils.utils import create_population
    obs, act = spaces_for("DQN")
    cfg = HyperparameterConfig(lr=RLParameter(min=2.0 ** -12, max=2.0 ** -4),
                               no_such_attribute=RLParameter(min=1, max=2))
    try:
        create_population("DQN", obs, act, NET, dict(BASE_HP), hp_config=cfg, population_size=1)
        got = "ok"
    except AttributeError:
        got = "reject"
    out = drive(chk, ["reset", "hpmut cfg 2 1/4096 1/16 4/5 6/5 f 1 2 4/5 6/5 f", "hpmut opts 1 0 1",
                          "hpmut pop own all 1 1/1024"])
    chk.case(["reject-unknown-hp"], nontrivial=False, tags=["probe-reject"])
    if got != out[-1]:
        chk.violation(f"configuration naming a missing attribute: implementation {got}, model {out[-1]}",
                      {"suite": "probe", "probe": "reject-unknown-hp", "impl": got, "model": out[-1]}, no_input=True)
    chk.suite("reject-probe", 1, int(got != out[-1]))


LR_IDENTITY_CASE = {"algo": "DDPG", "pop": 1, "via": "create_population", "same_object_lrs": True,
                    "hps": [{"name": "lr_critic", "lo": "1/65536", "hi": "1/16", "shrink": "1/2", "grow": "2",
                             "dt": "f", "v": "1/4096"}],
                    "ops": [["mut", 0]], "seed": 1}


def probe_lr_identity(chk: Check) -> None:
    """specific analysed defect: OptimizerWrapper infers the lr attribute name by object identity"""
    diff, problems, tags, impl, model_out, trace = one_case(chk, LR_IDENTITY_CASE)
    chk.case(["lr-identity"], nontrivial=True, tags=["probe-lr-identity"])
    stale = [p for p in problems if "registry optimizers" in p] + \
            [p for p in problems if "optimizer not updated" in p or "steps" in p]
    if stale:
        chk.finding("C06-lr-name-by-identity", stale[0],
                    {"suite": "population", **LR_IDENTITY_CASE, "oracle_problems": problems, "impl": impl,
                     "model": model_out})
    elif problems or diff is not None:
        report(chk, LR_IDENTITY_CASE, diff, problems, impl, model_out, shrink=False)


# ----------------------------------------------------------------------------- source translation
def pre_gate(chk: Check) -> None:
    """Regenerate lean/Gen/HpMutGen.lean from the source text of the tree under test (before the Lean
    gate) and re-check `generated = model` (Proofs/HpMutGenEq.lean) and the theorems over the generated
    definitions (Props/C06.lean).  A failure is a gate problem; the suites then look for the failing input."""
    # both generated files are imported by Props/C06.lean: bring BOTH up to date with the tree under test before the
    # first build, so that a file left behind by a run against another tree is never blamed on the wrong translator
    for tr, rel in ((py2lean_hpmut, "Gen/HpMutGen.lean"), (py2lean_pop, "Gen/PopGen.lean")):
        try:
            tr.write_if_changed(tr.translate(common.REPO)[0], common.LEAN_DIR / rel)
        except tr.Unsupported:
            pass
    common.translation_gate(chk, py2lean_hpmut, "Gen/HpMutGen.lean",
                            ["Gen.HpMutGen", "Proofs.HpMutGenEq", "Props.C06"],
                            "RLParameter.mutate, HyperparameterConfig.sample")
    # the initial population: create_population / EvolvableAlgorithm.population -> lean/Gen/PopGen.lean
    common.translation_gate(chk, py2lean_pop, "Gen/PopGen.lean",
                            ["Gen.PopGen", "Proofs.PopGenEq", "Props.C06"],
                            "create_population, EvolvableAlgorithm.population: which configuration objects members share")


# ----------------------------------------------------------------------------- initial population (create_population)
# Which configuration objects the members of the population that `create_population` returns share, against the table
# `harness/py2lean_pop.py` generates from the source (`Gen/PopGen.lean: sharingTable`), and the property on exactly that
# population: hyper-parameter mutations through `Mutations` move one attribute of one agent, starting from that
# agent's OWN value, whatever the members share.
IP_FIELDS = ("min", "max", "shrink_factor", "grow_factor", "dtype")


def ip_expected(param, own, tol=1e-12):
    """the two values RLParameter.mutate can return from `own`"""
    out = []
    for f in (param.shrink_factor, param.grow_factor):
        v = min(max(own * f, param.min), param.max)
        out.append(param.dtype(v))
    return out


def run_initpop_hp_case(case: dict, desc) -> tuple[bool, list, list, dict]:
    """(table disagreement, oracle problems, tags, info)"""
    import c05 as C5
    from agilerl.hpo.mutation import Mutations
    problems, info, pop, hp = C5.ip_case_real(dict(case, hp=True))
    tags = [f"initpop-{case['algo']}", f"initpop-size-{case['n']}", f"initpop-hp_config-{info.get('hp_config')}"]
    diff = False
    if desc is not None and len(pop) >= 2:
        lit = C5.POP_LITERAL.get(case["algo"], case["algo"])
        row = next((r for r in desc["create_population"]["table"] if r[0] == lit), None)
        claimed = dict(row[2]).get("hp_config") if row else None
        measured = info.get("hp_config")
        info["table_says"] = claimed
        if (claimed == "shared" and measured != "shared") or (claimed == "fresh" and measured != "private") \
                or claimed not in ("shared", "fresh"):
            diff = True
            info["disagreement"] = (f"generated sharing table: hp_config of {lit} is `{claimed}`, measured on the "
                                    f"real population: {measured}")
    names = list(hp.config)
    lr_opts = {}
    for oc in pop[0].registry.optimizers:
        lr_opts.setdefault(oc.lr, []).append(oc.name)
    mut = Mutations(0, 0, 0, 0, 0, 1, rand_seed=case["seed"] % (2 ** 31))
    rng = random.Random(case["seed"])
    order = list(range(len(pop))) + [rng.randrange(len(pop)) for _ in range(len(pop))]
    for step, i in enumerate(order):
        before = [{n: getattr(a, n) for n in names} for a in pop]
        entries = [{n: tuple(getattr(a.registry.hp_config.config[n], f) for f in IP_FIELDS) for n in names} for a in pop]
        lrs = [{o: opt_groups(a, o) for os_ in lr_opts.values() for o in os_} for a in pop]
        mut.rl_hyperparam_mutation(pop[i])
        k = pop[i].mut
        if k not in names:
            problems.append(f"step {step}: agent {i}: mutated `{k}`, configured are {names}")
            break
        for j, a in enumerate(pop):
            now = {n: getattr(a, n) for n in names}
            ent = {n: tuple(getattr(a.registry.hp_config.config[n], f) for f in IP_FIELDS) for n in names}
            if ent != entries[j]:
                problems.append(f"step {step}: mutating agent {i} changed the configuration entries (min/max/factors/"
                                f"dtype) agent {j} mutates with")
            if j != i:
                if now != before[j]:
                    problems.append(f"step {step}: mutating `{k}` of agent {i} moved hyper-parameters of agent {j}: "
                                    f"{ {n: (before[j][n], now[n]) for n in names if now[n] != before[j][n]} }")
                if {o: opt_groups(a, o) for os_ in lr_opts.values() for o in os_} != lrs[j]:
                    problems.append(f"step {step}: mutating agent {i} moved optimizer learning rates of agent {j}")
            else:
                moved = [n for n in names if n != k and now[n] != before[j][n]]
                if moved:
                    problems.append(f"step {step}: agent {i}: mutating `{k}` also moved {moved}")
                want = ip_expected(a.registry.hp_config.config[k], before[j][k])
                if not any(abs(float(now[k]) - float(w)) <= 1e-12 * max(1.0, abs(float(w))) for w in want):
                    problems.append(f"step {step}: agent {i}: `{k}` went {before[j][k]} -> {now[k]}; from the agent's own "
                                    f"value the mutation can give {want} (a neighbour's value was used?)")
                for o in lr_opts.get(k, []):
                    if any(abs(float(g) - float(now[k])) > 1e-12 for g in opt_groups(a, o)):
                        problems.append(f"step {step}: agent {i}: optimizer {o} does not carry the mutated {k}")
        if problems:
            break
    return diff, problems, tags, info


def run_initpop_hp(chk: Check) -> tuple[int, int]:
    import agents as A
    import c05 as C5
    desc = C5.initpop_description()
    rng = chk.rng
    algos = list(A.ALGOS)
    rng.shuffle(algos)
    algos = algos[:6] if chk.tier == "quick" else algos * 2
    cases = []
    for k, algo in enumerate(algos):
        n = 2 + (k + rng.randrange(5)) % 5
        if A.is_multi_agent(algo):
            n = min(n, 3)
        cases.append({"suite": "initpop", "algo": algo, "n": n, "nets": False, "seed": rng.randrange(2 ** 30)})
    for f in sorted((ROOT / "corpus" / "C06").glob("initpop-*.json")):
        c = json.loads(f.read_text())
        cases.insert(0, c.get("replay", c)["initpop"])
    ndiff = 0
    for case in cases:
        try:
            diff, problems, tags, info = run_initpop_hp_case(case, desc)
        except InfraError:
            raise
        except Exception as ex:
            diff, problems, tags, info = False, [f"initial population of {case['algo']}: {type(ex).__name__}: {ex}"], \
                ["initpop-raised"], {}
        chk.case(["initpop", case], nontrivial=True, tags=tags,
                 sample={"suite": "initpop", "case": case, **info})
        if not diff and not problems:
            continue
        ndiff += bool(diff)
        replay_obj = {"suite": "initpop", "initpop": case, "oracle_problems": problems, "details": info,
                      "correspondence": "harness/c06.py (initial population) vs Gen/PopGen.lean sharingTable",
                      "theorems": ["C06_source_translation_initial_population_configs",
                                   "C06_source_translation_sharing_table"]}
        if problems:
            chk.violation("initial population: " + problems[0], replay_obj)
        else:
            chk.violation(info.get("disagreement", "sharing table and measured aliasing differ")
                          + "; the property oracle (mutations move one agent only, from its own value) holds",
                          replay_obj, no_input=True)
    return len(cases), ndiff


# ----------------------------------------------------------------------------- check
def run(chk: Check) -> None:
    rng = chk.rng
    quick = chk.tier == "quick"
    chk.rule = ("suite mutate1: RLParameter.mutate on dyadic (min, max, shrink, grow, value), float and int dtype, integral "
                "and non-integral bounds, values inside / on / outside the range, 6% with the draw pinned at / next to "
                "1/2 and the ends of [0,1); suite sample: HyperparameterConfig.sample on 1-8 configured names; "
                "suite population: 10 algorithms "
                "(DQN CQN NeuralUCB NeuralTS DDPG TD3 PPO MADDPG MATD3 IPPO) built by create_population / "
                "Algo.population with one shared HyperparameterConfig over random subsets of their numeric "
                "hyperparameters, then 4-16 ops (real learn() step of one/all agents — 60% of the histories start "
                "with one, so optimizers hold state when mutated | mutate one agent | Mutations.mutation(pop) | "
                "another mutation kind | clone | tournament selection | save_checkpoint -> load_checkpoint into an "
                "un-mutated twin | save_checkpoint -> Algo.load | evolution step = select then Mutations.mutation of "
                "the new population, five mutation kinds x mutate_elite on/off x elitism on/off, judged over elite + "
                "new + old population), half of the histories with such a continuation "
                "immediately after a mutation; start values also held as int literals (float hps at 0/1), numpy "
                "scalars, 0-dim tensors; plus long power-of-two drift runs; suite session: 2-3 populations of "
                "different algorithms whose histories are interleaved and performed by ONE shared Mutations object; "
                "distinct = distinct (algo, config, ops); "
                "non-trivial = some mutation hit a bound, truncated an int, hit a learning rate used by >= 2 "
                "optimizers, mutated the learning rate of an optimizer that already holds state, or mutated an "
                "agent whose configuration object is shared")
    chk.assumptions = [
        "float arithmetic is exact on the generated dyadic inputs (checked: every product is exactly representable)",
        "torch.randperm / torch.rand are the only random sources of sample() and mutate(); their draws are recorded "
        "and handed to the model",
        "optimizer->learning-rate table of the oracle is read off the algorithms' constructors (harness/c06.py ALGOS)",
        "a TournamentSelection child is a clone of the parent whose tag attribute it carries",
        "source translation (harness/py2lean_hpmut.py): Python numbers are exact rationals, torch.rand(1).item() and "
        "torch.randperm(n) are explicit inputs (the latter of length n), a dict is an association list in insertion "
        "order, min/max/int/float are the builtins",
    ]
    # ---- suite 1
    n1 = 1500 if quick else 20000
    m1 = [gen_mutate1(rng) for _ in range(n1)]
    lines, impls, bad1 = [], [], 0
    per_case = []
    for c in m1:
        res, line, problems, tags = run_mutate1(c)
        lines.append(line)
        impls.append(res)
        per_case.append((c, problems, tags))
    outs = drive(chk, ["reset"] + lines)[1:]
    for i1, ((c, problems, tags), res, out) in enumerate(zip(per_case, impls, outs)):
        key = [c[k] for k in ("lo", "hi", "shrink", "grow", "dt", "v")] + [tags[-1]]
        chk.case(key, nontrivial=any(t in ("m1-clipped", "m1-truncating") for t in tags),
                 sample={"suite": "mutate1", **{k: c[k] for k in ("lo", "hi", "shrink", "grow", "dt", "v")},
                         "result": res} if i1 < 2 else None,
                 tags=tags)
        if problems:
            bad1 += 1
            chk.violation(problems[0], {"suite": "mutate1", **c, "impl": res, "model": out, "oracle_problems": problems})
        elif res != out:
            bad1 += 1
            chk.violation(f"RLParameter.mutate = {res}, model mutate1 = {out}; oracle holds on this input",
                          {"suite": "mutate1", **c, "impl": res, "model": out,
                           "correspondence": "harness/c06.py suite mutate1 vs HpMut.mutate1"}, no_input=True)
    chk.suite("mutate1", n1, bad1)
    # ---- suite 1b
    pool = ["lr", "batch_size", "learn_step", "gamma", "tau", "lr_actor", "lr_critic", "policy_freq"]
    ns = 150 if quick else 2000
    scases = []
    for _ in range(ns):
        names = list(pool)
        rng.shuffle(names)
        scases.append({"suite": "sample", "names": names[:rng.randint(1, len(pool))], "seed": rng.randrange(1 << 30)})
    sres = [run_sample(c) for c in scases]
    souts = drive(chk, ["reset"] + [r[1] for r in sres])[1:]
    bad_s = 0
    for c, (impl_s, line, problems, tags), out in zip(scases, sres, souts):
        chk.case(["sample", c["names"], line], nontrivial=len(c["names"]) > 1, tags=tags)
        if problems:
            bad_s += 1
            chk.violation(problems[0], {**c, "op": line, "impl": impl_s, "model": out, "oracle_problems": problems})
        elif impl_s != out:
            bad_s += 1
            chk.violation(f"HyperparameterConfig.sample -> index {impl_s}, model sample = {out}; oracle holds on this input",
                          {**c, "op": line, "impl": impl_s, "model": out,
                           "correspondence": "harness/c06.py suite sample vs HpMut.sample"}, no_input=True)
    chk.suite("sample", ns, bad_s)
    # ---- suite 2: corpus first
    cases = []
    for f in sorted((ROOT / "corpus" / "C06").glob("*.json")):
        c = json.loads(f.read_text())
        c = c.get("replay", c)
        if c.get("suite", "population") == "population":
            cases.append(c)
    ncorpus = len(cases)
    n2 = 40 if quick else 450
    for a in ALGOS:                                        # every algorithm at least once per run
        cases.append(gen_case(rng, chk.tier, algo=a))
    for _ in range(n2):
        cases.append(gen_case(rng, chk.tier))
    for _ in range(3 if quick else 25):
        cases.append(gen_case(rng, chk.tier, algo=rng.choice(["DQN", "TD3", "IPPO", "PPO", "DDPG"]), drift=True))
    # evolution steps (select -> Mutations.mutation): quick = six drawn algorithms, thorough = all, four times
    for a in (rng.sample(list(ALGOS), 6) if quick else list(ALGOS) * 4):
        cases.append(gen_evo_case(rng, chk.tier, a))
    for a in ALGOS:                                        # start values held in another number type
        for _ in range(1 if quick else 6):
            cases.append(gen_case(rng, chk.tier, algo=a, types=True))
    ndiff = 0
    interesting = {"clipped", "int-hp", "lr-of-several-optimizers", "shared-config-mutation",
                   "lr-mutation-of-trained-optimizer", "restored-right-after-lr-mutation", "held-as-int",
                   "held-as-float64", "held-as-Tensor", "op-evo-elite-slot-mutated"}
    for idx, case in enumerate(cases):
        diff, problems, tags, impl, model_out, trace = one_case(chk, case)
        chk.case([case["algo"], case["pop"], case["hps"], case["ops"]],
                 nontrivial=bool(interesting & set(tags)),
                 sample={"suite": "population", "algo": case["algo"], "pop": case["pop"],
                         "hps": [h["name"] for h in case["hps"]], "ops": case["ops"][:6]},
                 tags=tags + (["corpus"] if idx < ncorpus else []))
        if diff is None and not problems:
            continue
        ndiff += diff is not None
        report(chk, case, diff, problems, impl, model_out, shrink=len(chk.violations) < 4)
    chk.suite("population", len(cases), ndiff)
    # ---- suite 3: one Mutations object across populations of different algorithms
    sessions = []
    for f in sorted((ROOT / "corpus" / "C06").glob("*.json")):
        c = json.loads(f.read_text())
        c = c.get("replay", c)
        if c.get("suite") == "session":
            sessions.append(c)
    for _ in range(8 if quick else 80):
        sessions.append(gen_session(rng, chk.tier))
    nsd = 0
    for sess in sessions:
        res = one_session(chk, sess)
        alltags = [t for _, _, tg, *_ in res for t in tg]
        chk.case(["session", [(c["algo"], c["hps"], c["ops"]) for c in sess["parts"]], sess["order"]],
                 nontrivial=len({c["algo"] for c in sess["parts"]}) > 1,
                 sample={"suite": "session", "algos": [c["algo"] for c in sess["parts"]], "order": sess["order"]},
                 tags=["session"] + [f"session-{'+'.join(c['algo'] for c in sess['parts'])}"] +
                      [t for t in alltags if t.startswith("op-") or t.startswith("lr-of")])
        if any(d is not None or p for d, p, *_ in res):
            nsd += any(d is not None for d, *_ in res)
            report_session(chk, sess, res)
    chk.suite("session", len(sessions), nsd)
    if len(chk.violations) < 5:
        n_ip, d_ip = run_initpop_hp(chk)
        chk.suite("create_population-initial-configs", n_ip, d_ip)
    probe_rejects_unknown_hp(chk)
    probe_lr_identity(chk)
    if chk.tier == "thorough":
        selftest(chk)


# ----------------------------------------------------------------------------- self-test
SELFTEST_CLIP = {"algo": "DQN", "pop": 2, "via": "create_population",
                 "hps": [{"name": "lr", "lo": "1/1024", "hi": "1/1024", "shrink": "1/2", "grow": "2", "dt": "f",
                          "v": "1/1024"}],
                 "ops": [["mut", 0], ["mut", 1]], "seed": 5}
SELFTEST_BASE = {"algo": "DQN", "pop": 3, "via": "create_population",
                 "hps": [{"name": "lr", "lo": "1/65536", "hi": "1/16", "shrink": "3/4", "grow": "5/4", "dt": "f",
                          "v": "1/1024"}],
                 "ops": [["mut", 0], ["mut", 1], ["mut", 2]], "seed": 7}
SELFTEST_OPT = {"algo": "PPO", "pop": 1, "via": "create_population",
                "hps": [{"name": "lr", "lo": "1/65536", "hi": "1/16", "shrink": "1/2", "grow": "2", "dt": "f",
                         "v": "1/1024"}],
                "ops": [["mut", 0]], "seed": 9}
SELFTEST_INT = {"algo": "DQN", "pop": 1, "via": "create_population",
                "hps": [{"name": "batch_size", "lo": "1", "hi": "1024", "shrink": "3/4", "grow": "5/4", "dt": "i",
                         "v": "63"}],
                "ops": [["mut", 0]], "seed": 11}


SELFTEST_LEARN = {"algo": "DQN", "pop": 1, "via": "create_population",
                  "hps": [{"name": "lr", "lo": "1/65536", "hi": "1/16", "shrink": "1/2", "grow": "2", "dt": "f",
                           "v": "1/1024"}],
                  "ops": [["learn", 0], ["mut", 0]], "seed": 17}


SELFTEST_TYPE = {"algo": "DQN", "pop": 1, "via": "create_population",
                 "hps": [{"name": "gamma", "lo": "1/2", "hi": "1", "shrink": "3/4", "grow": "5/4", "dt": "f", "v": "1",
                          "vtype": "int"}],
                 "ops": [["mut", 0]], "seed": 19}
SELFTEST_CKPT = {"algo": "TD3", "pop": 1, "via": "create_population",
                 "hps": [{"name": "lr_critic", "lo": "1/65536", "hi": "1/16", "shrink": "1/2", "grow": "2", "dt": "f",
                          "v": "1/512"}],
                 "ops": [["mut", 0], ["ckpt", 0]], "seed": 23}


SELFTEST_EVO = {"algo": "TD3", "pop": 3, "via": "create_population",
                "hps": [{"name": "lr_critic", "lo": "1/65536", "hi": "1/16", "shrink": "1/2", "grow": "2", "dt": "f",
                         "v": "1/512"}],
                "ops": [["learn", -1], ["evo", True, [1, 5, 3], True, "rl_hp"]], "seed": 29}


def selftest(chk: Check) -> None:
    """seeded faults in the implementation must be noticed by oracle and correspondence"""
    from agilerl.algorithms.core import registry as reg
    from agilerl.hpo import mutation as mm
    from agilerl.hpo import tournament as tt

    # (0) evolution step: slot 0 of the new population is the elite object itself, so the hyper-parameter mutation of
    #     slot 0 moves the elite's value and optimizer lr (the model does not hold the elite: oracle only); the same
    #     fault must stay invisible when the elite slot is not mutated
    orig_select = tt.TournamentSelection.select

    def select_elite_in_slot0(self, population):
        elite, new = orig_select(self, population)
        if self.elitism and new:
            new[0] = elite
        return elite, new

    def select_child_is_parent(self, population):
        elite, new = orig_select(self, population)
        if new:
            new[-1] = population[new[-1].c06_tag]                        # an old agent handed on instead of a copy
        return elite, new
    for name, fault in (("the elite object itself sits in slot 0 of the new population", select_elite_in_slot0),
                        ("an old agent itself is handed on as a member of the new population", select_child_is_parent)):
        tt.TournamentSelection.select = fault
        try:
            _, problems, *_ = one_case(chk, SELFTEST_EVO)
            _, quiet, *_ = one_case(chk, {**SELFTEST_EVO, "ops": [["evo", True, [1, 5, 3], False, "none"]]})
        finally:
            tt.TournamentSelection.select = orig_select
        if not any("another agent moved" in p for p in problems):
            raise InfraError(f"C06 self-test: seeded fault '{name}' was not noticed by the evolution-step oracle")
        if quiet:
            raise InfraError(f"C06 self-test: '{name}' flagged although no hyper-parameter was mutated: {quiet[0]}")
        chk.notes.append(f"self-test: {name}: noticed after select -> rl-hp mutation ({problems[0][:110]}…), silent when "
                         f"nothing is mutated")
    d0, p0, *_ = one_case(chk, SELFTEST_EVO)
    if d0 is not None or p0:
        raise InfraError("C06 self-test: the restored select() is flagged on the evolution-step case")

    def must_fail(name: str, case: dict) -> None:
        diff, problems, *_ = one_case(chk, case)
        if diff is None or not problems:
            raise InfraError(f"C06 self-test: seeded fault '{name}' was not noticed "
                             f"(correspondence diff={diff}, oracle problems={len(problems)})")
        chk.notes.append(f"self-test: {name} detected by correspondence (line {diff}) and oracle ({problems[0][:90]}…)")

    # (1) clip removed
    orig_mutate = reg.RLParameter.mutate

    def no_clip(self):
        f = self.shrink_factor if torch.rand(1).item() < 0.5 else self.grow_factor
        self.value = self.dtype(self.value * f)
        return self.value
    reg.RLParameter.mutate = no_clip
    try:
        must_fail("clip removed", SELFTEST_CLIP)
    finally:
        reg.RLParameter.mutate = orig_mutate

    # (2) int cast rounds instead of truncating (63 * 3/4 = 47.25 -> 47, 63 * 5/4 = 78.75 -> 79 vs 78)
    def round_mutate(self):
        f = self.shrink_factor if torch.rand(1).item() < 0.5 else self.grow_factor
        nv = min(max(self.value * f, self.min), self.max)
        self.value = int(nv + 0.75) if self.dtype is int else float(nv)
        return self.value
    reg.RLParameter.mutate = round_mutate
    try:
        must_fail("int cast rounds up", SELFTEST_INT)
    finally:
        reg.RLParameter.mutate = orig_mutate

    # (3) wrong base value: the cached RLParameter.value of the shared configuration
    orig_rl = mm.Mutations.rl_hyperparam_mutation

    def cached_base(self, individual):
        hp_config = individual.registry.hp_config
        attr, param = hp_config.sample()
        if param.value is None:
            param.value = getattr(individual, attr)
        new = param.mutate()
        setattr(individual, attr, new)
        if attr in individual.get_lr_names():
            for oc in individual.registry.optimizers:
                if oc.lr == attr:
                    self.reinit_opt(individual, optimizer=oc)
        individual.mut = attr
        return individual
    mm.Mutations.rl_hyperparam_mutation = cached_base
    try:
        must_fail("base value taken from the shared cache", SELFTEST_BASE)
    finally:
        mm.Mutations.rl_hyperparam_mutation = orig_rl

    # (4) optimizer not rebuilt
    orig_reinit = mm.Mutations.reinit_opt
    mm.Mutations.reinit_opt = lambda self, individual, optimizer=None: None
    try:
        must_fail("optimizer not rebuilt after a learning-rate mutation", SELFTEST_OPT)
    finally:
        mm.Mutations.reinit_opt = orig_reinit

    # (5) the rebuilt optimizer reloads the old optimizer's state_dict — param_groups (old lr) included —
    #     once it holds state: only visible when the agent has learned before the mutation
    import copy as _copy

    def reload_state(self, individual, optimizer=None, **kw):
        cfgs = [optimizer] if optimizer is not None else list(individual.registry.optimizers)
        old = {c.name: _copy.deepcopy(getattr(individual, c.name).state_dict()) for c in cfgs}
        orig_reinit(self, individual, optimizer=optimizer, **kw)
        for c in cfgs:
            sds = old[c.name] if isinstance(old[c.name], list) else [old[c.name]]
            if any(len(sd["state"]) > 0 for sd in sds):
                getattr(individual, c.name).load_state_dict(old[c.name])
    mm.Mutations.reinit_opt = reload_state
    try:
        must_fail("old optimizer state (with the old lr) reloaded after an lr mutation of a trained agent",
                  SELFTEST_LEARN)
        d0, p0, *_ = one_case(chk, {**SELFTEST_LEARN, "ops": [["mut", 0]]})
        chk.notes.append("self-test: the same fault on a never-trained agent is "
                         + ("invisible (needs the learn op)" if d0 is None and not p0 else "visible too"))
    finally:
        mm.Mutations.reinit_opt = orig_reinit


    # (6) the mutated value is cast back to the number type the agent held before (gamma=1 given as int)
    def keep_type(self, individual):
        before = {n: getattr(individual, n) for n in individual.registry.hp_config.names()}
        out = orig_rl(self, individual)
        cur = before[individual.mut]
        setattr(individual, individual.mut, type(cur)(getattr(individual, individual.mut)))
        return out
    mm.Mutations.rl_hyperparam_mutation = keep_type
    try:
        must_fail("mutated value cast to the type the agent held it in", SELFTEST_TYPE)
    finally:
        mm.Mutations.rl_hyperparam_mutation = orig_rl

    # (7) a never-stepped optimizer's state_dict (param_groups = the lr!) is not loaded from a checkpoint
    from agilerl.algorithms.core import wrappers as ww
    orig_load = ww.OptimizerWrapper.load_state_dict

    def skip_stateless(self, state_dict):
        sds = state_dict if isinstance(state_dict, list) else [state_dict]
        if any(len(sd["state"]) > 0 for sd in sds):
            return orig_load(self, state_dict)
    ww.OptimizerWrapper.load_state_dict = skip_stateless
    try:
        must_fail("stateless optimizer not restored from the checkpoint after an lr mutation", SELFTEST_CKPT)
    finally:
        ww.OptimizerWrapper.load_state_dict = orig_load


# ----------------------------------------------------------------------------- replay
def replay(chk: Check, path: str) -> int:
    c = json.loads(open(path).read())
    c = c.get("replay", c)
    if c.get("suite") == "mutate1":
        res, line, problems, _ = run_mutate1(c)
        out = drive(chk, ["reset", line])[1]
        print(json.dumps({"op": line, "impl": res, "model": out, "oracle_problems": problems}, indent=1))
        if problems:
            print(f"VIOLATION property=C06 replay={path}")
            return 1
        if res != out:
            print(f"VIOLATION property=C06 replay={path} no-failing-input-found")
            return 1
        return 0
    if c.get("suite") == "initpop":
        import c05 as C5
        diff, problems, tags, info = run_initpop_hp_case(c["initpop"], C5.initpop_description())
        print(json.dumps({"diff": diff, "oracle_problems": problems, "details": info}, indent=1, default=str))
        if problems:
            print(f"VIOLATION property=C06 replay={path}")
            return 1
        if diff:
            print(f"VIOLATION property=C06 replay={path} no-failing-input-found")
            return 1
        return 0
    if c.get("suite") == "sample":
        impl_s, line, problems, _ = run_sample(c)
        out = drive(chk, ["reset", line])[1]
        print(json.dumps({"op": line, "impl": impl_s, "model": out, "oracle_problems": problems}, indent=1))
        if problems:
            print(f"VIOLATION property=C06 replay={path}")
            return 1
        if impl_s != out:
            print(f"VIOLATION property=C06 replay={path} no-failing-input-found")
            return 1
        return 0
    if c.get("suite") == "probe":
        print("probe replays are re-run by the normal check")
        return 0
    if c.get("suite") == "session":
        res = one_session(chk, c)
        own = [one_case(chk, p)[:2] for p in c["parts"]]
        print(json.dumps({"algos": [p["algo"] for p in c["parts"]], "order": c["order"],
                          "parts": [{"algo": c["parts"][i]["algo"], "hps": c["parts"][i]["hps"],
                                     "ops": c["parts"][i]["ops"], "diff_at": d, "oracle_problems": p, "draws": tr,
                                     "impl": im, "model": mo,
                                     "fails_with_a_mutations_object_of_its_own": bool(own[i][0] is not None or own[i][1])}
                                    for i, (d, p, _, im, mo, tr) in enumerate(res)]}, indent=1))
        if any(p for _, p, *_ in res):
            print(f"VIOLATION property=C06 replay={path}")
            return 1
        if any(d is not None for d, *_ in res):
            print(f"VIOLATION property=C06 replay={path} no-failing-input-found")
            return 1
        return 0
    diff, problems, _, impl, model_out, trace = one_case(chk, c)
    # which recorded variant of the model does the implementation follow?
    variants = {}
    try:
        _, model_ops, *_ = run_case(c)
        for sem in ("own", "cached"):
            for om in ("all", "first"):
                ops = [l.replace("hpmut pop own all", f"hpmut pop {sem} {om}") for l in model_ops]
                variants[f"{sem}/{om}"] = drive(chk, ["reset"] + ops)[1:] == impl
    except Exception:
        pass
    print(json.dumps({"case": {k: c[k] for k in ("algo", "pop", "via", "hps", "ops", "seed") if k in c},
                      "draws": trace, "diff_at": diff, "oracle_problems": problems,
                      "implementation_matches_model_variant": variants,
                      "impl": impl, "model": model_out}, indent=1))
    if problems:
        print(f"VIOLATION property=C06 replay={path}")
        return 1
    if diff is not None:
        print(f"VIOLATION property=C06 replay={path} no-failing-input-found")
        return 1
    return 0
