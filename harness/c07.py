"""
C07 — a saved checkpoint restores an equivalent agent.

Case = (algorithm, observation family, share_encoders, wrapper, seed, pre-save history).  The history
(learn / mutate(kind) / append / act / reclone / restore(how)) is applied to a real agent so that architectures,
hyper-parameters and optimizer state differ from the constructor defaults.  `restore` is an EARLIER checkpoint
generation inside the history: the agent is saved and replaced by its restored self (how = load: `Algo.load`;
keep: the same live agent goes on and is checkpointed again later, the restored copy follows in lock-step;
inplace: `load_checkpoint` into another, differently built agent; rollback: the agent trains on and then
loads its own file back), is compared with its pre-restore self (fingerprints of all state incl. wrapper
attributes, greedy actions), and the rest of the history is applied in lock-step to the restored agent and to
the never-restored original, which must still agree when the next generation is written ("every history before
the save" includes earlier restores).  Then `save_checkpoint` writes
a temporary file (outside /repo and /verif, removed afterwards) and BOTH load paths are exercised:
`Algo.load(path)` into a new agent and `other.load_checkpoint(path)` into an existing agent that was
built from another seed with other hyper-parameters, trained and architecture-mutated on its own.

Correspondence: the object-graph walker (walker.py) measures per attribute group — networks split in
"tensors the state dict lists" / "tensors it does not list" (hook-built targets, detached encoder copies) —
value fingerprints and cross-agent aliasing of original, restored-new and restored-into-existing.  The
Lean model (Model/Heap.lean + Model/HeapCkpt.lean: `ckpt save / load / spawn / loadinto`, every cell
`saved`) is driven with the same history and predicts (a) cell by cell which values are equal to the
original's, (b) that the original is untouched by saving and loading (frame), (c) that no two of the three
agents share a cell.  On a disagreement the model is re-run with `Fill.init` on the cells no state dict
lists, to tell whether the implementation behaves like the *unrepaired* model (D3 / D22).

Suite `checkpoint-helpers` (helper bodies, tied to Gen/CkptHelpGen.lean = Model/HeapCkpt.lean `Mod`): per network
module the names `get_detached_tensors` collects = an independent walk (walker.module_tensors) minus `state_dict()`
keys; every tensor (registered or not, one stamp per storage) gets a distinct value, save, both load paths, every
tensor read back; the helper pair alone on module level; hand-made nested modules (plain tensor attribute two levels
down, a parameter swapped for a plain tensor, wrong shape / missing name skipped, missing sub-module -> AttributeError,
None / {}), `_orig_mod.` key sets for `remove_compile_prefix`.
Wrapped agents are built with every constructor option of the wrapper NON-default (`RSNorm:{"epsilon": …}`); the wrapper
state is compared attribute by attribute over `__dict__` / slots (`canon_deep`, immutable options included) and by
what it computes (`normalize_*` on a small-variance probe batch).

Oracle (the statement itself, independent of Lean): hyper-parameters, bookkeeping, registry, init_dicts,
every tensor of every network (targets and detached copies included), optimizer moments / steps / options
are equal; greedy actions on sampled observations are equal; k = 1..3 learn steps on identical batches
under identical seeds leave original, restored-new and restored-into-existing bit-equal in every tensor
and optimizer state; training a restored agent leaves the original untouched; loading does not depend on
the global RNG state; a load after the original has moved on still yields the state at save time.
"""
from __future__ import annotations

import copy
import gc
import json
import os
import random
import tempfile
import time
import warnings
from collections import OrderedDict

import numpy as np
import torch

from common import ROOT, Check, InfraError, ddmin
import walker

MUT_KINDS = ["arch", "param", "act", "rl_hp"]
# keys of the checkpoint dict that `load_checkpoint` also sets as attributes: file metadata, not agent state
FILE_METADATA = {"agilerl_version", "wrapper_cls", "wrapper_init_dict", "wrapper_attrs"}
LEARN_STEPS = 3
torch.set_num_threads(1)   # tiny networks: one thread is fastest and keeps reduction order fixed
VID0 = 10_000_000          # value ids handed to the model by the harness (never collide with addresses)


def mutations(kind: str, seed: int):
    from agilerl.hpo.mutation import Mutations
    p = {"none": 0, "arch": 0, "param": 0, "act": 0, "rl_hp": 0}
    p[kind] = 1
    return Mutations(no_mutation=p["none"], architecture=p["arch"], new_layer_prob=0.5, parameters=p["param"],
                     activation=p["act"], rl_hp=p["rl_hp"], mutation_sd=0.1, rand_seed=seed, device="cpu")


# ------------------------------------------------------------------------------------ measuring
def inner_of(agent):
    from agilerl.wrappers.agent import AgentWrapper
    return agent.agent if isinstance(agent, AgentWrapper) else agent


class Groups(OrderedDict):
    refs: list = []


def measure(agent) -> "OrderedDict[str, dict]":
    """group -> {'kind': model token, 'parts': [cells, ...]}; a network group has two parts when
    some of its layers hold plain tensors in place of parameters (hook-built targets, detached encoder
    copies), which no state_dict() lists: [ordinary tensors, swapped-in tensors]"""
    inner = inner_of(agent)
    raw = walker.agent_groups(inner)
    out = Groups()
    for name, g in raw.items():
        if name.startswith("attr:") and name[5:] in FILE_METADATA:
            continue
        if g["kind"] == "net":
            attr = name[4:]
            obj = getattr(inner, attr)
            mods = obj if isinstance(obj, list) else [obj]
            swapped = set()
            for mi, m in enumerate(mods):
                m = getattr(m, "_orig_mod", m)
                listed = set(m.state_dict().keys())
                for prefix, sub in m.named_modules():
                    # torch's own layers hold tensors only as parameters / buffers: a plain tensor
                    # attribute there was swapped in for a parameter (TensorDict.to_module)
                    if not type(sub).__module__.startswith("torch.nn"):
                        continue
                    for n, v in vars(sub).items():
                        key = f"{prefix}.{n}" if prefix else n
                        if isinstance(v, torch.Tensor) and key not in listed:
                            swapped.add(f"{attr}[{mi}].{key}")
            sd = {c: pv for c, pv in g["cells"].items() if pv[0] not in swapped}
            det = {c: pv for c, pv in g["cells"].items() if pv[0] in swapped}
            parts = [sd, det] if det else ([sd] if sd else [])
            out[name] = {"kind": "net", "parts": parts, "detached": bool(det)}
        else:
            out[name] = {"kind": g["kind"], "parts": [g["cells"]] if g["cells"] else [], "detached": False}
    # an attribute that is a reference into a network / optimizer (the bandits' `exp_layer` is the
    # actor's output layer) owns nothing itself: record the reference, keep the cells with the owner
    owner = {}
    for name, g in out.items():
        if g["kind"] in ("net", "opt"):
            for part in g["parts"]:
                for c in part:
                    owner[c] = name
    refs = set()
    for name, g in out.items():
        if g["kind"] in ("net", "opt"):
            continue
        for part in g["parts"]:
            for c in [c for c in part if c in owner]:
                refs.add((name, owner[c]))
                del part[c]
        g["parts"] = [p for p in g["parts"] if p]
    out.refs = sorted(refs)
    if inner is not agent:                                   # AgentWrapper: its own state
        from agilerl.algorithms.core.base import EvolvableAlgorithm
        attrs = EvolvableAlgorithm.inspect_attributes(agent)
        for name in sorted(attrs):
            if name in ("agent", "agent_get_action", "agent_learn", "observation_space", "action_space",
                        "training", "device"):
                continue
            cells: dict = {}
            walker.walk(attrs[name], cells, name)
            out["wrap:" + name] = {"kind": walker.classify(attrs[name], False),
                                   "parts": [cells] if cells else [], "detached": False}
    return out


def part_value(cells: dict) -> str:
    return walker.group_value({"cells": cells})


def values(groups) -> dict:
    return {n: [part_value(p) for p in g["parts"]] for n, g in groups.items()}


def cellsets(groups) -> dict:
    return {n: [frozenset(p) for p in g["parts"]] for n, g in groups.items()}


def flat_groups(groups) -> "OrderedDict[str, dict]":
    """walker-style groups (one cell dict per group) for walker.alias_pairs"""
    out = OrderedDict()
    for n, g in groups.items():
        cells = {}
        for p in g["parts"]:
            cells.update(p)
        out[n] = {"cells": cells}
    return out


def canon(v, depth=0):
    """canonical, comparable description of an attribute value (immutable parts by repr, tensors/arrays
    by content hash, containers recursively, plain objects through the walker)"""
    if isinstance(v, float) and v != v:
        return "nan"
    if walker.is_immutable(v):
        return repr(v)
    if isinstance(v, torch.Tensor):
        return "T" + walker.tensor_value(v)
    if isinstance(v, np.ndarray):
        return "A" + walker._h(v.tobytes() + str(v.shape).encode() + str(v.dtype).encode())
    if depth > 5:
        return type(v).__name__
    if isinstance(v, dict):
        return {repr(k): canon(x, depth + 1) for k, x in v.items()}
    if isinstance(v, (list, tuple)):
        return [canon(x, depth + 1) for x in v]
    if callable(v):
        return "callable:" + getattr(v, "__name__", type(v).__name__)
    cells: dict = {}
    walker.walk(v, cells, "o")
    return type(v).__name__ + ":" + walker.group_value({"cells": cells})


def wrapper_spec(wrapper: str):
    """'RSNorm' | 'RSNorm:{"epsilon": 0.25, ...}' -> (class name, constructor options)"""
    name, _, opts = wrapper.partition(":")
    return name, (json.loads(opts) if opts else {})


def wrap_agent(agent, wrapper: str):
    import agilerl.wrappers.agent as W
    name, opts = wrapper_spec(wrapper)
    return getattr(W, name)(agent, **opts)


def wrapper_options(rng: random.Random, name: str, family: str) -> str:
    """every documented constructor option of the wrapper set to a NON-default value (drawn)"""
    if name != "RSNorm":
        return name
    opts = {"epsilon": rng.choice([0.015625, 0.25, 2.0])}
    if family == "dict":
        opts["norm_obs_keys"] = ["vec"]
    return name + ":" + json.dumps(opts, sort_keys=True)


def canon_deep(v, depth=0):
    """like `canon`, but a plain object is described by ALL its attributes (`__dict__` and slots, recursively):
    immutable ones (a float option such as an epsilon) count as state too"""
    if isinstance(v, float) and v != v:
        return "nan"
    if isinstance(v, (torch.device, torch.dtype)):
        return str(v)
    if walker.is_immutable(v):
        return repr(v)
    if isinstance(v, torch.Tensor):
        return "T" + walker.tensor_value(v)
    if isinstance(v, np.ndarray):
        return "A" + walker._h(v.tobytes() + str(v.shape).encode() + str(v.dtype).encode())
    if depth > 5:
        return type(v).__name__
    if isinstance(v, dict):
        return {repr(k): canon_deep(x, depth + 1) for k, x in v.items()}
    if isinstance(v, (list, tuple)):
        return [canon_deep(x, depth + 1) for x in v]
    if callable(v) or isinstance(v, torch.nn.Module):
        return canon(v, depth)
    names = list(getattr(v, "__dict__", {}).keys())
    for c in type(v).__mro__:
        names += [n for n in getattr(c, "__slots__", ()) if isinstance(n, str) and hasattr(v, n)]
    if not names:
        return canon(v, depth)
    return {"__class__": type(v).__name__, **{n: canon_deep(getattr(v, n), depth + 1) for n in sorted(set(names))}}


def probe_obs(space, n: int = 4):
    """a deterministic batch of observations with SMALL variance (a sixteenth of a unit around 0), so that an
    additive constant under the square root of a normaliser matters; None for spaces without a float batch"""
    from gymnasium import spaces
    if isinstance(space, spaces.Box):
        k = int(np.prod(space.shape)) if space.shape else 1
        return (torch.linspace(-1.0, 1.0, n * k).reshape((n,) + tuple(space.shape)) / 16.0).to(torch.float32)
    if isinstance(space, spaces.Dict):
        out = {k: probe_obs(sp, n) for k, sp in space.spaces.items()}
        return None if any(x is None for x in out.values()) else out
    if isinstance(space, spaces.Tuple):
        out = tuple(probe_obs(sp, n) for sp in space.spaces)
        return None if any(x is None for x in out) else out
    return None


def wrapper_behaviour(agent) -> dict:
    """what the wrapper computes from its statistics: every public `normalize_*` method on the probe batch"""
    out = {}
    try:
        probe = probe_obs(agent.observation_space)
    except Exception:
        probe = None
    if probe is None or isinstance(agent.observation_space, dict):
        return out
    for name in sorted(n for n in dir(type(agent)) if n.startswith("normalize_")):
        try:
            out["wrapfn:" + name] = canon(getattr(agent, name)(copy.deepcopy(probe)))
        except Exception as e:
            out["wrapfn:" + name] = f"raises {type(e).__name__}"
    return out


def plain_state(agent) -> dict:
    """everything the statement lists that is not a tensor of a network / optimizer"""
    from agilerl.algorithms.core.base import EvolvableAlgorithm
    from agilerl.algorithms.core.wrappers import OptimizerWrapper
    inner = inner_of(agent)
    out = {}
    for k, v in EvolvableAlgorithm.inspect_attributes(inner).items():
        if k in ("learn", "get_action") or k in FILE_METADATA:
            continue
        out["attr:" + k] = canon(v)
    for k, obj in inner.evolvable_attributes().items():
        if isinstance(obj, OptimizerWrapper):
            opts = obj.optimizer if isinstance(obj.optimizer, list) else [obj.optimizer]
            out["optmeta:" + k] = canon({"cls": obj.optimizer_cls.__name__ if isinstance(obj.optimizer_cls, type)
                                         else [c.__name__ for c in obj.optimizer_cls],
                                         "networks": obj.network_names, "lr_name": obj.lr_name,
                                         "kwargs": obj.optimizer_kwargs, "multiagent": obj.multiagent,
                                         "group_lrs": [[g["lr"] for g in o.param_groups] for o in opts],
                                         "n_params": [[len(g["params"]) for g in o.param_groups] for o in opts]})
            out["optlr:" + k] = canon([[g["lr"] == getattr(inner, obj.lr_name) for g in o.param_groups] for o in opts])
        else:
            mods = obj if isinstance(obj, list) else [obj]
            out["init_dict:" + k] = canon([getattr(m, "_orig_mod", m).init_dict for m in mods])
            out["cls:" + k] = canon([type(getattr(m, "_orig_mod", m)).__name__ for m in mods])
            out["structure:" + k] = [repr(getattr(m, "_orig_mod", m)) for m in mods]   # layers, sizes, activations
    if inner is not agent:
        out["wrapper"] = type(agent).__name__
        for k, v in EvolvableAlgorithm.inspect_attributes(agent).items():
            if k in ("agent", "agent_get_action", "agent_learn", "training", "device"):
                continue
            out["wrap:" + k] = canon(v)
            out["wrapdeep:" + k] = canon_deep(v)      # all attributes of the statistics objects, immutable ones too
        out.update(wrapper_behaviour(agent))
    return out


def compare(a, b, what: str, groups_a=None, groups_b=None) -> list[str]:
    """differences between two agents in everything the statement talks about"""
    out = []
    ga = groups_a if groups_a is not None else measure(a)
    gb = groups_b if groups_b is not None else measure(b)
    va, vb = values(ga), values(gb)
    if list(va) != list(vb):
        out.append(f"{what}: attribute sets differ: {sorted(set(va) ^ set(vb))}")
    ra, rb = getattr(ga, "refs", []), getattr(gb, "refs", [])
    if ra != rb:
        out.append(f"{what}: attributes that refer into the agent's own networks: {ra} in the original, {rb} "
                   f"in the restored agent (a restored reference points to a detached copy)")
    for n in va:
        if n not in vb:
            continue
        if len(va[n]) != len(vb[n]):
            if ra == rb:
                out.append(f"{what}: {n} has a different layout (detached tensors: "
                           f"{ga[n]['detached']} vs {gb[n]['detached']}; own cells: {len(va[n])} vs {len(vb[n])})")
            continue
        for c, (x, y) in enumerate(zip(va[n], vb[n])):
            if x != y:
                out.append(f"{what}: {n}{part_label(ga[n], c)} differs" + first_tensor_diff(ga[n]["parts"][c], gb[n]["parts"][c]))
    pa, pb = plain_state(a), plain_state(b)
    for k in sorted(set(pa) | set(pb)):
        if pa.get(k) != pb.get(k):
            out.append(f"{what}: {k} differs: {short(pa.get(k))} vs {short(pb.get(k))}")
    return out


def part_label(g, c) -> str:
    if g["kind"] != "net" or not g["detached"]:
        return ""
    return " [parameters / buffers]" if c == 0 else " [detached tensors that no state_dict() lists]"


def short(x) -> str:
    s = repr(x)
    return s if len(s) < 100 else s[:100] + "…"


def first_tensor_diff(ca: dict, cb: dict) -> str:
    da = dict(sorted((p, v) for p, v in ca.values()))
    db = dict(sorted((p, v) for p, v in cb.values()))
    for p in da:
        if db.get(p) != da[p]:
            return f" (first: {p})"
    extra = set(db) - set(da)
    return f" (extra: {sorted(extra)[0]})" if extra else ""


# ------------------------------------------------------------------------------------ the case
class Case:
    def __init__(self, chk: Check, algo, family, share, wrapper, seed, ops):
        import agents as A
        self.A, self.chk = A, chk
        self.algo, self.family, self.share, self.wrapper, self.seed, self.ops = algo, family, share, wrapper, seed, ops
        self.problems: list[str] = []
        self.tags: list[str] = []
        self.lines: list[str] = []
        self.vid = VID0

    def fresh(self):
        self.vid += 1
        return self.vid

    def build(self, seed, other=False):
        A = self.A
        kw = {}
        if other:
            # a differently initialised agent: other seed, other hyper-parameters
            if self.algo in ("DDPG", "TD3", "MADDPG", "MATD3"):
                kw.update(lr_actor=3e-3, lr_critic=7e-3)
            else:
                kw.update(lr=5e-3)
            if self.algo not in ("PPO", "IPPO"):
                kw.update(batch_size=16)
            if self.algo not in A.BANDITS:
                kw.update(gamma=0.9)
        ag = A.build(self.algo, self.family, seed=seed, share_encoders=self.share,
                     hp_config=A.default_hp_config(self.algo), index=7 if other else 0, **kw)
        if self.wrapper:
            ag = wrap_agent(ag, self.wrapper)
        return ag

    # ---- one history operation on a real agent (returns the agent: mutation / reclone replace it)
    def apply(self, agent, op):
        A = self.A
        k = op[0]
        if k != "learn":
            # re-created layers, exploration noise … draw from the global generators: an op must be a
            # function of (agent, op) so that it can be applied in lock-step to two agents
            A.seed_all(int(op[-1]) if len(op) > 1 and isinstance(op[-1], int) else self.seed)
        if k == "learn":
            A.learn_once(agent, self.algo, self.family, seed=op[1])
        elif k == "mutate":
            agent = mutations(op[1], op[2]).mutation([agent])[0]
        elif k == "append":
            agent.fitness.append(float(op[1]))
            agent.scores.append(float(op[1]) / 2)
            agent.steps.append(agent.steps[-1] + 10)
        elif k == "act":
            obs = A.sample_obs(agent, self.algo, self.family, 4, seed=op[1])
            A.greedy_action(agent, self.algo, obs, torch_seed=op[1], preserve_state=False)
        elif k == "reclone":
            agent = agent.clone(index=inner_of(agent).index)
        else:
            raise InfraError(f"unknown op {op}")
        return agent

    # ---- mirror the change of the original (model agent 0) into heap ops
    def mirror(self, before, after, names, idx):
        bc, ac = cellsets(before), cellsets(after)
        bv, av = values(before), values(after)
        for n in names:
            k = idx[n]
            if len(ac[n]) != len(bc[n]) or any(x != y for x, y in zip(ac[n], bc[n])):
                self.lines.append(f"heap rebind {self.subject} {k} " + " ".join(str(self.fresh()) for _ in ac[n]))
            else:
                for c, (x, y) in enumerate(zip(av[n], bv[n])):
                    if x != y:
                        self.lines.append(f"heap write {self.subject} {k} {c} {self.fresh()}")

    def run(self) -> dict:
        A = self.A
        res = {"problems": self.problems, "tags": self.tags, "diff": None, "impl": [], "model": [],
               "unrepaired_match": None, "names": []}
        with warnings.catch_warnings():
            warnings.simplefilter("ignore")
            try:
                self._run(res)
            except InfraError:
                raise
            except Exception as e:
                self.problems.append(f"raised {type(e).__name__}: {str(e)[:300]}")
        return res

    def _run(self, res):
        with tempfile.TemporaryDirectory(prefix="c07_") as tmp:
            self._run_in(res, tmp)

    # ---- an earlier checkpoint generation inside the history
    def restore(self, agent, how, tmp, g, names, idx):
        """returns (restored agent, twin = the never-restored original or None, groups of the restored agent)"""
        A = self.A
        self.round += 1
        path = os.path.join(tmp, f"generation{self.round}.pt")
        what = {"load": "Algo.load(path)", "inplace": "load_checkpoint(path) into another agent",
                "keep": "periodic checkpoint of the live agent (which trains on), Algo.load(path)",
                "rollback": "load_checkpoint(path) back into the agent that trained on"}[how]
        what = f"checkpoint generation {self.round} inside the history, {what}"
        v_before, p_before = values(g), plain_state(agent)
        agent.save_checkpoint(path)
        blob = self.nblobs
        self.nblobs += 1
        self.lines.append(f"ckpt save {self.subject}")
        A.seed_all(self.seed * 17 + self.round)
        if how == "load":
            new = type(inner_of(agent)).load(path)
            self.lines += [f"ckpt load {blob}", f"heap discard {self.subject}"]
            self.subject, self.nagents = self.nagents, self.nagents + 1
            twin = agent
        elif how == "keep":
            # the SAME live agent goes on (and is checkpointed again later); the restored copy follows in lock-step
            new = type(inner_of(agent)).load(path)
            self.lines += [f"ckpt load {blob}", f"heap discard {self.nagents}"]
            self.nagents += 1
            twin = agent
        elif how == "inplace":
            new = self.build(self.seed + 2000 + self.round, other=True)
            gn = measure(new)
            self.lines += ["ckpt spawn " + " ".join(str(len(gn[n]["parts"])) if n in gn else "0" for n in names),
                           f"ckpt loadinto {blob} {self.nagents}", f"heap discard {self.subject}"]
            self.subject, self.nagents = self.nagents, self.nagents + 1
            new.load_checkpoint(path)
            twin = agent
        else:
            # the agent moves on, then returns to the saved state: no second object to compare with
            A.learn_once(agent, self.algo, self.family, seed=700 + self.round)
            g2 = measure(agent)
            self.mirror(g, g2, names, idx)
            agent.load_checkpoint(path)
            self.lines.append(f"ckpt loadinto {blob} {self.subject}")
            new, twin = agent, None
        gn = measure(new)
        if type(new) is not type(agent):
            self.problems.append(f"{what}: restored a {type(new).__name__}, saved a {type(agent).__name__}")
            return new, None, gn
        if twin is not None:
            self.problems += compare(twin, new, f"{what} vs the agent that was saved", g, gn)
            if not self.problems:
                obs = A.sample_obs(twin, self.algo, self.family, 8, seed=self.seed + 31 * self.round)
                a1 = A.greedy_action(twin, self.algo, copy.deepcopy(obs), torch_seed=5)
                a2 = A.greedy_action(new, self.algo, copy.deepcopy(obs), torch_seed=5)
                from c01 import same_value
                if not same_value(a1, a2):
                    self.problems.append(f"{what}: the restored agent picks different greedy actions")
                if self.wrapper:          # acting in training mode moved the wrapper's statistics on both
                    gn = measure(new)
                    if how == "keep":
                        self.mirror(g, measure(agent), names, idx)
        else:
            if values(gn) != v_before:
                bad = [n for n in names if values(gn).get(n) != v_before.get(n)]
                self.problems.append(f"{what}: {bad[:3]} differ from the state at save time")
            pn = plain_state(new)
            for k in sorted(set(pn) | set(p_before)):
                if pn.get(k) != p_before.get(k):
                    self.problems.append(f"{what}: {k} differs from the state at save time: "
                                         f"{short(p_before.get(k))} vs {short(pn.get(k))}")
        self.tags.append("restore-" + how)
        if how == "keep" and twin is not None:
            return agent, new, measure(agent)
        return new, twin, gn

    def _run_in(self, res, tmp):
        A = self.A
        agent = self.build(self.seed)
        g = measure(agent)
        names = list(g.keys())
        idx = {n: k for k, n in enumerate(names)}
        res["names"] = names
        sizes = [len(g[n]["parts"]) for n in names]
        self.lines = ["heap mode repaired",
                      "heap new " + " ".join(g[n]["kind"] for n in names) + " / " + " ".join(map(str, sizes))]
        self.subject, self.nagents, self.nblobs, self.round = 0, 1, 0, 0
        twin, twin_since = None, 0
        # ---- history before the save
        for op in self.ops:
            before = g
            if op[0] == "restore":
                if twin is not None:
                    self.check_twin(twin, agent, twin_since, g)
                twin = None
                if self.problems:
                    return
                agent, twin, g = self.restore(agent, op[1], tmp, g, names, idx)
                twin_since = self.round
                if self.problems:
                    return
                continue
            try:
                agent = self.apply(agent, op)
            except InfraError:
                raise
            except Exception as e:
                # the history itself is not what C07 is about (C01..C06 check clone / mutation): skip the op
                self.tags.append("op-raised-" + op[0])
                res.setdefault("skipped", []).append(f"{op}: {type(e).__name__}: {str(e)[:120]}")
                g = measure(agent)
                self.mirror(before, g, names, idx)
                if twin is not None:
                    try:
                        twin = self.apply(twin, op)
                        self.problems.append(f"{op[0]} raised {type(e).__name__} on the agent restored in generation "
                                             f"{twin_since} but not on the never-restored original: {str(e)[:160]}")
                        return
                    except InfraError:
                        raise
                    except Exception:
                        pass
                continue
            if twin is not None:
                try:
                    twin = self.apply(twin, op)
                except InfraError:
                    raise
                except Exception as e:
                    self.problems.append(f"{op[0]} raised {type(e).__name__} on the never-restored original but not on "
                                         f"the agent restored in generation {twin_since}")
                    return
            g = measure(agent)
            if list(g.keys()) != names:
                self.problems.append(f"{op[0]} changed the attribute set: {sorted(set(g) ^ set(names))}")
                return
            self.mirror(before, g, names, idx)
            self.tags.append(op[0] if op[0] != "mutate" else "mutate-" + op[1])
        if twin is not None:
            self.check_twin(twin, agent, twin_since, g)
            twin = None
            if self.problems:
                return
        g0 = g
        sizes = [len(g0[n]["parts"]) for n in names]
        det_cells = [(idx[n], 1) for n in names if g0[n]["detached"]]
        if det_cells:
            self.tags.append("has-tensors-outside-state-dict")
        v_at_save = values(g0)
        p_at_save = plain_state(agent)
        inner = inner_of(agent)
        # ---- save
        path = os.path.join(tmp, "agent.pt")
        agent.save_checkpoint(path)
        S, blob = self.subject, self.nblobs
        self.save_at = len(self.lines)
        self.lines += [f"heap view {S}", f"ckpt save {S}"]
        g0s = measure(agent)
        if values(g0s) != v_at_save or plain_state(agent) != p_at_save:
            self.problems.append("save_checkpoint changed the agent it saved")
        # ---- path A: Algo.load(path) under an unrelated RNG state
        A.seed_all(self.seed * 7 + 11)
        cls = type(inner)
        new = cls.load(path)
        self.lines.append(f"ckpt load {blob}")
        n1 = self.nagents
        # ---- path B: load_checkpoint into an existing, differently initialised agent
        other = self.build(self.seed + 1000, other=True)
        try:
            other = self.apply(other, ["learn", 5])
            other = self.apply(other, ["mutate", "arch", self.seed + 3])
        except Exception:
            pass
        go = measure(other)
        self.lines.append("ckpt spawn " + " ".join(str(len(go[n]["parts"])) if n in go else "0" for n in names))
        n2 = n1 + 1
        A.seed_all(self.seed * 13 + 5)
        other.load_checkpoint(path)
        self.lines.append(f"ckpt loadinto {blob} {n2}")
        self.model_ids = {0: S, 1: n1, 2: n2}
        self._after_loads(res, agent, new, other, g0, v_at_save, p_at_save, names, idx, det_cells, path)

    def check_twin(self, twin, agent, since, g_agent):
        """the agent restored in generation `since` and the never-restored original went through the same
        further history: they must still agree (continued learning / acting / mutation after a restore)"""
        self.problems += compare(twin, agent, f"after the same further history: the never-restored original vs the "
                                              f"agent restored in checkpoint generation {since} (first = lock-step twin)", None, g_agent)
        if not self.problems:
            self.tags.append("lockstep-after-restore-checked")

    def _after_loads(self, res, agent, new, other, g0, v_at_save, p_at_save, names, idx, det_cells, path):
        A = self.A
        from agilerl.wrappers.agent import AgentWrapper
        if isinstance(agent, AgentWrapper) != isinstance(new, AgentWrapper) or type(new) is not type(agent):
            self.problems.append(f"load() returned a {type(new).__name__}, saved a {type(agent).__name__}")
            return
        g0b, g1, g2 = measure(agent), measure(new), measure(other)
        mid = self.model_ids
        # ---------------- implementation observables (same order as the model probes below)
        def eq_pattern(ga, gb):
            va, vb = values(ga), values(gb)
            return " | ".join(" ".join("1" if (n in vb and c < len(vb[n]) and vb[n][c] == x) else "0"
                                       for c, x in enumerate(va[n])) for n in names)
        pairs = walker.alias_pairs({0: flat_groups(g0b), 1: flat_groups(g1), 2: flat_groups(g2)})
        impl = [eq_pattern(g0, g0b),                 # frame: the original is untouched by save + loads
                eq_pattern(g0, g1),                  # new agent == original, cell by cell
                eq_pattern(g0, g2),                  # existing agent == original, cell by cell
                " ".join(sorted(f"{mid[i]}.{idx[a]}={mid[j]}.{idx[b]}" for i, a, j, b in pairs if a in idx and b in idx))]
        res["impl"] = impl
        # ---------------- model
        probes = [f"heap view {mid[0]}", f"heap view {mid[1]}", f"heap view {mid[2]}", "heap alias"]
        out = self.chk.driver.run(["reset"] + self.lines + probes)[1:]
        if any(o == "bad-op" for o in out) or "reject" in out:
            raise InfraError(f"driver rejected a C07 op: {[(l, o) for l, o in zip(self.lines + probes, out) if o in ('bad-op', 'reject')][:4]}")
        self.chk.corr["model_lines"] += len(out)
        view_at_save = out[self.save_at]
        res["model"] = self.model_obs(view_at_save, out[-4:])
        res["diff"] = next((i for i, (a, b) in enumerate(zip(impl, res["model"])) if a != b), None)
        if res["diff"] is not None and det_cells:
            # does the implementation behave like the unrepaired model?
            fills = " ".join(f"{k}.{c}=i{self.fresh()}" for k, c in det_cells)
            lines2 = [ln + " " + fills if ln.startswith(("ckpt load ", "ckpt loadinto ")) else ln for ln in self.lines]
            out2 = self.chk.driver.run(["reset"] + lines2 + probes)[1:]
            res["unrepaired_match"] = self.model_obs(view_at_save, out2[-4:]) == impl
        # ---------------- oracle: the statement
        self.problems += compare(agent, new, "Algo.load(path) vs original", g0b, g1)
        self.problems += compare(agent, other, "load_checkpoint(path) into an existing agent vs original", g0b, g2)
        if values(g0b) != v_at_save:
            self.problems.append("loading the checkpoint changed the original agent")
        if any(i != j for i, a, j, b in pairs):
            i, a, j, b = sorted(pairs)[0]
            self.problems.append(f"agents {i} and {j} (0 original, 1 loaded, 2 loaded-into) share mutable state: {a} ~ {b}")
        if self.problems:
            return
        # greedy actions
        obs = A.sample_obs(agent, self.algo, self.family, 16, seed=self.seed + 17)
        acts = [A.greedy_action(x, self.algo, copy.deepcopy(obs), torch_seed=7) for x in (agent, new, other)]
        from c01 import same_value
        if not same_value(acts[0], acts[1]):
            self.problems.append("the agent returned by load() picks different greedy actions than the original")
        if not same_value(acts[0], acts[2]):
            self.problems.append("the agent restored by load_checkpoint() picks different greedy actions than the original")
        # same future
        ga = measure(agent) if self.wrapper else g0b     # acting moved a wrapper's statistics (on all three alike)
        for s in range(LEARN_STEPS):
            snap0 = values(ga)
            A.learn_once(new, self.algo, self.family, seed=900 + s)
            A.learn_once(other, self.algo, self.family, seed=900 + s)
            if values(measure(agent)) != snap0:
                self.problems.append("training the restored agents changed the original (independence broken)")
            A.learn_once(agent, self.algo, self.family, seed=900 + s)
            ga, g1, g2 = measure(agent), measure(new), measure(other)
            d = compare(agent, new, f"after {s + 1} identical learn step(s): load() vs original", ga, g1) + \
                compare(agent, other, f"after {s + 1} identical learn step(s): load_checkpoint() vs original", ga, g2)
            if d:
                self.problems += d
                return
        self.tags.append("same-future-checked")
        # the same file loaded AGAIN, by both paths, after the earlier restored agents (and the original) have trained
        # on: each further load must equal the original at save time and share nothing with anybody
        A.seed_all(self.seed + 99)
        late = type(inner_of(agent)).load(path)
        late2 = self.build(self.seed + 3000, other=True)
        late2.load_checkpoint(path)
        gl = {0: ga, 1: g1, 2: g2, 3: measure(late), 4: measure(late2)}
        label = {0: "original", 1: "first load()", 2: "first load_checkpoint()", 3: "second load()", 4: "second load_checkpoint()"}
        for i, x in ((3, late), (4, late2)):
            if values(gl[i]) != v_at_save:
                bad = [n for n in names if values(gl[i]).get(n) != v_at_save.get(n)]
                self.problems.append(f"the {label[i]} of the same file, after earlier restored agents trained on, differs from "
                                     f"the state at save time in {bad[:3]}")
            px = plain_state(x)
            for k in sorted(set(px) | set(p_at_save)):
                if px.get(k) != p_at_save.get(k):
                    self.problems.append(f"the {label[i]} of the same file differs from the state at save time: {k}: "
                                         f"{short(p_at_save.get(k))} vs {short(px.get(k))}")
        lp = walker.alias_pairs({i: flat_groups(gx) for i, gx in gl.items()})
        if lp:
            i, a, j, b = sorted(lp)[0]
            self.problems.append(f"{label[i]} and {label[j]} of the same file share mutable state: {a} ~ {b}")
        if not self.problems:
            self.tags.append("reload-after-training-checked")

    @staticmethod
    def model_obs(view_at_save: str, tail: list[str]) -> list[str]:
        def cells(line):
            return [grp.split() for grp in line.split(" | ")] if line != "dead" else []
        ref = cells(view_at_save)

        def pat(line):
            cur = cells(line)
            return " | ".join(" ".join("1" if (k < len(cur) and c < len(cur[k]) and cur[k][c] == x) else "0"
                                       for c, x in enumerate(grp)) for k, grp in enumerate(ref))
        return [pat(tail[0]), pat(tail[1]), pat(tail[2]), " ".join(sorted(tail[3].split()))]


# ------------------------------------------------------------------------------------ generation
def gen_history(rng: random.Random, length: int, algo: str, wrapper):
    import agents as A
    ops = [["learn", rng.randrange(1000)]]
    for _ in range(length):
        r = rng.random()
        if r < 0.35:
            ops.append(["learn", rng.randrange(1000)])
        elif r < 0.75:
            kind = "arch" if rng.random() < 0.5 else rng.choice(MUT_KINDS)
            ops.append(["mutate", kind, rng.randrange(1000)])
        elif r < 0.82:
            ops.append(["append", rng.randrange(100)])
        elif r < 0.88:
            ops.append(["act", rng.randrange(1000)])
        elif r < 0.91:
            ops.append(["reclone"])
        else:
            # an earlier checkpoint generation: save -> restore -> the history goes on with the restored agent
            ops.append(["restore", rng.choice(["load", "inplace", "keep", "keep", "rollback"])])
    # usually end with training, so that optimizer moments exist and targets lag behind at the save
    if rng.random() < 0.8:
        ops.append(["learn", rng.randrange(1000)])
        if rng.random() < 0.5:
            ops.append(["learn", rng.randrange(1000)])
    return ops


def case_list(chk: Check):
    import agents as A
    rng = chk.rng
    cases = []
    for f in sorted((ROOT / "corpus" / "C07").glob("*.json")):
        c = json.loads(f.read_text())
        cases.append((c["algo"], c["family"], c.get("share"), c.get("wrapper"), c["seed"], c["ops"]))
    quick = chk.tier == "quick"
    fams = ["vector"] if quick else ["vector", "image", "dict", "discrete"]
    reps = 2
    length = 4 if quick else 9
    for algo in A.ALGOS:
        for fam in fams:
            if not A.supported(algo, fam) or A.known_broken(algo, fam):
                continue
            shares = [None]
            if algo in A.SHARE_ENCODER_ALGOS:
                shares = [True, False] if (not quick or fam == "vector") else [True]
            for share in shares:
                for _ in range(reps):
                    cases.append((algo, fam, share, None, rng.randrange(1 << 20), gen_history(rng, length, algo, None)))
    # AgentWrapper variants (RSNorm supports the off-policy single-agent algorithms)
    wrapped = ["DQN", "DDPG"] if quick else ["DQN", "DDPG", "TD3", "RainbowDQN", "CQN"]
    for wi, algo in enumerate(wrapped):
        # wrapped agents: at least two generations, the wrapper's statistics move between them
        hows = ["inplace", "load"] if wi % 2 == 0 else ["load", "inplace"]
        wspec = wrapper_options(rng, "RSNorm", "vector")
        ops = gen_history(rng, length, algo, "RSNorm") + [["act", rng.randrange(1000)]]
        ops += [["restore", hows[0]], ["act", rng.randrange(1000)], ["learn", rng.randrange(1000)]]
        if not quick or rng.random() < 0.5:
            ops += [["restore", hows[1]], ["act", rng.randrange(1000)]]
        cases.append((algo, "vector", None, wspec, rng.randrange(1 << 20), ops))
    if quick:       # two random non-vector families per run …
        for _ in range(2):
            algo = rng.choice(A.ALGOS)
            fam = rng.choice(["image", "dict", "discrete"])
            if A.supported(algo, fam) and not A.known_broken(algo, fam):
                cases.append((algo, fam, None, None, rng.randrange(1 << 20), gen_history(rng, length, algo, None)))
        # … and every run at least one image (CNN encoder) and one dict (multi-input encoder) agent: what a network
        # rebuilt from its init_dict computes depends on the encoder class, so no quick run may skip a class by chance
        for fam, pool in (("image", ["DQN", "TD3", "CQN", "PPO"]), ("dict", ["DDPG", "DQN", "PPO"])):
            if True:
                algo = rng.choice([a for a in pool if A.supported(a, fam) and not A.known_broken(a, fam)])
                # checkpoint the agent AS CONSTRUCTED first (a later mutation rebuilds the networks from their init_dict
                # and would hide a constructor / init_dict discrepancy), then the usual history
                ops = [["act", rng.randrange(1000)], ["restore", "load"], ["act", rng.randrange(1000)]] + gen_history(rng, length, algo, None)
                cases.append((algo, fam, None, None, rng.randrange(1 << 20), ops))
    return cases


def run_case(chk, case):
    algo, fam, share, wrapper, seed, ops = case
    c = Case(chk, algo, fam, share, wrapper, seed, ops)
    res = c.run()
    run_case.n = getattr(run_case, "n", 0) + 1
    if run_case.n % 6 == 0:
        gc.collect()
    return res


def report(chk: Check, case, res) -> None:
    algo, fam, share, wrapper, seed, ops = case
    head = f"{algo}/{fam}/share={share}" + (f"/{wrapper}" if wrapper else "")
    replay = {"algo": algo, "family": fam, "share": share, "wrapper": wrapper, "seed": seed, "ops": ops,
              "problems": res["problems"][:12], "impl": res["impl"], "model": res["model"], "groups": res["names"],
              "behaves_like_unrepaired_model": res["unrepaired_match"],
              "correspondence": "harness/c07.py + walker.py vs Model/Heap.lean + Model/HeapCkpt.lean",
              "theorems": chk.gate["theorems"]}
    if res["problems"]:
        def fails(sub):
            return bool(run_case(chk, (algo, fam, share, wrapper, seed, sub))["problems"])
        small = ddmin(ops, fails) if len(ops) > 1 else ops
        if small != ops:
            r2 = run_case(chk, (algo, fam, share, wrapper, seed, small))
            if r2["problems"]:
                replay.update(ops=small, problems=r2["problems"][:12], impl=r2["impl"], model=r2["model"],
                              behaves_like_unrepaired_model=r2["unrepaired_match"])
        # the empty history often suffices
        r0 = run_case(chk, (algo, fam, share, wrapper, seed, []))
        if r0["problems"] and len(replay["ops"]) > 0 and set(map(kind_of, r0["problems"])) >= set(map(kind_of, replay["problems"][:1])):
            replay.update(ops=[], problems=r0["problems"][:12], impl=r0["impl"], model=r0["model"],
                          behaves_like_unrepaired_model=r0["unrepaired_match"])
        tail = " [implementation = unrepaired model: tensors outside the state dict are not restored]" \
            if replay["behaves_like_unrepaired_model"] else ""
        chk.violation(f"{head}: {replay['problems'][0]}{tail}", replay)
    elif res["diff"] is not None:
        d = res["diff"]
        what = ["original before/after save+load", "original vs load()", "original vs load_checkpoint()", "alias pairs"][d]
        chk.violation(f"{head}: implementation and checkpoint model disagree on '{what}': impl={res['impl'][d]!r} "
                      f"model={res['model'][d]!r}; property oracle holds on this case", replay, no_input=True)


# ------------------------------------------------------------------------------------ helper bodies (direct suite)
HELPER_CASES = [("DQN", "vector", None), ("RainbowDQN", "vector", None), ("DDPG", "vector", True), ("TD3", "vector", True),
                ("PPO", "vector", True), ("NeuralUCB", "vector", None), ("NeuralTS", "vector", None),
                ("DDPG", "dict", True), ("PPO", "dict", True), ("CQN", "image", None), ("MADDPG", "vector", None)]


def _mods(net):
    if isinstance(net, dict):
        net = list(net.values())
    return [getattr(m, "_orig_mod", m) for m in (net if isinstance(net, (list, tuple)) else [net])]


def oracle_detached_keys(m) -> list[str]:
    """independent of `get_detached_tensors`: every tensor the walker reaches minus what `state_dict()` lists"""
    listed = set(m.state_dict().keys())
    return [k for k in walker.module_tensors(m).keys() if k not in listed]


def stamp(agent, base: int) -> dict:
    """every tensor of every network (registered or not) gets a distinct constant; returns {path: value}"""
    import agents as A
    vals, i, seen = {}, 0, {}
    with torch.no_grad():
        for name, net in sorted(A.networks_of(agent).items()):
            for mi, m in enumerate(_mods(net)):
                for key, t in walker.module_tensors(m).items():
                    if not t.is_floating_point() or t.numel() == 0:
                        continue
                    cell = walker.tensor_cell(t)          # one storage reached under two names is stamped once
                    if cell not in seen:
                        i += 1
                        seen[cell] = float(base + i) / 64.0
                        t.copy_(torch.full_like(t, seen[cell]))
                    vals[f"{name}[{mi}].{key}"] = seen[cell]
    return vals


def read_stamps(agent) -> dict:
    import agents as A
    out = {}
    for name, net in sorted(A.networks_of(agent).items()):
        for mi, m in enumerate(_mods(net)):
            for key, t in walker.module_tensors(m).items():
                if t.is_floating_point() and t.numel():
                    f = t.detach().flatten()
                    out[f"{name}[{mi}].{key}"] = float(f[0]) if f.numel() and bool((f == f[0]).all()) else "mixed"
    return out


def helper_case(algo, fam, share, seed) -> list[str]:
    """(ii) names collected = independent walk minus state-dict keys, per module; (i) stamp every tensor with a
    distinct value, save, restore on both paths, read every tensor back; the helper pair on module level"""
    import agents as A
    from agilerl.utils.algo_utils import get_detached_tensors, load_detached_tensors
    problems = []
    agent = A.build(algo, fam, seed=seed, share_encoders=share)
    n_det = 0
    for name, net in sorted(A.networks_of(agent).items()):
        for mi, m in enumerate(_mods(net)):
            got = list(get_detached_tensors(m).keys())
            want = oracle_detached_keys(m)
            n_det += len(want)
            if sorted(got) != sorted(want):
                problems.append(f"detached-names: {name}[{mi}] get_detached_tensors lists {sorted(set(got) - set(want))} extra, "
                                f"misses {sorted(set(want) - set(got))} (tensors outside state_dict() by an independent walk)")
            if set(got) & set(m.state_dict().keys()):
                problems.append(f"detached-names: {name}[{mi}] collects registered tensors {sorted(set(got) & set(m.state_dict().keys()))}")
    want_vals = stamp(agent, 1000)
    with tempfile.TemporaryDirectory(prefix="c07h_") as tmp:
        path = os.path.join(tmp, "a.pt")
        agent.save_checkpoint(path)
        stamp(agent, 500000)                       # the original moves on: the file must not follow
        new = type(agent).load(path, device="cpu")
        other = A.build(algo, fam, seed=seed + 17, share_encoders=share)
        stamp(other, 900000)
        other.load_checkpoint(path)
    for how, ag in (("load()", new), ("load_checkpoint()", other)):
        got_vals = read_stamps(ag)
        bad = [(k, want_vals[k], got_vals.get(k)) for k in want_vals if got_vals.get(k) != want_vals[k]]
        if bad:
            k, w, g = bad[0]
            det = " (a tensor no state_dict() lists)" if k.split("].", 1)[1] in oracle_all_detached(ag) else ""
            problems.append(f"stamped-roundtrip: after {how} tensor {k}{det} holds {g}, saved {w} ({len(bad)} of {len(want_vals)} differ)")
    # module level: the helper pair alone, from a stamped module into a differently stamped twin
    twin = A.build(algo, fam, seed=seed + 5, share_encoders=share)
    stamp(twin, 7000)
    a_nets, t_nets = A.networks_of(new), A.networks_of(twin)
    for name in sorted(a_nets):
        for mi, (ma, mt) in enumerate(zip(_mods(a_nets[name]), _mods(t_nets[name]))):
            det = get_detached_tensors(ma)
            load_detached_tensors(mt, det)
            back = get_detached_tensors(mt)
            for k, v in det.items():
                if k not in back or not torch.equal(back[k], v):
                    problems.append(f"helper-pair: {name}[{mi}].{k} not written back by load_detached_tensors")
                    break
    return problems, n_det


def oracle_all_detached(agent) -> set:
    import agents as A
    out = set()
    for _, net in A.networks_of(agent).items():
        for m in _mods(net):
            out |= set(oracle_detached_keys(m))
    return out


def synthetic_helper_cases(rng: random.Random) -> list[str]:
    """the rules of Model/HeapCkpt.lean `Mod` on hand-made modules and key sets (expected values computed here,
    independently of the helpers)"""
    from agilerl.utils.algo_utils import get_detached_tensors, load_detached_tensors, remove_compile_prefix
    problems = []

    class Leaf(torch.nn.Module):
        def __init__(self, k):
            super().__init__()
            self.lin = torch.nn.Linear(2, 2)
            self.plain = torch.full((3,), float(k))          # a tensor attribute in no state dict
            self.register_buffer("buf", torch.full((2,), float(k) + 0.5))
            self.note = "not a tensor"

    class Mid(torch.nn.Module):
        def __init__(self, k):
            super().__init__()
            self.leaf = Leaf(k + 1)
            self.inner = torch.nn.ModuleDict({"a": Leaf(k + 2)})
            self.top = torch.full((1,), float(k))

    class Root(torch.nn.Module):
        def __init__(self, k):
            super().__init__()
            self.mid = Mid(k)
            self.head = torch.nn.Linear(2, 1)

    k = rng.randrange(1, 50)
    src, dst = Root(k), Root(k + 100)
    # swap a parameter for a plain tensor two levels down, as TensorDict.to_module does
    w = src.mid.leaf.lin.weight.detach().clone() + 1.0
    del src.mid.leaf.lin._parameters["weight"]
    src.mid.leaf.lin.__dict__["weight"] = w
    want = {"mid.top", "mid.leaf.plain", "mid.inner.a.plain", "mid.leaf.lin.weight"}
    got = get_detached_tensors(src)
    if set(got.keys()) != want:
        problems.append(f"synthetic-nested: get_detached_tensors lists {sorted(got.keys())}, expected {sorted(want)}")
    if set(got.keys()) != set(oracle_detached_keys(src)):
        problems.append("synthetic-nested: get_detached_tensors differs from the independent walk")
    load_detached_tensors(dst, got)            # dst still has `weight` as a registered parameter: getattr finds it
    for key in sorted(want & set(got.keys())):
        pre, _, name = key.rpartition(".")
        cur = getattr(dst.get_submodule(pre), name)
        if not torch.equal(cur.detach(), got[key]):
            problems.append(f"synthetic-nested: {key} not written back (holds {cur.flatten()[:2].tolist()})")
    if torch.equal(dst.mid.leaf.buf, src.mid.leaf.buf) or torch.equal(dst.head.weight, src.head.weight):
        problems.append("synthetic-nested: load_detached_tensors touched a tensor the state dict lists")
    # missing / extra / wrong shape: skipped; missing sub-module: AttributeError; None / {}: nothing
    before = {n: t.detach().clone() for n, t in walker.module_tensors(dst).items()}
    load_detached_tensors(dst, {"mid.top": torch.zeros(4), "mid.nothing": torch.zeros(1), "mid.leaf.note": torch.zeros(1)})
    load_detached_tensors(dst, None)
    load_detached_tensors(dst, {})
    after = walker.module_tensors(dst)
    if any(not torch.equal(before[n], after[n].detach()) for n in before):
        problems.append("synthetic-skip: an entry with another shape / without a tensor target changed the module")
    try:
        load_detached_tensors(dst, {"nowhere.x": torch.zeros(1)})
        problems.append("synthetic-skip: a key whose sub-module does not exist did not raise AttributeError")
    except AttributeError:
        pass
    # remove_compile_prefix: `_orig_mod.` stripped exactly once, other keys kept, order and values kept
    keys = [f"{rng.choice(['enc', 'head_net', 'a.b'])}.{rng.choice(['weight', 'bias'])}{i}" for i in range(rng.randrange(2, 6))]
    comp = OrderedDict((f"_orig_mod.{kk}", i) for i, kk in enumerate(keys))
    out = remove_compile_prefix(comp)
    if list(out.items()) != [(kk, i) for i, kk in enumerate(keys)]:
        problems.append(f"compile-prefix: {list(comp)} -> {list(out)}, expected {keys}")
    plain = OrderedDict((kk, i) for i, kk in enumerate(keys))
    out = remove_compile_prefix(plain)
    if list(out.items()) != list(plain.items()):
        problems.append(f"compile-prefix: keys without the prefix changed: {list(plain)} -> {list(out)}")
    nested = OrderedDict([("_orig_mod._orig_mod.w", 1), ("_orig_mod.x._orig_mod", 2)])
    out = remove_compile_prefix(nested)
    if list(out.items()) != [("_orig_mod.w", 1), ("x._orig_mod", 2)]:
        problems.append(f"compile-prefix: only the FIRST component is stripped, got {list(out)}")
    return problems


def run_helpers(chk: Check) -> None:
    cases = list(HELPER_CASES)
    if chk.tier == "quick":
        fixed = [c for c in cases if c[:2] in (("DDPG", "vector"), ("RainbowDQN", "vector"), ("NeuralUCB", "vector"), ("PPO", "dict"))]
        rest = [c for c in cases if c not in fixed]
        cases = fixed + chk.rng.sample(rest, 2)
    import agents as A
    n = 0
    for algo, fam, share in cases:
        if not A.supported(algo, fam) or A.known_broken(algo, fam):
            continue
        seed = chk.rng.randrange(1 << 16)
        problems, n_det = helper_case(algo, fam, share, seed)
        n += 1
        chk.case(["helpers", algo, fam, share, seed], nontrivial=n_det > 0,
                 sample={"suite": "helpers", "algo": algo, "family": fam, "share_encoders": share, "detached": n_det},
                 tags=["helpers", f"algo-{algo}", f"obs-{fam}"] + (["detached"] if n_det else []))
        if problems:
            chk.violation(f"helpers {algo}/{fam}/share={share}: {problems[0]}",
                          {"suite": "helpers", "algo": algo, "family": fam, "share": share, "seed": seed,
                           "problems": problems[:8], "theorems": chk.gate.get("theorems")})
    sseed = chk.rng.randrange(1 << 16)
    problems = synthetic_helper_cases(random.Random(sseed))
    n += 1
    chk.case(["helpers", "synthetic", sseed], nontrivial=True, sample={"suite": "helpers", "synthetic": sseed}, tags=["helpers", "synthetic"])
    if problems:
        chk.violation(f"helpers synthetic: {problems[0]}", {"suite": "helpers", "synthetic": sseed, "problems": problems[:8]})
    chk.suite("checkpoint-helpers", n, 0)



def kind_of(problem: str) -> str:
    return problem.split(":")[0]


def run(chk: Check) -> None:
    chk.rule = ("pre-save histories of learn / mutate(kind) / append / act / reclone / restore(load|inplace|rollback: "
                "an earlier save+load generation, after which the restored agent and the never-restored original go "
                "through the rest of the history in lock-step) on real agents of all eleven "
                "algorithms (tiny networks; share_encoders on and off; RSNorm-wrapped variants), then save_checkpoint "
                "and both load paths; distinct = distinct (algo, family, share_encoders, wrapper, seed, history); "
                "non-trivial = history contains an architecture or hyper-parameter mutation or leaves optimizer state")
    chk.assumptions = ["the walker reaches every tensor of every network (also those no state_dict lists), every "
                       "optimizer state entry and every non-evolvable attribute reported by inspect_attributes",
                       "torch CPU kernels are deterministic for identical inputs and seeds",
                       "the pre-save history is produced by the library's own learn / Mutations / clone"]
    cases = case_list(chk)
    ndiff = 0
    for case in cases:
        algo, fam, share, wrapper, seed, ops = case
        t_case = time.time()
        res = run_case(chk, case)
        if os.environ.get("C07_TIMING"):
            print(f"  {algo}/{fam}/{share}/{wrapper} ops={len(ops)} {time.time() - t_case:.1f}s problems={len(res['problems'])}")
        nontriv = any(o[0] in ("mutate", "learn") for o in ops)
        chk.case([algo, fam, share, wrapper, seed, ops], nontrivial=nontriv,
                 sample={"algo": algo, "family": fam, "share_encoders": share, "wrapper": wrapper, "ops": ops[:6]},
                 tags=res["tags"] + [f"algo-{algo}", f"obs-{fam}"] + ([f"wrapper-{wrapper_spec(wrapper)[0]}"] + (["wrapper-options"] if ":" in wrapper else []) if wrapper else []))
        if res["problems"] or res["diff"] is not None:
            ndiff += res["diff"] is not None
            report(chk, case, res)
    chk.suite("checkpoint-roundtrips", len(cases), ndiff)
    run_helpers(chk)
    if chk.tier == "thorough":
        selftest(chk)


def pre_gate(chk: Check) -> None:
    """Regenerate lean/Gen/CkptGen.lean from the source text of the tree under test (before the Lean gate): the rule
    table of `get_checkpoint_dict` / `inspect_attributes`, the guarded steps of `load_checkpoint` / `load` and the
    wrapper's dict-merge order (py2lean_ckpt.py), and re-check `generated tables = model tables`
    (Proofs/CkptGenEq.lean) and the C07 theorems restated with the generated table (Props/C07.lean).  A rejected
    source or an equality that stops checking is a gate problem naming the declaration; the round-trip suite below
    (both load paths, wrapped agents with two generations, attributes that are None at save time) then supplies
    the failing history."""
    import common
    import py2lean_ckpt
    import py2lean_ckpthelp
    # both generated files are imported by Props.C07: bring the second one up to date BEFORE the first gate builds
    # (a stale file from a run on another tree would otherwise be blamed on the first translator)
    try:
        text, _ = py2lean_ckpthelp.translate(common.REPO)
        py2lean_ckpthelp.write_if_changed(text, common.LEAN_DIR / "Gen" / "CkptHelpGen.lean")
    except py2lean_ckpthelp.Unsupported:
        pass                      # reported by its own gate below
    common.translation_gate(chk, py2lean_ckpt, "Gen/CkptGen.lean", ["Gen.CkptGen", "Proofs.CkptGenEq", "Props.C07"],
                            "checkpoint rule table, load phases and wrapper merge order")
    # the helper BODIES (get_detached_tensors / load_detached_tensors / remove_compile_prefix): generated = model
    # (Proofs/CkptHelpGenEq.lean), C07_source_translation_helpers_* (Props/C07.lean); the `checkpoint-helpers`
    # suite supplies the failing module when an equality stops checking
    common.translation_gate(chk, py2lean_ckpthelp, "Gen/CkptHelpGen.lean",
                            ["Gen.CkptHelpGen", "Proofs.CkptHelpGenEq", "Props.C07"],
                            "get_detached_tensors / load_detached_tensors / remove_compile_prefix")


# ------------------------------------------------------------------------------------ self-test
def selftest(chk: Check) -> None:
    """seeded faults in the checkpoint code must be noticed"""
    from agilerl.algorithms.core import base
    from agilerl.algorithms.core.wrappers import OptimizerWrapper
    case = ("DDPG", "vector", False, None, 5, [["learn", 1], ["mutate", "arch", 3], ["mutate", "rl_hp", 4], ["learn", 2]])
    caught = []

    def expect(name):
        res = run_case(chk, case)
        if not res["problems"] and res["diff"] is None:
            raise InfraError(f"C07 self-test: seeded fault '{name}' was not noticed")
        caught.append(name)

    clean = run_case(chk, case)
    if clean["problems"] or clean["diff"] is not None:
        chk.notes.append("self-test skipped: the base case already fails on this tree")
        return
    # 1. optimizer state not loaded
    orig_lsd = OptimizerWrapper.load_state_dict
    OptimizerWrapper.load_state_dict = lambda self, sd: None
    try:
        expect("optimizer state not loaded")
    finally:
        OptimizerWrapper.load_state_dict = orig_lsd
    # 2. a hyper-parameter dropped from the checkpoint dict
    orig_gcd = base.get_checkpoint_dict

    def drop_hp(agent):
        d = orig_gcd(agent)
        d.pop("tau", None)
        return d
    base.get_checkpoint_dict = drop_hp
    try:
        case_tau = (case[0], case[1], case[2], case[3], case[4], case[5])
        # make tau differ from the constructor default before saving
        orig_apply = Case.apply

        def apply_tau(self, agent, op):
            agent = orig_apply(self, agent, op)
            inner_of(agent).tau = 0.125
            return agent
        Case.apply = apply_tau
        try:
            expect("hyper-parameter dropped from the checkpoint")
        finally:
            Case.apply = orig_apply
    finally:
        base.get_checkpoint_dict = orig_gcd
    # 3. init_dict of the unmutated architecture saved
    def stale_init(agent):
        d = orig_gcd(agent)
        import agents as A
        ref = A.build("DDPG", "vector", seed=0, share_encoders=False)
        for name in d["network_info"]["network_names"]:
            d["network_info"]["modules"][f"{name}_init_dict"] = getattr(ref, name).init_dict
        return d
    base.get_checkpoint_dict = stale_init
    try:
        expect("init_dict of the unmutated architecture saved")
    finally:
        base.get_checkpoint_dict = orig_gcd
    # 4. target network not restored (re-synchronised with the online network instead)
    orig_lc, orig_load = base.EvolvableAlgorithm.load_checkpoint, base.EvolvableAlgorithm.load
    raw_load = base.EvolvableAlgorithm.__dict__["load"]      # the classmethod object itself (restoring the BOUND
    #                                                          method would pin `cls` to the abstract base class)

    def lc(self, path):
        orig_lc(self, path)
        self.actor_target.load_state_dict(self.actor.state_dict())

    def ld(cls, path, *a, **k):
        ag = orig_load.__func__(cls, path, *a, **k)
        ag.actor_target.load_state_dict(ag.actor.state_dict())
        return ag
    base.EvolvableAlgorithm.load_checkpoint = lc
    base.EvolvableAlgorithm.load = classmethod(ld)
    try:
        expect("target network re-synchronised instead of restored")
    finally:
        base.EvolvableAlgorithm.load_checkpoint = orig_lc
        base.EvolvableAlgorithm.load = raw_load
    # 5. detached tensors (critic's copy of the shared encoder) not written back
    if hasattr(base, "load_detached_tensors"):
        orig_ldt = base.load_detached_tensors
        base.load_detached_tensors = lambda module, detached: None
        case = ("PPO", "vector", True, None, 6, [["learn", 1], ["learn", 2]])
        try:
            if not run_case(chk, case)["problems"]:
                raise InfraError("C07 self-test: seeded fault 'detached tensors not restored' was not noticed")
            caught.append("detached tensors not restored")
        finally:
            base.load_detached_tensors = orig_ldt
    # 6. a constructor option of the wrapper's statistics object lost in pickling (non-default epsilon)
    import agilerl.wrappers.agent as W
    wcase = ("DQN", "vector", None, 'RSNorm:{"epsilon": 0.25}', 7, [["act", 3], ["learn", 1]])
    if not run_case(chk, wcase)["problems"]:
        W.RunningMeanStd.__getstate__ = lambda self: {k: v for k, v in self.__dict__.items() if k != "epsilon"}
        W.RunningMeanStd.__setstate__ = lambda self, st: (self.__init__(), self.__dict__.update(st))[1]
        try:
            if not run_case(chk, wcase)["problems"]:
                raise InfraError("C07 self-test: seeded fault 'wrapper statistics option lost in pickling' was not noticed")
            caught.append("wrapper statistics option lost in pickling")
        finally:
            del W.RunningMeanStd.__getstate__
            del W.RunningMeanStd.__setstate__
    # 7. helper body: only the root module's tensors collected (no recursion into sub-modules)
    if hasattr(base, "get_detached_tensors"):
        orig_gdt = base.get_detached_tensors

        def root_only(module):
            return {k: v for k, v in orig_gdt(module).items() if "." not in k}
        base.get_detached_tensors = root_only
        try:
            if not helper_case("DDPG", "vector", True, 3)[0]:
                raise InfraError("C07 self-test: seeded fault 'detached tensors of sub-modules not collected' was not noticed "
                                 "by the checkpoint-helpers suite")
            caught.append("detached tensors of sub-modules not collected")
        finally:
            base.get_detached_tensors = orig_gdt
    chk.notes.append("self-test: detected " + "; ".join(caught))


def replay(chk: Check, path: str) -> int:
    c = json.loads(open(path).read())
    c = c.get("replay", c)
    if c.get("suite") == "helpers":
        if "synthetic" in c:
            problems = synthetic_helper_cases(random.Random(c["synthetic"]))
        else:
            problems, _ = helper_case(c["algo"], c["family"], c.get("share"), c["seed"])
        print(json.dumps({"problems": problems}, indent=1, default=str))
        if problems:
            print(f"VIOLATION property=C07 replay={path}")
            return 1
        return 0
    res = run_case(chk, (c["algo"], c["family"], c.get("share"), c.get("wrapper"), c["seed"], c["ops"]))
    print(json.dumps({k: res[k] for k in ("diff", "problems", "impl", "model", "unrepaired_match")}, indent=1, default=str))
    if res["problems"]:
        print(f"VIOLATION property=C07 replay={path}")
        return 1
    if res["diff"] is not None:
        print(f"VIOLATION property=C07 replay={path} no-failing-input-found")
        return 1
    return 0
