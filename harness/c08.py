"""
C08 — value-based learning uses the Bellman target and really tracks its target network.

Three suites against the real agents (tiny networks from agents.py), Model/Bellman.lean behind the
driver, and an oracle that states the property on the implementation's own tensors:

* loss     : the real online/target networks are evaluated on the batch BEFORE `learn`, feeding them
             exactly what the learner feeds them (preprocess_observation, target-policy noise drawn
             from the same torch seed, stacked critic inputs for the multi-agent learners); the
             values (r, gamma, d, q'(s'), q(s,a)) go to the model as exact dyadics; the model's batch
             loss is compared with what `learn` returns (relative 1e-5: float32 reduction order).
             CQN returns cql + 0.5*TD: the CQL term is computed by the harness from the same
             forward pass and handed to the model as an opaque input.  DDPG/TD3/MADDPG/MATD3
             return (actor_loss, critic_loss): the critic loss is compared.
* (loss suite, actor-critic learners: Box action spaces with bounds NOT symmetric around zero ([0,1]^n and per-dimension
             bounds, n >= 3 because the critics layer-normalise the action vector); the reference clips the smoothed
             target action to the TRUE [low, high] itself instead of calling the learner's clamp.  Double-Q learners:
             the online network is pushed away from its target (pretraining + seeded weight noise) until the two greedy
             actions differ on a live row; the reference gathers the TARGET's value at the ONLINE argmax.)
* (loss and meta suites: every tensor of the experience batch is fingerprinted around learn() — a learn step must
             not change its inputs —, learn() is called a second time on the SAME batch objects and its loss compared
             with the reference from a pristine copy, and cooperative multi-agent batches hand ONE reward tensor
             object to all agents.  The metamorphic pair is two agents built and trained twice from the same seeds;
             clone() is not involved there.)
* (multi-agent batches give every agent its OWN done flags — one agent done, another not, on the same row —
             in the loss and the meta suite; the meta suite then judges agent by agent)
* meta     : metamorphic and exact.  Two identical copies of an agent (clones of one parent) learn
             from batch and batch' = batch with next_obs replaced on rows with done = 1 only, under
             identical seeds  =>  every weight of every network bit-equal afterwards, equal loss.
             RainbowDQN (plain, per, nstep, per_nstep; combined_reward on/off) gets INDEPENDENT 1-step and
             n-step done flags (rows with done1=0/doneN=1 and vice versa); the 1-step next_obs is replaced on
             done1=1 rows only, the n-step next_obs on doneN=1 rows only.  Its categorical projection
             re-normalises in float32, so loss, new priorities, clipped gradient (1e-5 of its largest entry)
             and weights (2e-6 on well-conditioned entries) are compared with tolerances 30x above the
             measured noise; live-row controls show changes orders of magnitude larger.
* shapes   : (round 5) `Gen/BellmanShapeGen.lean` (harness/py2lean_bellmanshape.py) gives the SHAPES of prediction, target and
             element-wise loss of every loss call under torch broadcasting; Props/C08.lean proves them `(B, 1)` for the batch
             layout the buffers deliver.  Here every learner runs with B in {1, 2, 5} rows and A in {1, 2, 3} actions on a
             batch from the library's own Transition + ReplayBuffer / MultiAgentReplayBuffer: the field shapes (the
             theorem's hypotheses) and the shapes of the two tensors entering every `F.mse_loss` call (hooked; nn.MSELoss
             goes through it) must be `(B, 1)`, the number of calls that of the translation.  Then reward / done are handed
             over FLAT `(B,)`: error or silent broadcast is recorded in the notes and compared with the Lean witness
             `(B, B)` (a difference is a model disagreement, not a violation: the buffers never deliver that layout).
* track    : consecutive learn steps; online/target tensors are snapshotted around `learn` with
             walker.module_tensors (NOT parameters(): detached tensors are seen) and
             target_after is compared with blend(tau, online_after, target_before) (1e-6) on steps
             where the model's delay schedule fires, with "unchanged" otherwise; the model follows a
             sample of the weights through `bellman init/step`.  Also directly after clone(), after
             learn -> one pass of Mutations.mutation() of EVERY kind (none, parameter, activation, rl_hp,
             architecture; unit probability vectors) -> learn, for every learner, always on the LIVE
             target modules (re-read from the agent after the mutation), and after a checkpoint round trip,
             the clone of a TRAINED agent must carry the PARENT's target (and online) tensors and its first step is
             judged against the parent's target as "previous"; a sweep sets every constructor option of every
             learner (read from the signatures) to a non-default value, one at a time; the set of trainable
             parameters must not shrink across learn steps;
             with tau = 1 x policy_freq in {2,3} x >= 4 steps for every learner (targets bit-unchanged between
             delay steps), and after every step no target tensor may share storage with an online parameter, and n direct soft_update() calls
             against the closed form.  "Targets REALLY move": after a firing step with tau > 0 a
             target whose online network differs from it must have changed.

Source translation (`pre_gate`, before the Lean gate): `py2lean_bellman.py` translates, from the source text of the seven
learner files of the tree under test, every `soft_update` (roles of the two zipped networks, `tau` / `1 - tau`), the
soft-update calls of `learn` (which (online, target) pairs, under which policy-delay condition, over the symbolically
executed `learn_counter`) and the Bellman target handed to the loss (backwards from `criterion(q, y)`; network outputs are
named inputs) into `lean/Gen/BellmanGen.lean`; `Proofs/BellmanGenEq.lean` proves the generated definitions equal to
`blend`, `fires`, `runTargets`, `y` of the model and `Props/C08.lean` restates the theorems over them
(`C08_source_translation_*`).  If the translator rejects the source or those proofs stop checking, that is a gate problem
naming the broken equality; the loss / meta / track suites below then supply the failing input.
"""
from __future__ import annotations

import copy
import inspect
import json
import os
import tempfile
from collections import OrderedDict
from fractions import Fraction

import numpy as np
import torch

import agents
import walker
from common import ROOT, Check, InfraError, ddmin, frac

LOSS_ALGOS = ["DQN", "DQN-double", "CQN", "CQN-double", "DDPG", "TD3", "MADDPG", "MATD3"]
TRACK_ALGOS = ["DQN", "DQN-double", "CQN", "RainbowDQN", "DDPG", "TD3", "MADDPG", "MATD3"]
DELAYED = ("DDPG", "TD3", "MATD3")
MUT_KINDS = ("none", "param", "act", "rl_hp", "arch")
# the multi-agent learners cost ~5 s per case (construction, clone): the quick tier draws them less often
SINGLE_LOSS = [a for a in LOSS_ALGOS if not a.startswith("MA")]
SINGLE_TRACK = [a for a in TRACK_ALGOS if not a.startswith("MA")]
FINDING_SHARED_ENCODER = "C08-shared-encoder-target-hard-copy"
FINDING_INPUT_ACTIONS = "C08-learn-overwrites-batch-actions"
REL_TOL = 1e-5
BLEND_TOL = 1e-6


# ----------------------------------------------------------------------------- small helpers
def base_algo(name: str) -> str:
    return name.split("-")[0]


def build_agent(case: dict):
    """the real agent of a case (deterministic in case['seed'])"""
    algo = base_algo(case["algo"])
    kw = {}
    if case["algo"].endswith("-double"):
        kw["double"] = True
    if "tau" in case:
        kw["tau"] = float(case["tau"])
    if "gamma" in case:
        kw["gamma"] = float(case["gamma"])
    if algo in DELAYED and "policy_freq" in case:
        kw["policy_freq"] = int(case["policy_freq"])
    if algo in ("DDPG", "TD3") and case.get("share") is not None:
        kw["share_encoders"] = bool(case["share"])
    if algo in ("MADDPG", "MATD3") and case.get("action_kind"):
        kw["action_kind"] = case["action_kind"]
    if algo == "RainbowDQN" and "n_step" in case:
        kw["n_step"] = int(case["n_step"])
    if algo == "RainbowDQN" and case.get("combined_reward") is not None:
        kw["combined_reward"] = bool(case["combined_reward"])
    if case.get("prelude") == "mut-rl_hp":
        kw["hp_config"] = agents.default_hp_config(algo)     # something for the rl_hp mutation to mutate
    sig = inspect.signature(agents.algo_class(algo).__init__).parameters
    for k, v in (case.get("opts") or {}).items():
        if k in sig:
            kw[k] = v
    with box_bounds(case.get("bounds", "sym")):
        return agents.build(algo, case.get("family", "vector"), seed=int(case["seed"]), **kw)


#: non-default values of the constructor options of the learners (one at a time in the option sweep).
#: Options that are not listed and not skipped are reported in the evidence notes.
OPTION_VALUES = {
    "double": [True], "normalize_images": [False], "tau": [1.0], "policy_freq": [1, 3], "share_encoders": [False, True],
    "n_step": [1, 5], "combined_reward": [True], "noise_std": [0.1], "num_atoms": [7], "beta": [0.7], "prior_eps": [1e-3],
    "O_U_noise": [False], "expl_noise": [0.3], "vect_noise_dim": [2], "mean_noise": [0.1], "theta": [0.3], "dt": [0.05],
    "batch_size": [4], "learn_step": [3], "lr": [1e-2], "lr_actor": [1e-2], "lr_critic": [1e-4], "gamma": [0.5],
}
OPTION_SKIP = {"self", "observation_space", "action_space", "observation_spaces", "action_spaces", "agent_ids", "index",
               "hp_config", "net_config", "device", "accelerator", "actor_network", "critic_network", "actor_networks",
               "critic_networks", "mut", "wrap", "cudagraphs", "torch_compiler", "v_min", "v_max"}


def option_sweep(algo: str) -> tuple[list[tuple[str, object]], list[str]]:
    """(option, non-default value) pairs read from the constructor's signature, and the options not covered"""
    sig = inspect.signature(agents.algo_class(algo).__init__).parameters
    pairs, unknown = [], []
    for name, p in sig.items():
        if name in OPTION_SKIP:
            continue
        if name not in OPTION_VALUES:
            unknown.append(name)
            continue
        for v in OPTION_VALUES[name]:
            if p.default is inspect.Parameter.empty or v != p.default:
                pairs.append((name, v))
    return pairs, unknown


class box_bounds:
    """build agents over Box action spaces that are NOT symmetric around zero: 'unit' = [0, 1] in every
    dimension, 'perdim' = low (-2, 0.5, 0, -1), high (0.5, 1, 3, 2) (first n dimensions), 'sym3' = [-1, 1]^n; n = 3 (4 for other_0).  agents.py only offers
    [-1, 1]; its act_space() is swapped for the duration of the construction."""

    def __init__(self, which: str):
        self.which = which

    def __enter__(self):
        self.orig = agents.act_space
        if self.which in (None, "sym"):
            return self
        which, orig = self.which, self.orig

        def act_space(kind, variant=0):
            from gymnasium import spaces
            if kind != "box":
                return orig(kind, variant)
            # three (four) dimensions: the critics layer-normalise the action vector, which for two dimensions
            # keeps nothing but the order of the two components
            n = 3 if variant == 0 else 4
            if which == "unit":
                return spaces.Box(0.0, 1.0, (n,), np.float32)
            if which == "perdim":
                return spaces.Box(np.array([-2.0, 0.5, 0.0, -1.0][:n], np.float32),
                                  np.array([0.5, 1.0, 3.0, 2.0][:n], np.float32), dtype=np.float32)
            if which == "sym3":
                return spaces.Box(-1.0, 1.0, (n,), np.float32)
            raise InfraError(f"unknown bounds {which!r}")
        agents.act_space = act_space
        return self

    def __exit__(self, *exc):
        agents.act_space = self.orig
        return False


def unwrap(m):
    return getattr(m, "_orig_mod", m)


def weights(m) -> "OrderedDict[str, torch.Tensor]":
    """every float tensor a module computes with, except registered buffers (noise samples,
    running statistics): parameters AND detached plain-tensor stand-ins for parameters"""
    m = unwrap(m)
    bufs = {n for n, _ in m.named_buffers()}
    return OrderedDict((k, v) for k, v in walker.module_tensors(m).items()
                       if k not in bufs and v.is_floating_point())


def snap(m) -> "OrderedDict[str, torch.Tensor]":
    return OrderedDict((k, v.detach().clone()) for k, v in weights(m).items())


def target_pairs(agent) -> list[tuple[str, torch.nn.Module, torch.nn.Module]]:
    """(label, online module, target module) read from the live registry: every network group's
    eval network paired with each of its shared networks (lists are flattened agent by agent)"""
    out = []
    for g in agent.registry.groups:
        if g.shared is None:
            continue
        shared = g.shared if isinstance(g.shared, (list, tuple)) else [g.shared]
        ev = getattr(agent, g.eval)
        for sname in shared:
            sh = getattr(agent, sname)
            if isinstance(ev, list):
                for i, (e, s) in enumerate(zip(ev, sh)):
                    out.append((f"{sname}[{i}]", e, s))
            else:
                out.append((sname, ev, sh))
    return out


def all_weights(agent) -> "OrderedDict[str, torch.Tensor]":
    out = OrderedDict()
    for name, obj in sorted(agents.networks_of(agent).items()):
        mods = obj if isinstance(obj, list) else [obj]
        for i, m in enumerate(mods):
            for k, v in weights(m).items():
                out[f"{name}[{i}].{k}"] = v.detach().clone()
    return out


def f32(x) -> float:
    return float(x)


def rat_to_float(s: str) -> float:
    return float(Fraction(s))


def close(a: float, b: float, rel=REL_TOL, absol=1e-7) -> bool:
    return abs(a - b) <= absol + rel * max(abs(a), abs(b))


def unpack(batch):
    form = agents.batch_form(batch)
    if form in ("tensordict", "dict"):
        return batch["obs"], batch["action"], batch["reward"], batch["next_obs"], batch["done"]
    return batch[0], batch[1], batch[2], batch[3], batch[4]


def obs_leaves(x) -> list[torch.Tensor]:
    """the tensors of an observation batch (plain tensor, dict / TensorDict, tuple), in a fixed order"""
    if isinstance(x, torch.Tensor):
        return [x]
    if isinstance(x, (tuple, list)):
        return [t for e in x for t in obs_leaves(e)]
    keys = sorted(x.keys())
    return [t for k in keys for t in obs_leaves(x[k])]


def perturb_next(batch, donor, rows: list[int], multi: bool) -> None:
    """next_obs[rows] := donor's next_obs[rows], in place, every member of the observation"""
    if not rows:
        return
    idx = torch.as_tensor(rows, dtype=torch.long)
    if multi:
        for aid in batch[3]:
            for a, b in zip(obs_leaves(batch[3][aid]), obs_leaves(donor[3][aid])):
                a[idx] = b[idx]
    else:
        for a, b in zip(obs_leaves(unpack(batch)[3]), obs_leaves(unpack(donor)[3])):
            a[idx] = b[idx]


def batch_leaves(x, path: str = "batch") -> list[tuple[str, torch.Tensor]]:
    """every tensor of an experience batch (TensorDict / dict / tuple / list, nested), with its path"""
    if isinstance(x, torch.Tensor):
        return [(path, x)]
    if isinstance(x, (tuple, list)):
        return [t for i, e in enumerate(x) for t in batch_leaves(e, f"{path}[{i}]")]
    if hasattr(x, "keys"):
        return [t for k in sorted(x.keys(), key=str) for t in batch_leaves(x[k], f"{path}[{k!r}]")]
    return []


def fingerprint(batch) -> dict:
    return {p: (tuple(t.shape), str(t.dtype), walker.tensor_value(t)) for p, t in batch_leaves(batch)}


def changed_inputs(before: dict, batch) -> list[str]:
    now = fingerprint(batch)
    return [p for p in before if now.get(p) != before[p]] + [p for p in now if p not in before]


def gen_dones(rng, n: int) -> list[int]:
    """done flags with at least one done row and one live row"""
    while True:
        d = [1 if rng.random() < 0.4 else 0 for _ in range(n)]
        if 0 < sum(d) < n:
            return d


def batch_size_of(agent) -> int:
    return int(agent.batch_size)


def pretrain(agent, case, steps: int) -> None:
    algo = base_algo(case["algo"])
    for i in range(steps):
        agents.learn_once(agent, algo, case.get("family", "vector"), seed=int(case["seed"]) + 101 + i,
                          variant=case.get("variant", "plain"))


# ----------------------------------------------------------------------------- loss suite
def eval_networks(agent, case, batch, seed: int):
    """what the learner will compute from its networks on this batch — evaluated now, before learn.
    Returns (model op line, python-float definition of the loss(es) the learner returns, rows info)"""
    name = case["algo"]
    algo = base_algo(name)
    gamma = float(agent.gamma)
    g = frac(gamma)
    with torch.no_grad():
        if algo in ("DQN", "CQN"):
            obs, act, rew, nxt, done = unpack(batch)
            o = agent.preprocess_observation(obs)
            n = agent.preprocess_observation(nxt)
            q_all = agent.actor(o)
            a = act if act.ndim > 1 else act.unsqueeze(-1)
            q_sa = q_all.gather(1, a.long()).reshape(-1)
            on = agent.actor(n)
            tg = agent.actor_target(n)
            r, d = rew.reshape(-1), done.reshape(-1)
            dbl = bool(agent.double)
            k = int(tg.shape[1])
            nums = []
            for j in range(len(r)):
                nums += [f32(r[j]), f32(d[j]), f32(q_sa[j])]
                if dbl:
                    nums += [f32(v) for v in on[j]]
                nums += [f32(v) for v in tg[j]]
            # the statement itself, in float64
            if dbl:
                sel = tg.double().gather(1, on.argmax(dim=1, keepdim=True)).reshape(-1)
            else:
                sel = tg.double().max(dim=1)[0]
            yj = r.double() + gamma * (1 - d.double()) * sel
            td = float(((q_sa.double() - yj) ** 2).mean())
            info = {"rows": len(r), "done": int(d.sum()),
                    "argmax_differs": int(((on.argmax(dim=1) != tg.argmax(dim=1)) & (d == 0)).sum())}
            if algo == "CQN":
                cql = float(torch.logsumexp(q_all, dim=1).mean() - q_all.mean())
                line = f"bellman loss cqn {g} {int(dbl)} {frac(cql)} {k} " + " ".join(map(frac, nums))
                return line, [cql + 0.5 * td], info
            kind = "double" if dbl else "dqn"
            return f"bellman loss {kind} {g} {k} " + " ".join(map(frac, nums)), [td], info
        if algo in ("DDPG", "TD3"):
            obs, act, rew, nxt, done = unpack(batch)
            o = agent.preprocess_observation(obs)
            n = agent.preprocess_observation(nxt)
            crit = [agent.critic] if algo == "DDPG" else [agent.critic_1, agent.critic_2]
            crit_t = [agent.critic_target] if algo == "DDPG" else [agent.critic_target_1, agent.critic_target_2]
            qs = [c(o, act).reshape(-1) for c in crit]
            agents.seed_all(seed)                                  # the draw learn() will make
            na = agent.actor_target(n)
            sig = inspect.signature(agent.learn).parameters        # learn(experiences, noise_clip=0.5, policy_noise=0.2)
            policy_noise, noise_clip = sig["policy_noise"].default, sig["noise_clip"].default
            noise = torch.empty_like(act).normal_(0, policy_noise)  # actions.data.normal_(0, policy_noise)
            noise = torch.clamp(noise, -noise_clip, noise_clip)
            # what the statement needs: the target policy's smoothed action INSIDE the action space, i.e. clipped
            # to the true per-dimension [low, high] of the Box (not whatever clamp the code happens to call)
            low = torch.as_tensor(np.asarray(agent.action_space.low, dtype=np.float32))
            high = torch.as_tensor(np.asarray(agent.action_space.high, dtype=np.float32))
            raw = na + noise
            na = torch.max(torch.min(raw, high), low).to(raw.dtype)
            live = (done.reshape(-1) == 0)
            crossed = int(((raw < low) | (raw > high))[live].sum()) if bool(live.any()) else 0
            between = int((((raw < low) & (raw > -high)) | ((raw > high) & (raw < -low)))[live].sum()) if bool(live.any()) else 0
            qn = [c(n, na).reshape(-1) for c in crit_t]
            r, d = rew.reshape(-1), done.reshape(-1)
            nums = []
            for j in range(len(r)):
                nums += [f32(r[j]), f32(d[j])] + [f32(q[j]) for q in qs] + [f32(q[j]) for q in qn]
            sel = qn[0].double() if algo == "DDPG" else torch.min(qn[0], qn[1]).double()
            yj = r.double() + gamma * (1 - d.double()) * sel
            td = sum(float(((q.double() - yj) ** 2).mean()) for q in qs)
            kind = "ddpg" if algo == "DDPG" else "td3"
            return f"bellman loss {kind} {g} " + " ".join(map(frac, nums)), [td], \
                {"rows": len(r), "done": int(d.sum()), "crossed": crossed, "asym_sensitive": between}
        if algo in ("MADDPG", "MATD3"):
            states, actions, rewards, next_states, dones = batch
            st = agent.preprocess_observation(states)
            nx = agent.preprocess_observation(next_states)
            agents.seed_all(seed)                                  # Gumbel noise of discrete target actors
            next_actions = [agent.actor_targets[i](nx[aid]) for i, aid in enumerate(agent.agent_ids)]
            ss = agent.stack_critic_observations(st)
            sn = agent.stack_critic_observations(nx)
            sa = torch.cat(list(actions.values()), dim=1)
            sna = torch.cat(next_actions, dim=1)
            nums, defs = [], []
            nrows = 0
            for i, aid in enumerate(agent.agent_ids):
                if algo == "MADDPG":
                    qs = [agent.critics[i](ss, sa).reshape(-1)]
                    qn = [agent.critic_targets[i](sn, sna).reshape(-1)]
                else:
                    qs = [agent.critics_1[i](ss, sa).reshape(-1), agent.critics_2[i](ss, sa).reshape(-1)]
                    qn = [agent.critic_targets_1[i](sn, sna).reshape(-1),
                          agent.critic_targets_2[i](sn, sna).reshape(-1)]
                r, d = rewards[aid].reshape(-1), dones[aid].reshape(-1)
                nrows = len(r)
                for j in range(nrows):
                    nums += [f32(r[j]), f32(d[j])] + [f32(q[j]) for q in qs] + [f32(q[j]) for q in qn]
                sel = qn[0].double() if algo == "MADDPG" else torch.min(qn[0], qn[1]).double()
                yj = r.double() + gamma * (1 - d.double()) * sel
                defs.append(sum(float(((q.double() - yj) ** 2).mean()) for q in qs))
            kind = "maddpg" if algo == "MADDPG" else "matd3"
            line = f"bellman loss {kind} {g} {len(agent.agent_ids)} {nrows} " + " ".join(map(frac, nums))
            return line, defs, {"rows": nrows, "done": int(dones[agent.agent_ids[0]].sum())}
    raise KeyError(name)


def returned_losses(algo: str, agent, ret) -> list[float]:
    """the comparable part of what learn() returned"""
    if algo in ("DQN", "CQN"):
        return [float(ret)]
    if algo in ("DDPG", "TD3"):
        return [float(ret[1])]
    if algo in ("MADDPG", "MATD3"):
        return [float(ret[aid][1]) for aid in agent.agent_ids]
    if algo == "RainbowDQN":
        return [float(ret[0])]
    raise KeyError(algo)


def make_case_batch(agent, case, seed_offset: int = 0, dones=None):
    algo = base_algo(case["algo"])
    batch = agents.make_batch(agent, algo, case.get("family", "vector"), n=batch_size_of(agent),
                              seed=int(case["seed"]) + 17 + seed_offset,
                              dones=case["dones"] if dones is None else dones,
                              variant=case.get("variant", "plain"))
    if algo in ("MADDPG", "MATD3") and case.get("ma_dones"):
        # agents that finish at different times: every agent gets its OWN done column
        old = batch[4]
        new = {aid: torch.as_tensor(case["ma_dones"][aid], dtype=old[aid].dtype).reshape(old[aid].shape)
               for aid in old}
        batch = agents.TupleBatch((batch[0], batch[1], batch[2], batch[3], new), form="ma_tuple")
    if algo in ("MADDPG", "MATD3") and case.get("team_reward"):
        # a cooperative task: every agent is handed one and the same reward tensor OBJECT
        shared = batch[2][list(batch[2].keys())[0]]
        batch = agents.TupleBatch((batch[0], batch[1], {aid: shared for aid in batch[2]}, batch[3], batch[4]),
                                  form="ma_tuple")
    return batch


def diverge_online(agent, case, batch) -> int:
    """make the online network differ from its target the way training does, only faster: seeded Gaussian
    noise on the online weights (the target keeps its values), doubled until the greedy actions of the two
    networks differ on at least one live row of the batch.  Returns the number of such rows."""
    if not case.get("diverge") or base_algo(case["algo"]) not in ("DQN", "CQN"):
        return 0
    gen = torch.Generator().manual_seed(int(case["seed"]) ^ 0xD1F)
    _obs, _act, _rew, nxt, done = unpack(batch)
    live = done.reshape(-1) == 0
    sigma, rows = 0.15, 0
    for _ in range(6):
        with torch.no_grad():
            for p in unwrap(agent.actor).parameters():
                p.add_(torch.randn(p.shape, generator=gen) * sigma)
            n = agent.preprocess_observation(nxt)
            rows = int(((agent.actor(n).argmax(dim=1) != agent.actor_target(n).argmax(dim=1)) & live).sum())
        if rows > 0:
            break
        sigma *= 2
    return rows


def other_options(case: dict) -> dict:
    """the same learner constructed with DIFFERENT options: double flipped, other gamma / tau / policy_freq"""
    other = dict(case)
    name = case["algo"]
    if base_algo(name) in ("DQN", "CQN"):
        other["algo"] = base_algo(name) if name.endswith("-double") else base_algo(name) + "-double"
    other["seed"] = int(case["seed"]) + 977
    other["gamma"] = 0.7 if float(case.get("gamma", 0.99)) != 0.7 else 0.8
    other["tau"] = 0.3 if float(case.get("tau", 0.5)) != 0.3 else 0.6
    if base_algo(name) in DELAYED:
        other["policy_freq"] = 3 if int(case.get("policy_freq", 2)) != 3 else 1
    if base_algo(name) == "RainbowDQN":
        other["n_step"] = 5 if int(case.get("n_step", 3)) != 5 else 2
    other.pop("load_into", None)
    return other


def load_into_other(agent, case):
    """save the agent, then restore it (load_checkpoint into an agent built with different constructor options,
    or Algo.load).  "Also directly after checkpoint load": what the restored agent minimises is judged against
    ITS OWN current attributes (agent.double, agent.gamma, ...), whatever they were restored to."""
    algo = base_algo(case["algo"])
    fd, path = tempfile.mkstemp(prefix="c08_", suffix=".pt")
    os.close(fd)
    try:
        agent.save_checkpoint(path)
        if case["load_into"] == "classmethod":
            restored = agents.algo_class(algo).load(path, device="cpu")
        else:
            restored = build_agent(other_options(case))
            restored.load_checkpoint(path)
    finally:
        if os.path.exists(path):
            os.remove(path)
    note = {k: (getattr(agent, k, None), getattr(restored, k, None)) for k in ("double", "gamma", "tau", "policy_freq")
            if hasattr(agent, k)}
    return restored, note


def run_loss_case(chk: Check, case: dict):
    """-> (impl lines, model lines, oracle problems, tags, detail)"""
    algo = base_algo(case["algo"])
    if algo == "RainbowDQN":
        return run_loss_rainbow(chk, case)
    agent = build_agent(case)
    pretrain(agent, case, int(case.get("pretrain", 1)))
    batch = make_case_batch(agent, case)
    diverge_online(agent, case, batch)
    load_note = None
    if case.get("load_into"):
        agent, load_note = load_into_other(agent, case)
    lseed = int(case["seed"]) + 5
    pristine = copy.deepcopy(batch)                 # the batch as the caller handed it over
    before = fingerprint(batch)
    line, defs, info = eval_networks(agent, case, pristine, lseed)
    agents.seed_all(lseed)
    ret = agent.learn(batch)
    got = returned_losses(algo, agent, ret)
    out = chk.driver.run(["reset", line])[1]
    chk.corr["model_lines"] += 1
    problems, findings = [], []
    # a learn step must not change the experiences it was given ...
    touched = changed_inputs(before, batch)
    # ... so that learning again from the SAME batch objects minimises the loss of that batch: the reference is
    # computed from the pristine copy with the networks as they are now
    line2, defs2, _info2 = eval_networks(agent, case, copy.deepcopy(pristine), lseed + 1)
    agents.seed_all(lseed + 1)
    got2 = returned_losses(algo, agent, agent.learn(batch))
    reuse_bad = [i for i, (a, b) in enumerate(zip(got2, defs2)) if not (np.isfinite(a) and close(a, b))]
    touched2 = changed_inputs(before, batch)
    if out in ("bad-op", "reject", "nan"):
        model = None
    else:
        model = [rat_to_float(w) for w in out.split()]
    extra = ""
    if "crossed" in info:
        extra = (f"; Box low {np.asarray(agent.action_space.low).tolist()} high {np.asarray(agent.action_space.high).tolist()}"
                 f", the smoothed target action leaves the box in {info['crossed']} entries of live rows and is clipped "
                 f"to the true bounds by the reference")
    if info.get("argmax_differs") is not None and case["algo"].endswith("-double"):
        extra = (f"; double-Q: target network's value at the ONLINE network's greedy action, the two networks' greedy "
                 f"actions differ on {info['argmax_differs']} live rows")
    for i, (a, b) in enumerate(zip(got, defs)):
        if not (np.isfinite(a) and close(a, b)):
            problems.append(f"{case['algo']}: learn returned loss {a!r} but the definition "
                            f"mean((q - (r + gamma*(1-d)*q'))^2) on the networks' own outputs gives {b!r} (entry {i})"
                            + extra)
    first_ok = not problems
    changed = sorted(set(touched + touched2))
    if changed or (reuse_bad and first_ok):
        parts = []
        if changed:
            parts.append(f"learn() changed the experiences it was given: {changed[:4]}")
        if reuse_bad and first_ok:
            i = reuse_bad[0]
            parts.append(f"learning a second time from the same batch objects returned loss {got2[i]!r} where the batch's "
                         f"loss (from a pristine copy, current networks) is {defs2[i]!r} (entry {i})" + extra)
        msg = f"{case['algo']}: " + "; ".join(parts)
        only_actions = algo in ("DDPG", "TD3") and changed and all("action" in p or p.endswith("[1]") for p in changed)
        (findings if only_actions else problems).append(msg)
    impl_line = " ".join(f"{v:.6g}" for v in got)
    model_line = out if model is None else " ".join(f"{v:.6g}" for v in model)
    agree = model is not None and len(model) == len(got) and all(close(a, b) for a, b in zip(got, model))
    tags = [f"loss-{case['algo']}", f"fam-{case.get('family', 'vector')}", f"done-rows-{min(info['done'], 4)}"]
    if case.get("bounds", "sym") != "sym":
        tags.append(f"bounds-{case['bounds']}")
    if "crossed" in info:
        tags.append("smoothed-action-clipped" if info["crossed"] else "smoothed-action-inside")
        if info["asym_sensitive"]:
            tags.append("clip-differs-from-symmetric-clip")
    if info.get("argmax_differs") and case["algo"].endswith("-double"):
        tags.append("online-and-target-argmax-differ")
    if case.get("team_reward"):
        tags.append("team-reward-tensor-shared")
    tags.append("inputs-unchanged" if not (touched or touched2) else "INPUTS-CHANGED")
    if load_note is not None:
        tags.append(f"after-load-{case['load_into']}")
        if problems:
            problems[0] += (f"  [agent restored from a checkpoint ({case['load_into']}); (saved, restored) attributes: "
                            f"{load_note}; the reference uses the restored agent's current attributes]")
    return agree, impl_line, model_line, problems, tags, \
        {"driver_op": line[:200] + ("…" if len(line) > 200 else ""), "info": info, "second_learn": got2,
         "second_reference": defs2, "findings_inputs": findings}


FINDING_PER_BROADCAST = "C08-rainbow-per-weights-broadcast"


def c51_term(agent, batch, gamma: float):
    """one term of Rainbow's loss in float64, independent of _dqn_loss: per row the cross-entropy between the
    categorical projection of r + (1-d)*gamma*z under the TARGET net's distribution at the ONLINE net's greedy
    action and the online net's log-distribution at the action taken.  Network outputs are inputs."""
    obs, act, rew, nxt, done = unpack(batch)
    with torch.no_grad():
        o = agent.preprocess_observation(obs)
        n = agent.preprocess_observation(nxt)
        greedy = agent.actor(n).argmax(1)
        tdist = agent.actor_target(n, q=False)
        logp = agent.actor(o, q=False, log=True)
    B = tdist.shape[0]
    p = tdist[torch.arange(B), greedy].double().numpy()                       # (B, atoms)
    lp = logp[torch.arange(B), act.reshape(-1).long()].double().numpy()       # (B, atoms)
    z = agent.support.double().numpy()
    vmin, vmax, N = float(agent.v_min), float(agent.v_max), int(agent.num_atoms)
    dz = (vmax - vmin) / (N - 1)
    r = rew.reshape(-1).double().numpy()
    d = done.reshape(-1).double().numpy()
    out = np.zeros(B)
    for i in range(B):
        m = np.zeros(N)
        for j in range(N):
            tz = min(max(r[i] + (1.0 - d[i]) * gamma * z[j], vmin), vmax)
            bpos = min(max((tz - vmin) / dz, 0.0), N - 1.0)
            lo = int(np.floor(bpos))
            frac_ = bpos - lo
            m[lo] += p[i, j] * (1.0 - frac_)
            if frac_ > 0:
                m[min(lo + 1, N - 1)] += p[i, j] * frac_
        out[i] = -(m * lp[i]).sum()
    return out


def run_loss_rainbow(chk: Check, case: dict):
    """RainbowDQN (1-step, n-step, prioritised; combined_reward on/off): learn()'s loss and new priorities
    against L = [1-step term with gamma] (if combined_reward or no n-step batch) + [n-step term with gamma**n]"""
    variant = case.get("variant", "plain")
    nstep = variant in ("nstep", "per_nstep")
    per = variant in ("per", "per_nstep")
    fam = case.get("family", "vector")
    agent = trained_agent(case)
    n = batch_size_of(agent)
    seed = int(case["seed"])
    bt = agents.make_batch(agent, "RainbowDQN", fam, n=n, seed=seed + 17, dones=case["dones"], variant=variant)
    ex = agents.make_batch(agent, "RainbowDQN", fam, n=n, seed=seed + 7919,
                           dones=case.get("n_dones") or case["dones"]) if nstep else None
    gamma, ns, comb = float(agent.gamma), int(agent.n_step), bool(agent.combined_reward)
    terms = []
    if comb or not nstep:
        terms.append(("1-step, gamma", c51_term(agent, bt, gamma)))
    if nstep:
        terms.append((f"{ns}-step, gamma**{ns}", c51_term(agent, ex, gamma ** ns)))
    elem = sum(t for _n, t in terms)
    if per:
        w = bt["weights"].reshape(-1).double().numpy()
        ref_loss = float((elem * w).mean())
        broadcast_loss = float(elem.mean() * w.mean())
    else:
        ref_loss, broadcast_loss = float(elem.mean()), None
    fp = fingerprint((bt, ex))
    kw = {}
    if per:
        kw["per"] = True
    if ex is not None:
        kw["n_experiences"] = ex
    agents.seed_all(seed + 5)
    ret = agent.learn(bt, **kw)
    got = float(ret[0])
    problems, findings = [], []
    what = (f"RainbowDQN[{variant}, n_step={ns}, combined_reward={comb}, gamma={gamma}]: terms "
            f"{[n_ for n_, _t in terms]}")
    tol = dict(rel=5e-5, absol=2e-6)
    if not (np.isfinite(got) and close(got, ref_loss, **tol)):
        if broadcast_loss is not None and close(got, broadcast_loss, **tol):
            findings.append(f"{what}: with PER the returned loss {got!r} is mean(weights)*mean(loss_i) = {broadcast_loss!r}, "
                            f"not the importance-weighted mean(weights_i*loss_i) = {ref_loss!r}: the (batch,) loss is "
                            f"multiplied by the (batch,1) weight column (batch x batch broadcast)")
        else:
            problems.append(f"{what}: learn returned loss {got!r}, the categorical Bellman loss of the batch is {ref_loss!r}")
    if per:
        pri = np.asarray(ret[2], dtype=np.float64).reshape(-1)
        refp = elem + float(agent.prior_eps)
        bad = [i for i in range(len(refp)) if not close(float(pri[i]), float(refp[i]), rel=5e-5, absol=2e-6)]
        if len(pri) != len(refp) or bad:
            i = bad[0] if bad else 0
            problems.append(f"{what}: new priority of row {i} is {float(pri[i])!r}, loss_i + prior_eps is {float(refp[i])!r} "
                            f"({len(bad)} of {len(refp)} rows differ)")
    touched = changed_inputs(fp, (bt, ex))
    if touched:
        problems.append(f"RainbowDQN[{variant}]: learn() changed the experiences it was given: {touched[:4]}")
    tags = [f"loss-RainbowDQN-{variant}", f"n_step-{ns}", "combined-reward" if comb else "single-reward", f"fam-{fam}"]
    return True, f"{got:.6g}", f"{ref_loss:.6g}", problems, tags, \
        {"terms": [n_ for n_, _t in terms], "reference_loss": ref_loss, "returned": got, "findings_per": findings}


# ----------------------------------------------------------------------------- metamorphic suite
def trained_agent(case):
    agent = build_agent(case)
    pretrain(agent, case, int(case.get("pretrain", 1)))
    if case.get("diverge"):
        diverge_online(agent, case, make_case_batch(agent, case))
    return agent


def identical_pair(case):
    """two agents in the same state for the metamorphic comparison: built and trained twice from the same
    seeds (every step of that is seeded).  clone() is deliberately not used here: whether a clone is faithful
    is checked where the property talks about it (tracking suite, prelude 'clone').
    Returns (a, b, problem or None)."""
    a, b = trained_agent(case), trained_agent(case)
    wa, wb = all_weights(a), all_weights(b)
    diff = [k for k in wa if k not in wb or not torch.equal(wa[k], wb[k])] + [k for k in wb if k not in wa]
    if diff:
        return a, b, (f"{case['algo']}: constructing and training the agent twice under identical seeds gives different "
                      f"weights ({len(diff)} tensors, e.g. {diff[:3]}): learn() is not a function of (weights, batch, seed)")
    return a, b, None


def run_meta_case(chk: Check, case: dict, rows=None):
    """learn(batch) vs learn(batch') from two identical clones; -> (problems, tags, detail).
    Multi-agent learners are judged agent by agent: with per-agent done flags, the rows where agent i is
    done are perturbed (whatever the other agents' flags say) and agent i's loss and networks must not change."""
    algo = base_algo(case["algo"])
    if algo == "RainbowDQN":
        return run_meta_rainbow(chk, case, rows)
    multi = algo in ("MADDPG", "MATD3")
    a, b, unequal = identical_pair(case)
    if unequal:
        return [unequal], [f"meta-{case['algo']}", "pair-not-reproducible"], {}
    parent = a
    ids = list(parent.agent_ids) if multi else []
    judge = int(case.get("judge", 0))
    if multi and case.get("ma_dones"):
        dones = list(case["ma_dones"][ids[judge]])
    else:
        dones = case["dones"]
    done_rows = [j for j, d in enumerate(dones) if d == 1]
    live_rows = [j for j, d in enumerate(dones) if d == 0]
    target_rows = done_rows if case.get("perturb", "done") == "done" else live_rows[:1]
    if rows is None and case.get("only_rows") is not None:
        rows = case["only_rows"]
    if rows is not None:
        target_rows = [j for j in target_rows if j in rows]
    batches = []
    for which in (0, 1):
        bt = make_case_batch(parent, case)
        if which == 1:
            donor = make_case_batch(parent, case, seed_offset=4242)
            perturb_next(bt, donor, target_rows, multi)
        batches.append(bt)
    lseed = int(case["seed"]) + 5
    rets, touched = [], []
    for ag, bt in zip((a, b), batches):
        fp = fingerprint(bt)
        agents.seed_all(lseed)
        rets.append(ag.learn(bt))
        touched += changed_inputs(fp, bt)
    la, lb = returned_losses(algo, a, rets[0]), returned_losses(algo, b, rets[1])
    wa, wb = all_weights(a), all_weights(b)
    differing = [k for k in wa if not torch.equal(wa[k], wb[k])]
    problems = []
    tags = [f"meta-{case['algo']}", f"perturbed-{min(len(target_rows), 4)}-rows"]
    if multi:
        # the agents for which every perturbed row is a done row
        per_agent = case.get("ma_dones") or {aid: case["dones"] for aid in ids}
        judged = [k for k, aid in enumerate(ids) if all(per_agent[aid][r] == 1 for r in target_rows)]
        others = [k for k in range(len(ids)) if k not in judged]
        mine = {k: [n for n in differing if f"[{k}]." in n] for k in range(len(ids))}
        if case.get("ma_dones"):
            tags.append("per-agent-dones")
        if case.get("perturb", "done") == "done":
            for k in judged:
                if la[k] != lb[k]:
                    problems.append(f"{case['algo']}: next_obs of rows {target_rows}, on which agent {ids[k]} is marked "
                                    f"done, influenced {ids[k]}'s critic loss: {la[k]} vs {lb[k]}")
                if mine[k]:
                    problems.append(f"{case['algo']}: next_obs of rows {target_rows}, on which agent {ids[k]} is marked "
                                    f"done, influenced {ids[k]}'s update: {len(mine[k])} of its weight tensors differ, "
                                    f"e.g. {mine[k][:3]}")
            if others:
                tags.append("live-agents-changed" if any(la[k] != lb[k] or mine[k] for k in others)
                            else "live-agents-unchanged")
            changed = bool(differing) or la != lb
        else:
            changed = la[judge] != lb[judge] or bool(mine[judge])
    else:
        changed = bool(differing) or la != lb
        if case.get("perturb", "done") == "done":
            if la != lb:
                problems.append(f"{case['algo']}: next_obs of rows marked done {target_rows} influenced the loss: "
                                f"{la} vs {lb}")
            if differing:
                problems.append(f"{case['algo']}: next_obs of rows marked done {target_rows} influenced the update: "
                                f"{len(differing)} weight tensors differ afterwards, e.g. {differing[:3]}")
    if case.get("perturb") == "live":
        tags.append("sensitive-live-row" if changed else "INSENSITIVE-live-row")
    detail = {"perturbed_rows": target_rows, "loss": la, "loss_perturbed": lb,
              "differing_tensors": differing[:5], "changed": changed}
    if touched:
        msg = f"{case['algo']}: learn() changed the experiences it was given: {sorted(set(touched))[:4]}"
        if algo in ("DDPG", "TD3") and all("action" in p or p.endswith("[1]") for p in touched):
            detail["findings_inputs"] = [msg]
        else:
            problems.append(msg)
    return problems, tags, detail


GRAD_REL_TOL = 1e-5        # measured float noise of the clipped gradient: <= 3e-7 of its largest entry
W_TOL = 2e-6               # weights, on entries whose gradient is well conditioned for Adam's normalisation


def grads_of(agent) -> "OrderedDict[str, torch.Tensor]":
    return OrderedDict((n, p.grad.detach().clone()) for n, p in unwrap(agent.actor).named_parameters()
                       if p.grad is not None)


def run_meta_rainbow(chk: Check, case: dict, rows=None):
    """RainbowDQN, all four variants, INDEPENDENT 1-step and n-step done flags: the 1-step next_obs is
    replaced on rows with done1 = 1 only and the n-step next_obs on rows with doneN = 1 only.
    The categorical projection sums the target probabilities of a done row in float32 (they sum to 1 up to
    rounding), so nothing is bit-equal: loss, new priorities and the clipped gradient are compared with a
    relative tolerance, the weights with a tolerance scaled by the learning rate, and control cases show
    that replacing a live row's next_obs changes all of them by orders of magnitude more."""
    variant = case.get("variant", "plain")
    nstep = variant in ("nstep", "per_nstep")
    per = variant in ("per", "per_nstep")
    fam = case.get("family", "vector")
    a, b, unequal = identical_pair(case)
    if unequal:
        return [unequal], [f"meta-RainbowDQN-{variant}", "pair-not-reproducible"], {}
    parent = a
    d1 = list(case["dones"])
    dn = list(case.get("n_dones") or case["dones"])
    n = batch_size_of(parent)
    if case.get("perturb", "done") == "done":
        rows1 = [j for j, d in enumerate(d1) if d == 1]
        rowsn = [j for j, d in enumerate(dn) if d == 1]
    else:
        # a live row of the batch that the loss really uses
        use_n = nstep and not bool(getattr(parent, "combined_reward", False))
        rows1 = [] if use_n else [j for j, d in enumerate(d1) if d == 0][:1]
        rowsn = [j for j, d in enumerate(dn) if d == 0][:1] if use_n else []
    if rows is None and case.get("only_rows") is not None:
        rows = case["only_rows"]
    if rows is not None:
        rows1 = [j for j in rows1 if j in rows]
        rowsn = [j for j in rowsn if j in rows]
    base_seed = int(case["seed"])

    def pair(which):
        bt = agents.make_batch(parent, "RainbowDQN", fam, n=n, seed=base_seed + 17, dones=d1, variant=variant)
        ex = agents.make_batch(parent, "RainbowDQN", fam, n=n, seed=base_seed + 7919, dones=dn) if nstep else None
        if which == 1:
            perturb_next(bt, agents.make_batch(parent, "RainbowDQN", fam, n=n, seed=base_seed + 17 + 4242,
                                               dones=d1, variant=variant), rows1, False)
            if ex is not None:
                perturb_next(ex, agents.make_batch(parent, "RainbowDQN", fam, n=n, seed=base_seed + 7919 + 4242,
                                                   dones=dn), rowsn, False)
        return bt, ex
    lseed = base_seed + 5
    rets, grads, touched = [], [], []
    for ag, which in ((a, 0), (b, 1)):
        bt, ex = pair(which)
        kw = {}
        if per:
            kw["per"] = True
        if ex is not None:
            kw["n_experiences"] = ex
        fp = fingerprint((bt, ex))
        agents.seed_all(lseed)
        rets.append(ag.learn(bt, **kw))
        grads.append(grads_of(ag))
        touched += changed_inputs(fp, (bt, ex))
    la, lb = float(rets[0][0]), float(rets[1][0])
    pa = None if rets[0][2] is None else np.asarray(rets[0][2], dtype=np.float64).reshape(-1)
    pb = None if rets[1][2] is None else np.asarray(rets[1][2], dtype=np.float64).reshape(-1)
    gmax = max([float(g.abs().max()) for g in grads[0].values()] + [1e-12])
    gdiff = max([float((grads[0][k] - grads[1][k]).abs().max()) for k in grads[0]] + [0.0])
    # weights: Adam divides by sqrt(v)+eps, so an entry whose gradient is (numerically) zero amplifies rounding
    # noise up to the learning rate; compare the entries whose gradient is at least 1e-4 of the largest one
    pa_, pb_ = dict(unwrap(a.actor).named_parameters()), dict(unwrap(b.actor).named_parameters())
    wdiff = 0.0
    for k in grads[0]:
        mask = (grads[0][k].abs() >= 1e-4 * gmax) & (grads[1][k].abs() >= 1e-4 * gmax)
        if bool(mask.any()):
            wdiff = max(wdiff, float((pa_[k].detach() - pb_[k].detach())[mask].abs().max()))
    pdiff = 0.0 if pa is None else float(np.abs(pa - pb).max())
    lr = float(parent.lr)
    w_tol = W_TOL
    loss_ok = close(la, lb)
    prio_ok = pa is None or all(close(float(x), float(y2), absol=1e-6) for x, y2 in zip(pa, pb))
    grad_ok = gdiff <= GRAD_REL_TOL * gmax
    w_ok = wdiff <= w_tol
    what = (f"RainbowDQN[{variant}, n_step={parent.n_step}, combined_reward={bool(parent.combined_reward)}]: "
            f"1-step next_obs replaced on rows {rows1} (done1=1), n-step next_obs on rows {rowsn} (doneN=1); "
            f"done1={d1} doneN={dn}")
    problems = []
    if case.get("perturb", "done") == "done":
        if not loss_ok:
            problems.append(f"{what}: the loss changed: {la} vs {lb}")
        if not prio_ok:
            problems.append(f"{what}: the new priorities changed by up to {pdiff:.3g}")
        if not grad_ok:
            problems.append(f"{what}: the gradient changed by {gdiff:.3g} (largest entry {gmax:.3g})")
        if not w_ok:
            problems.append(f"{what}: the weights after the step differ by up to {wdiff:.3g} (lr {lr:g})")
    if touched:
        problems.append(f"RainbowDQN[{variant}]: learn() changed the experiences it was given: {sorted(set(touched))[:4]}")
    tags = [f"meta-RainbowDQN-{variant}", f"perturbed-{min(len(rows1) + len(rowsn), 4)}-rows",
            "combined-reward" if bool(parent.combined_reward) else "single-reward"]
    if nstep and any(x != y2 for x, y2 in zip(d1, dn)):
        tags.append("done1-differs-from-doneN")
    changed = not (loss_ok and prio_ok and grad_ok and w_ok)
    if case.get("perturb") == "live":
        tags.append("sensitive-live-row" if changed else "INSENSITIVE-live-row")
    return problems, tags, {"perturbed_rows_1step": rows1, "perturbed_rows_nstep": rowsn, "loss": la,
                            "loss_perturbed": lb, "max_priority_diff": pdiff, "max_grad_diff": gdiff,
                            "max_grad": gmax, "max_weight_diff": wdiff, "changed": changed}


# ----------------------------------------------------------------------------- tracking suite
def trainable_names(agent) -> set[str]:
    """the tensors an optimiser can train and a soft update can reach: nn.Parameters with requires_grad of
    every online and target network"""
    out = set()
    for lab, on, tg in target_pairs(agent):
        for side, m in (("online", on), ("target", tg)):
            for n, p in unwrap(m).named_parameters():
                out.add(f"{lab}~{side}.{n}")
    return out


def shared_storage(agent) -> list[str]:
    """target tensors whose storage is also the storage of a tensor of an online (evaluation) network:
    such a target follows every in-place optimiser step and cannot be a lagged copy"""
    online = {}
    pairs = target_pairs(agent)
    for lab, on, _tg in pairs:
        # the tensors the optimiser steps in place: the online networks' nn.Parameters (constants such as the
        # action bounds or Rainbow's support are legitimately the same tensor object in both networks)
        for k, t in unwrap(on).named_parameters():
            if t.numel():
                online.setdefault(walker.tensor_cell(t), f"{lab}~online.{k}")
    out = []
    for lab, _on, tg in pairs:
        for k, t in walker.module_tensors(unwrap(tg)).items():
            if t.numel() and walker.tensor_cell(t) in online:
                out.append(f"{lab}.{k} <-> {online[walker.tensor_cell(t)]}")
    return out


def fired_observed(algo: str, agent, ret) -> bool | None:
    if algo in ("DDPG", "TD3"):
        return ret[0] is not None
    if algo == "MATD3":
        vals = [ret[aid][0] is not None for aid in agent.agent_ids]
        return all(vals) if len(set(vals)) == 1 else None
    return True


def counter_of(agent) -> int:
    c = getattr(agent, "learn_counter", 0)
    if isinstance(c, dict):
        vals = sorted(set(int(v) for v in c.values()))
        return vals[-1]
    return int(c)


def policy_freq_of(algo: str, agent) -> int:
    return int(getattr(agent, "policy_freq", 1)) if algo in DELAYED else 1


def sample_positions(rng, agent):
    """up to 3 flat positions in every target tensor: [(pair label, tensor name, flat index)]"""
    pos = []
    for label, _on, tg in target_pairs(agent):
        for name, t in weights(tg).items():
            n = t.numel()
            if n == 0:
                continue
            picks = {0, n - 1, rng.randrange(n)}
            for p in sorted(picks):
                pos.append((label, name, p))
    return pos


def read_sample(agent, pos, which: str) -> list[float]:
    mods = {label: (on, tg) for label, on, tg in target_pairs(agent)}
    cache = {}
    out = []
    for label, name, p in pos:
        key = (label, which)
        if key not in cache:
            on, tg = mods[label]
            cache[key] = weights(on if which == "online" else tg)
        t = cache[key].get(name)
        out.append(float("nan") if t is None or p >= t.numel() else float(t.detach().reshape(-1)[p]))
    return out


def apply_prelude(agent, case):
    """clone / architecture mutation / checkpoint round trip in front of the tracked steps"""
    prelude = case.get("prelude", "fresh")
    algo = base_algo(case["algo"])
    note = {}
    if prelude == "clone":
        parent = agent
        parent_t = {lab: snap(tg) for lab, _o, tg in target_pairs(parent)}
        parent_o = {lab: snap(on) for lab, on, _t in target_pairs(parent)}
        parent_train = trainable_names(parent)
        agent = parent.clone()
        # "also directly after clone": the clone continues from the PARENT's networks.  Its target must be the
        # parent's lagging target (and its online network the parent's), otherwise its next learn step bootstraps
        # from other weights and its target is not tau*online + (1-tau)*previous
        unfaithful = []
        for lab, on, tg in target_pairs(agent):
            for side, mod, ref in (("target", tg, parent_t.get(lab, {})), ("online", on, parent_o.get(lab, {}))):
                now = weights(mod)
                bad = [k for k, v in ref.items() if k not in now or now[k].shape != v.shape
                       or not torch.equal(now[k].detach(), v)]
                if bad:
                    eq_online = side == "target" and all(
                        k in weights(on) and weights(on)[k].shape == now[k].shape
                        and torch.equal(now[k].detach(), weights(on)[k].detach()) for k in bad if k in now)
                    unfaithful.append(f"{lab} ({side} network): {len(bad)} of {len(ref)} tensors differ from the parent's, "
                                      f"e.g. {bad[0]}" + ("; they equal the clone's ONLINE weights" if eq_online else ""))
        note["clone_unfaithful"] = unfaithful
        note["parent_targets"] = parent_t
        lost = sorted(parent_train - trainable_names(agent))
        if lost:
            note["clone_lost_trainable"] = lost
    elif prelude == "mutation" or prelude.startswith("mut-"):
        # one pass of Mutations.mutation() of exactly one kind (unit probability vector).  Every pass, also a
        # "no mutation" one, re-creates the shared (target) networks from the evaluation networks.
        from agilerl.hpo.mutation import Mutations
        kind = "arch" if prelude == "mutation" else prelude[4:]
        if kind not in MUT_KINDS:
            raise InfraError(f"unknown mutation prelude {prelude!r}")
        vec = {k: int(k == kind) for k in MUT_KINDS}
        mut = Mutations(no_mutation=vec["none"], architecture=vec["arch"], new_layer_prob=0.5,
                        parameters=vec["param"], activation=vec["act"], rl_hp=vec["rl_hp"],
                        rand_seed=int(case["seed"]) % (2 ** 31), device="cpu")
        online_before = {lab: id(on) for lab, on, _t in target_pairs(agent)}
        target_before = {lab: id(tg) for lab, _o, tg in target_pairs(agent)}
        agent = mut.mutation([agent])[0]
        note["mut"] = str(getattr(agent, "mut", None))
        note["online_module_replaced"] = any(id(on) != online_before.get(lab) for lab, on, _t in target_pairs(agent))
        note["target_module_replaced"] = any(id(tg) != target_before.get(lab) for lab, _o, tg in target_pairs(agent))
    elif prelude == "load":
        fd, path = tempfile.mkstemp(prefix="c08_", suffix=".pt")
        os.close(fd)
        try:
            saved = {lab: snap(tg) for lab, _o, tg in target_pairs(agent)}
            agent.save_checkpoint(path)
            if case.get("load_via", "load_checkpoint") == "classmethod":
                agent = agents.algo_class(algo).load(path, device="cpu")
            else:
                fresh = build_agent(other_options(case))
                fresh.load_checkpoint(path)
                agent = fresh
            # which target tensors did the round trip restore?  (restoring is property C07; a tensor that
            # was not restored is reported there and is not a meaningful "previous weight" here)
            lost = []
            for lab, _o, tg in target_pairs(agent):
                now = weights(tg)
                for k, v in saved.get(lab, {}).items():
                    if k not in now or now[k].shape != v.shape or not torch.equal(now[k].detach(), v):
                        lost.append(f"{lab}.{k}")
            note["not_restored"] = lost
        finally:
            if os.path.exists(path):
                os.remove(path)
    return agent, note


def run_track_case(chk: Check, case: dict):
    """-> (agree, impl lines, model lines, problems, tags, detail)"""
    import random as _random
    algo = base_algo(case["algo"])
    fam = case.get("family", "vector")
    agent = build_agent(case)
    pretrain(agent, case, int(case.get("pretrain", 1)))
    prelude = case.get("prelude", "fresh")
    try:
        agent, note = apply_prelude(agent, case)
    except InfraError:
        raise
    except Exception as e:
        import traceback
        what = {"clone": "cloned", "load": "saved and restored"}.get(prelude, "passed through Mutations.mutation()")
        msg = (f"{case['algo']}: after {case.get('pretrain', 1)} learn step(s) the agent cannot be {what} "
               f"(prelude {prelude} raised {type(e).__name__}: {str(e)[:160]}), so it cannot go on learning and its "
               f"target network cannot follow tau*online + (1-tau)*previous 'directly after clone, mutation and "
               f"checkpoint load'")
        return True, [], [], [msg], [f"track-{case['algo']}", f"prelude-{prelude}", f"raised-{type(e).__name__}"], \
            {"traceback": traceback.format_exc().strip().splitlines()[-6:], "findings": []}
    tau = float(agent.tau)
    pf = policy_freq_of(algo, agent)
    prng = _random.Random(int(case["seed"]) ^ 0x5EED)
    pos = sample_positions(prng, agent)
    pending = set(note.get("not_restored", []))     # target tensors a checkpoint load did not restore
    problems, tags = [], [f"track-{case['algo']}", f"prelude-{case.get('prelude', 'fresh')}", f"pf-{pf}",
                          f"tau-{tau:g}"]
    impl_lines, model_ops, findings = [], [], []
    model_ops.append(f"bellman init {pf} {frac(tau)} {counter_of(agent)} " +
                     " ".join(frac(v) for v in read_sample(agent, pos, "target")))
    impl_lines.append("ok")
    moved_any = False
    for u in note.get("clone_unfaithful", []):
        problems.append(f"{case['algo']}: the clone of an agent trained for {case.get('pretrain', 1)} learn step(s) does not "
                        f"continue from the parent's networks: {u}; its next Bellman target and soft update start from "
                        f"weights that are not the previous target")
    if note.get("clone_lost_trainable"):
        problems.append(f"{case['algo']}: clone() lost trainable tensors: {note['clone_lost_trainable'][:3]}")
    parent_targets = note.pop("parent_targets", None)
    trainable = trainable_names(agent)
    aliased = bool(shared_storage(agent))
    if aliased:
        problems.append(f"{case['algo']}: target and online share storage before the first tracked step "
                        f"(prelude {case.get('prelude', 'fresh')}): e.g. {shared_storage(agent)[0]}")
    for step in range(int(case.get("steps", 3))):
        before = {lab: snap(tg) for lab, _o, tg in target_pairs(agent)}
        if step == 0 and parent_targets is not None and not note.get("clone_unfaithful"):
            before = parent_targets          # the "previous weights" of a clone's first step are the PARENT's target
        c_before = counter_of(agent)
        ret = agents.learn_once(agent, algo, fam, seed=int(case["seed"]) + 31 + step,
                                variant=case.get("variant", "plain"), **(case.get("learn_kw") or {}))
        now_trainable = trainable_names(agent)
        if trainable - now_trainable:
            gone = sorted(trainable - now_trainable)
            problems.append(f"{case['algo']}: learn step {step} removed {len(gone)} tensors from the trainable parameters "
                            f"(they can no longer be optimised or reached by soft_update through parameters()), e.g. {gone[:2]}")
        trainable = now_trainable
        expect_fire = (c_before + 1) % pf == 0 if algo in DELAYED else True
        seen_fire = fired_observed(algo, agent, ret)
        if seen_fire is not None and seen_fire != expect_fire:
            problems.append(f"{case['algo']}: learn step entered with counter {c_before}, policy_freq {pf}: "
                            f"actor/targets {'were' if seen_fire else 'were not'} updated, expected "
                            f"{'an update' if expect_fire else 'no update'}")
        if algo in DELAYED and counter_of(agent) != c_before + 1:
            problems.append(f"{case['algo']}: learn_counter went {c_before} -> {counter_of(agent)}")
        al = shared_storage(agent)
        if al and not aliased:
            aliased = True
            problems.append(f"{case['algo']}: target and online share storage after learn step {step} (tau={tau}, "
                            f"policy_freq {pf}): {len(al)} target tensors, e.g. {al[0]}")
        for lab, on, tg in target_pairs(agent):
            won, wtg, wbef = weights(on), weights(tg), before[lab]
            if set(wtg) != set(wbef):
                problems.append(f"{case['algo']} {lab}: the target's tensors changed names during learn")
                continue
            moved = [k for k in wtg if not torch.equal(wtg[k].detach(), wbef[k])]
            moved_any = moved_any or bool(moved)
            if not expect_fire:
                if moved:
                    problems.append(f"{case['algo']} {lab}: step {step} (counter {c_before}+1, policy_freq {pf}) is "
                                    f"not a policy-delay step but {len(moved)} target tensors moved, e.g. {moved[:2]}")
                continue
            bad, off = [], []
            for k in wtg:
                if k not in won or won[k].shape != wtg[k].shape:
                    bad.append((k, "no online counterpart"))
                    continue
                if f"{lab}.{k}" in pending:
                    if "skipped-not-restored-by-load" not in tags:
                        tags.append("skipped-not-restored-by-load")
                    continue
                exp = tau * won[k].detach().double() + (1 - tau) * wbef[k].double()
                # float32 rounding of tau*e + (1-tau)*t grows with the magnitude of the weights (parameter
                # mutations produce weights of size 10 and more): 1e-6 absolute, or relative to the operands
                scale = torch.clamp(tau * won[k].detach().double().abs() + (1 - tau) * wbef[k].double().abs(), min=1.0)
                excess = ((wtg[k].detach().double() - exp).abs() / scale)
                err = float(excess.max()) if exp.numel() else 0.0
                if not err <= BLEND_TOL:
                    bad.append((k, f"max |target_after - (tau*online_after + (1-tau)*target_before)| / max(1, |operands|) "
                                   f"= {err:.3g}"))
                if not torch.equal(won[k].detach(), wbef[k]):
                    off.append(k)
            if tau > 0 and off and not moved:
                problems.append(f"{case['algo']} {lab}: target network did not move in a learn step with tau={tau} "
                                f"although {len(off)} of its {len(wtg)} tensors differ from the online network "
                                f"({len(list(unwrap(tg).parameters()))} tensors are visible to target.parameters())")
            elif bad:
                msg = (f"{case['algo']} {lab}: step {step}, tau={tau}: {len(bad)} of {len(wtg)} target tensors "
                       f"are not tau*online + (1-tau)*previous, e.g. {bad[0][0]}: {bad[0][1]}")
                # the analysed shared-encoder defect: exactly the encoder tensors of a target critic, and they
                # are a hard copy of the online network's encoder
                if getattr(agent, "share_encoders", False) and algo in ("DDPG", "TD3") and "critic" in lab and \
                        all(k.startswith("encoder.") and k in won and torch.equal(wtg[k].detach(), won[k].detach())
                            for k, _why in bad):
                    findings.append(msg + " (they equal the ONLINE encoder: hard copy)")
                else:
                    problems.append(msg)
        model_ops.append("bellman step " + " ".join(frac(v) for v in read_sample(agent, pos, "online")))
        impl_lines.append((expect_fire if seen_fire is None else seen_fire, counter_of(agent) if algo in DELAYED else None,
                           read_sample(agent, pos, "target")))
        if expect_fire and pending:
            # every tensor has a meaningful "previous weight" from now on: the model restarts from the
            # implementation's current targets
            pending = set()
            model_ops.append(f"bellman init {pf} {frac(tau)} {counter_of(agent)} " +
                             " ".join(frac(v) for v in read_sample(agent, pos, "target")))
            impl_lines.append("ok")
    if case.get("direct", 0):
        # n direct soft updates with the online weights held fixed: iterate and closed form
        n = int(case["direct"])
        t0 = read_sample(agent, pos, "target")
        o0 = read_sample(agent, pos, "online")
        for _ in range(n):
            if algo in ("DQN", "CQN", "RainbowDQN"):
                agent.soft_update()
            else:
                # the soft-update phase of a policy step of learn(): every pair, then the re-synchronisation
                # of the encoder copies held by the critics when encoders are shared
                for _lab, on, tg in target_pairs(agent):
                    agent.soft_update(on, tg)
                if getattr(agent, "share_encoders", False) and "share_encoder_parameters" in agent.registry.hooks:
                    agent.share_encoder_parameters()
        args = f"{frac(tau)} {n} {len(pos)} " + " ".join(map(frac, o0)) + " " + " ".join(map(frac, t0))
        model_ops += ["bellman softn iter " + args, "bellman softn closed " + args]
        tn = read_sample(agent, pos, "target")
        impl_lines += [("vec", tn), ("vec", tn)]
        tags.append(f"direct-{n}")
    out = chk.driver.run(["reset"] + model_ops)[1:]
    chk.corr["model_lines"] += len(model_ops)
    # compare: the model follows the sampled weights; skip sample entries not restored by load
    skip = {i for i, (lab, name, _p) in enumerate(pos) if f"{lab}.{name}" in set(note.get("not_restored", []))}
    agree, first_diff = True, None
    shown_impl, shown_model = [], []
    delayed = algo in DELAYED
    for li, (impl, mo) in enumerate(zip(impl_lines, out)):
        if impl == "ok":
            ok = mo == "ok"
            shown_impl.append("ok")
            shown_model.append(mo)
        elif impl[0] == "vec":
            words = mo.split()
            vals = [rat_to_float(w) for w in words] if mo not in ("bad-op", "reject") else []
            ok = len(vals) == len(impl[1]) and all(abs(a - b) <= BLEND_TOL * max(1, int(case.get("direct", 1))) * max(1.0, abs(a), abs(b))
                                                   for i, (a, b) in enumerate(zip(impl[1], vals)) if i not in skip)
            shown_impl.append("softn " + " ".join(f"{v:.6g}" for v in impl[1][:6]))
            shown_model.append("softn " + " ".join(f"{v:.6g}" for v in vals[:6]))
        else:
            fired, cnt, vec = impl
            words = mo.split()
            if mo in ("bad-op", "reject") or len(words) != 2 + len(vec):
                ok = False
                shown_model.append(mo[:80])
            else:
                mf, mc = words[0] == "1", int(words[1])
                vals = [rat_to_float(w) for w in words[2:]]
                ok = (mf == bool(fired)) and (not delayed or mc == cnt) and \
                    all(abs(a - b) <= BLEND_TOL * max(1.0, abs(a), abs(b))
                        for i, (a, b) in enumerate(zip(vec, vals)) if i not in skip)
                shown_model.append(f"{int(mf)} {mc if delayed else '-'} " + " ".join(f"{v:.6g}" for v in vals[:6]))
            shown_impl.append(f"{int(bool(fired))} {cnt if delayed else '-'} " + " ".join(f"{v:.6g}" for v in vec[:6]))
            # from now on nothing is skipped once a firing step has refreshed every tensor
            if fired:
                skip = set()
        if not ok and agree:
            agree, first_diff = False, li
    if moved_any:
        tags.append("targets-moved")
    if note.get("not_restored"):
        tags.append("load-left-target-tensors-unrestored(C07)")
    detail = {"note": note, "first_diff": first_diff, "sample_size": len(pos), "findings": findings}
    return agree, shown_impl, shown_model, problems, tags, detail


# ----------------------------------------------------------------------------- generators
def gen_loss_case(rng, tier: str, name: str | None = None, ma_dones: bool = True) -> dict:
    name = name or rng.choice(LOSS_ALGOS + (SINGLE_LOSS if tier == "quick" else []))
    algo = base_algo(name)
    fams = ["vector", "vector", "discrete", "image", "dict"] if tier == "thorough" else ["vector", "vector", "vector", "discrete", "dict"]
    fam = rng.choice(fams)
    if algo in ("MADDPG", "MATD3"):
        fam = "vector" if tier == "quick" or rng.random() < 0.7 else "image"
    case = {"kind": "loss", "algo": name, "family": fam, "seed": rng.randrange(1 << 24),
            "gamma": rng.choice([0.99, 0.9, 0.5, 0.95, 1.0]), "tau": rng.choice([0.5, 0.01, 1.0]),
            "pretrain": rng.choice([0, 1, 2]), "dones": None}
    if algo in ("DDPG", "TD3"):
        case["share"] = rng.choice([True, False])
        case["policy_freq"] = rng.choice([1, 2])
        case["bounds"] = rng.choice(["sym", "sym3", "unit", "perdim", "perdim"])   # Box bounds not symmetric around 0
    if algo in ("MADDPG", "MATD3"):
        case["action_kind"] = rng.choice(["box", "discrete"])
        if case["action_kind"] == "box":
            case["bounds"] = rng.choice(["sym", "unit", "perdim"])
        if algo == "MATD3":
            case["policy_freq"] = rng.choice([1, 2])
    if algo in ("DQN", "CQN"):
        # double-Q only differs from plain max when the online net has left its target behind
        case["diverge"] = name.endswith("-double") or rng.random() < 0.3
    case["dones"] = gen_dones(rng, 8)
    if algo in ("MADDPG", "MATD3") and ma_dones:
        case["ma_dones"] = gen_ma_dones(rng, 8)
        case["dones"] = list(case["ma_dones"][agents.AGENT_IDS[0]])
    return case


def gen_ma_dones(rng, n: int) -> dict:
    """independent done flags per agent; at least one row where one agent is done and another is not,
    and every agent has a done row and a live row"""
    while True:
        d = {aid: gen_dones(rng, n) for aid in agents.AGENT_IDS}
        cols = list(zip(*d.values()))
        if any(0 < sum(c) < len(c) for c in cols):
            return d


def gen_meta_case(rng, tier: str, name: str | None = None, variant: str | None = None) -> dict:
    name = name or rng.choice(LOSS_ALGOS + ["RainbowDQN"] + (SINGLE_LOSS if tier == "quick" else []))
    if name == "RainbowDQN":
        variant = variant or rng.choice(["plain", "per", "nstep", "per_nstep"])
        case = {"algo": "RainbowDQN", "family": rng.choice(["vector", "vector", "discrete"] if tier == "quick"
                                                            else ["vector", "discrete", "image", "dict"]),
                "seed": rng.randrange(1 << 24),
                "gamma": rng.choice([0.99, 0.5, 0.9]), "tau": rng.choice([0.5, 0.01]), "pretrain": rng.choice([0, 1, 2]),
                "variant": variant, "n_step": rng.choice([2, 3]),
                "combined_reward": rng.choice([True, False]), "dones": gen_dones(rng, 8)}
        # the n-step window may run into the end of the episode when the first step does not, and an n-step
        # sample may be live where the 1-step sample drawn with it is terminal: independent flags, with both
        # kinds of disagreement present
        while True:
            nd = gen_dones(rng, 8)
            pairs = set(zip(case["dones"], nd))
            if (0, 1) in pairs and (1, 0) in pairs:
                break
        case["n_dones"] = nd
    else:
        # multi-agent: half of the cases give every agent its own done flags
        case = gen_loss_case(rng, tier, name, ma_dones=rng.random() < 0.6)
        if base_algo(name) in ("MADDPG", "MATD3"):
            case["judge"] = rng.randrange(len(agents.AGENT_IDS))
    case["kind"] = "meta"
    case["perturb"] = "done" if rng.random() < 0.8 else "live"
    return case


def gen_track_case(rng, tier: str, name: str | None = None, prelude: str | None = None) -> dict:
    name = name or rng.choice(TRACK_ALGOS + (SINGLE_TRACK * 2 if tier == "quick" else []))
    algo = base_algo(name)
    fam = rng.choice(["vector", "vector", "vector", "discrete", "dict", "image"] if tier == "thorough"
                     else ["vector", "vector", "vector", "discrete"])
    if algo in ("MADDPG", "MATD3"):
        fam = "vector"
    case = {"kind": "track", "algo": name, "family": fam, "seed": rng.randrange(1 << 24),
            "tau": rng.choice([0.01, 0.005, 0.5, 0.5, 1.0, 0.25]),
            "pretrain": rng.choice([0, 1, 2]),
            "steps": rng.choice([2, 3, 4]) if tier == "quick" else rng.choice([3, 4, 6, 7]),
            "prelude": prelude or rng.choice(["fresh", "clone", "load"] + ["mut-" + k for k in MUT_KINDS]),
            "direct": rng.choice([0, 0, 2, 5])}
    if algo in DELAYED:
        case["policy_freq"] = rng.choice([1, 2, 3])
        case["steps"] = max(case["steps"], case["policy_freq"] + 1)
    if algo in ("DDPG", "TD3"):
        case["share"] = rng.choice([True, False])
        case["bounds"] = rng.choice(["sym", "sym", "unit", "perdim"])
    if algo in ("MADDPG", "MATD3"):
        case["action_kind"] = rng.choice(["box", "discrete"])
        case["steps"] = min(case["steps"], 2 if algo == "MADDPG" else (3 if tier == "quick" else 5))
    if algo == "RainbowDQN":
        case["variant"] = rng.choice(["plain", "per", "nstep", "per_nstep"])
        case["n_step"] = rng.choice([1, 3])
    if case["prelude"] == "mutation" or case["prelude"].startswith("mut-"):
        case["pretrain"] = max(1, case["pretrain"])       # learn -> mutate -> learn
    if case["prelude"] == "load":
        case["load_via"] = rng.choice(["load_checkpoint", "classmethod"])
    return case


def gen_option_cases(rng, tier: str, name: str) -> list[dict]:
    """one tracking case per (constructor option, non-default value) of the learner, one option at a time"""
    algo = base_algo(name)
    pairs, _unknown = option_sweep(algo)
    out = []
    for opt, val in pairs:
        if opt == "double" and name.endswith("-double"):
            continue
        c = gen_track_case(rng, tier, name, "fresh")
        c["opts"] = {opt: val}
        c["direct"] = 0
        if opt == "tau":
            c["tau"] = val
        elif c["tau"] == 1.0:
            c["tau"] = 0.25
        if opt == "policy_freq":
            c["policy_freq"] = val
        if opt == "share_encoders":
            c["share"] = val
        if opt == "gamma":
            c.pop("gamma", None)
        if opt == "n_step":
            c["n_step"] = val
        if opt == "normalize_images":
            c["family"] = "image"
        pf = int(c.get("policy_freq", 2 if algo in DELAYED else 1))
        c["steps"] = max(2, pf + 1) if algo.startswith("MA") else max(3, pf + 1)
        c["pretrain"] = min(c["pretrain"], 1)
        out.append(c)
    return out


# ----------------------------------------------------------------------------- driving one case
def run_case(chk: Check, case: dict):
    """uniform result: dict(agree, impl, model, problems, tags, detail)"""
    kind = case["kind"]
    try:
        if kind == "loss":
            agree, impl, model, problems, tags, detail = run_loss_case(chk, case)
            return dict(agree=agree, impl=[impl], model=[model], problems=problems, tags=tags, detail=detail)
        if kind == "meta":
            problems, tags, detail = run_meta_case(chk, case)
            return dict(agree=True, impl=[], model=[], problems=problems, tags=tags, detail=detail)
        if kind == "track":
            agree, impl, model, problems, tags, detail = run_track_case(chk, case)
            return dict(agree=agree, impl=impl, model=model, problems=problems, tags=tags, detail=detail)
        if kind == "shapes":
            r = run_shape_case(case)
            B = int(case["B"])
            return dict(agree=not r.get("model_differs"), impl=[str(r["calls"])], model=[str([((B, 1), (B, 1))] * len(r["calls"]))],
                        problems=r["problems"], tags=["shapes", f"B={B}", f"A={case['A']}"], detail=r)
    except InfraError:
        raise
    except Exception as e:  # the implementation raised on a legal configuration
        import traceback
        frames = traceback.extract_tb(e.__traceback__)
        if frames and str(ROOT / "harness") in str(frames[-1].filename):
            # the innermost frame is the harness itself: a bug of the machinery, never a violation
            raise InfraError(f"C08 harness error in {frames[-1].name} line {frames[-1].lineno}: "
                             f"{type(e).__name__}: {e}") from e
        tb = traceback.format_exc().strip().splitlines()
        return dict(agree=True, impl=[], model=[], tags=[f"raised-{type(e).__name__}"], detail={"traceback": tb[-6:]},
                    problems=[f"{case['algo']}: a learn step on a legal configuration/batch ({kind} suite, prelude "
                              f"{case.get('prelude', '-')}, options {case.get('opts') or {}}) raised {type(e).__name__}: "
                              f"{str(e)[:200]} — no Bellman loss is minimised and no target is updated"])
    raise InfraError(f"unknown case kind {kind!r}")


def shrink(chk: Check, case: dict, res: dict) -> dict:
    """smaller failing case: fewer steps / simpler prelude / fewer perturbed rows (ddmin)"""
    if case.get("kind") == "shapes":
        return case
    def fails(c):
        try:
            r = run_case(chk, c)
        except InfraError:
            return False
        return bool(r["problems"]) if res["problems"] else not r["agree"]
    best = dict(case)
    if case["kind"] == "track":
        for change in ({"direct": 0}, {"prelude": "fresh"}, {"pretrain": 0}, {"family": "vector"}):
            cand = {**best, **change}
            if cand != best and fails(cand):
                best = cand
        lo = 1
        while best.get("steps", 1) > lo:
            cand = {**best, "steps": best["steps"] - 1}
            if fails(cand):
                best = cand
            else:
                break
    elif case["kind"] == "meta" and case.get("perturb", "done") == "done":
        done_rows = [j for j, d in enumerate(case["dones"]) if d == 1]

        def fails_rows(rows):
            try:
                p, _t, _d = run_meta_case(chk, best, rows=rows)
            except Exception:
                return False
            return bool(p)
        if len(done_rows) > 1 and fails_rows(done_rows):
            keep = ddmin(done_rows, fails_rows)
            # express the minimal row set through the done flags themselves where possible
            best = {**best, "only_rows": keep}
        for change in ({"pretrain": 0}, {"family": "vector"}):
            cand = {**best, **change}
            if cand != best and fails(cand):
                best = cand
    else:
        for change in ({"pretrain": 0}, {"family": "vector"}):
            cand = {**best, **change}
            if cand != best and fails(cand):
                best = cand
    return best


def report(chk: Check, case: dict, res: dict, suite: str) -> None:
    if len(chk.violations) >= 5:          # only the first five get a replay file: do not spend time shrinking
        chk.violation((res["problems"] or [f"model disagreement ({suite}, {case['algo']})"])[0], None,
                      no_input=not res["problems"])
        return
    small = shrink(chk, case, res)
    r2 = run_case(chk, small)
    if not (r2["problems"] or not r2["agree"]):
        small, r2 = case, res
    replay = {"case": small, "impl": r2["impl"], "model": r2["model"], "oracle_problems": r2["problems"],
              "detail": r2["detail"], "correspondence": f"harness/c08.py ({suite}) vs Model/Bellman.lean",
              "theorems": chk.gate["theorems"],
              "how": "bin/check C08 --replay <this file>   (VERIF_REPO selects the tree)"}
    if r2["problems"]:
        chk.violation(r2["problems"][0], replay)
    else:
        chk.violation(f"implementation and Bellman model disagree ({suite}, {small['algo']}): impl={r2['impl'][-1:]} "
                      f"model={r2['model'][-1:]}; the property oracle holds on this case and its shrinks",
                      replay, no_input=True)


# ----------------------------------------------------------------------------- check
def pre_gate(chk: Check) -> None:
    """Regenerate lean/Gen/BellmanGen.lean from the source text of the seven learners of the tree under test (before
    the Lean gate) and re-check `generated = model` (Proofs/BellmanGenEq.lean) and the theorems over the generated
    definitions (Props/C08.lean, `C08_source_translation_*`)."""
    import common
    import py2lean_bellman
    common.translation_gate(chk, py2lean_bellman, "Gen/BellmanGen.lean", ["Gen.BellmanGen", "Proofs.BellmanGenEq", "Props.C08"],
                            "soft_update, the soft-update calls of learn with their policy-delay condition, and the Bellman "
                            "target handed to the loss, of DQN / CQN / RainbowDQN / DDPG / TD3 / MADDPG / MATD3")
    import py2lean_bellmanshape
    common.translation_gate(chk, py2lean_bellmanshape, "Gen/BellmanShapeGen.lean",
                            ["Gen.BellmanShapeGen", "Proofs.BellmanShapeGenEq", "Props.C08"],
                            "the SHAPES (torch broadcasting) of prediction, target and element-wise loss at every loss call "
                            "of learn of DQN / CQN / DDPG / TD3 / MADDPG / MATD3")


def run(chk: Check) -> None:
    rng = chk.rng
    quick = chk.tier == "quick"
    chk.rule = ("three suites on real agents with the smallest legal networks: 'loss' (learner x observation family x "
                "gamma x done pattern x pretraining: model loss from the networks' own outputs vs learn()'s return), "
                "'meta' (two identical clones learn from batch / batch with next_obs replaced on done rows only: "
                "bit-equal weights and loss; multi-agent batches with per-agent done flags judged agent by agent; RainbowDQN x 4 "
                "variants with independent 1-step/n-step done flags, toleranced loss/priorities/gradient/weights; 20% perturb "
                "a live row instead to show the test can see a difference), "
                "'track' (learner x tau in {small, .25, .5, 1} x policy_freq in {1,2,3} x prelude in {fresh, clone, "
                "learn->Mutations.mutation(none|param|act|rl_hp|arch)->learn for every learner, checkpoint load} x 2-7 consecutive learn steps + n direct soft updates: "
                "target_after vs blend(tau, online_after, target_before) over ALL tensors, model follows a sample); "
                "distinct = distinct case dict; non-trivial = a done row was present (loss/meta) or a target moved (track)")
    chk.assumptions = [
        "network forward passes, the optimiser step, the CQL regulariser and target-policy noise are inputs of the model",
        "float32 arithmetic: loss compared with relative tolerance 1e-5, blended weights with tolerance 1e-6 (absolute, "
        "relative to the operands where they exceed 1)",
        "RainbowDQN: target tracking and toleranced invariance of loss, priorities, gradient and weights under "
        "replacement of next_obs on done rows are checked here; the distributional target itself is C18",
        "after a checkpoint load, target tensors the round trip did not restore (property C07) are excluded from the "
        "first blend comparison and tagged",
        "torch CPU kernels compute each batch row independently of the other rows' values (bit-equality of the metamorphic pair)",
    ]
    cases: list[tuple[dict, str | None]] = []
    for f in sorted((ROOT / "corpus" / "C08").glob("*.json")):
        c = json.loads(f.read_text())
        cases.append((c.get("case", c), f.name))
    # every learner at least once per suite, then random fill
    n_loss, n_meta, n_track = (12, 20, 62) if quick else (150, 230, 440)
    for nm in LOSS_ALGOS:                      # multi-agent ones with per-agent done flags
        cases.append((gen_loss_case(rng, chk.tier, nm, ma_dones=True), None))
    # Box action spaces with bounds that are not symmetric around zero (per-dimension and [0, 1]): the smoothed
    # target action has to be clipped to the TRUE bounds
    for nm, bounds in (("TD3", "perdim"), ("DDPG", "perdim"), ("TD3", "unit"), ("MATD3", "perdim"), ("MADDPG", "unit")):
        c = gen_loss_case(rng, chk.tier, nm, ma_dones=True)
        c["bounds"] = bounds
        if nm.startswith("MA"):
            c["action_kind"] = "box"
        cases.append((c, None))
    # double-Q with an online network that has left its target behind (greedy actions differ on live rows)
    for nm in ("CQN-double", "DQN-double", "CQN-double"):
        c = gen_loss_case(rng, chk.tier, nm)
        c["diverge"], c["pretrain"], c["tau"] = True, 2, rng.choice([0.5, 0.01])
        cases.append((c, None))
    # RainbowDQN's loss and priorities: combined_reward x PER x n_step, each term against a float64 projection
    for comb in (True, False):
        for per in (True, False):
            for ns in (1, 3, 5):
                cases.append(({"kind": "loss", "algo": "RainbowDQN", "family": rng.choice(["vector", "vector", "discrete"]),
                               "seed": rng.randrange(1 << 24), "gamma": rng.choice([0.9, 0.5, 0.99]), "tau": 0.5,
                               "pretrain": rng.choice([0, 1, 2]), "variant": "per_nstep" if per else "nstep",
                               "n_step": ns, "combined_reward": comb, "dones": gen_dones(rng, 8),
                               "n_dones": gen_dones(rng, 8)}, None))
    for variant in ("plain", "per"):
        cases.append(({"kind": "loss", "algo": "RainbowDQN", "family": "vector", "seed": rng.randrange(1 << 24),
                       "gamma": rng.choice([0.9, 0.5]), "tau": 0.5, "pretrain": 1, "variant": variant,
                       "n_step": rng.choice([1, 3]), "combined_reward": rng.choice([True, False]),
                       "dones": gen_dones(rng, 8)}, None))
    # directly after a checkpoint load into an agent that was constructed with DIFFERENT options (and after
    # Algo.load): the restored agent's loss against its own current attributes
    for nm in LOSS_ALGOS:
        if quick and nm == "MADDPG":
            continue
        c = gen_loss_case(rng, chk.tier, nm, ma_dones=True)
        c["load_into"] = "load_checkpoint"
        c["pretrain"] = max(1, c["pretrain"])
        if base_algo(nm) in ("DQN", "CQN"):
            c["diverge"] = True
        cases.append((c, None))
    for nm in ("DQN-double", "CQN-double", "TD3"):
        c = gen_loss_case(rng, chk.tier, nm)
        c["load_into"], c["pretrain"] = "classmethod", max(1, c["pretrain"])
        if base_algo(nm) in ("DQN", "CQN"):
            c["diverge"] = True
        cases.append((c, None))
    # cooperative batches: every agent is handed one and the same reward tensor object
    for nm in ("MATD3", "MADDPG"):
        c = gen_loss_case(rng, chk.tier, nm, ma_dones=True)
        c["team_reward"] = True
        cases.append((c, None))
    for _ in range(max(0, n_loss - len(LOSS_ALGOS))):
        cases.append((gen_loss_case(rng, chk.tier), None))
    n0 = len(cases)
    for nm in LOSS_ALGOS:
        c = gen_meta_case(rng, chk.tier, nm)
        c["perturb"] = "done"
        if base_algo(nm) in ("MADDPG", "MATD3"):
            c["ma_dones"] = gen_ma_dones(rng, 8)
            c["dones"] = list(c["ma_dones"][agents.AGENT_IDS[0]])
        cases.append((c, None))
    for variant in ("plain", "per", "nstep", "per_nstep") * (1 if quick else 10):   # RainbowDQN, independent
        c = gen_meta_case(rng, chk.tier, "RainbowDQN", variant)                       # 1-step / n-step dones
        c["perturb"] = "done"
        cases.append((c, None))
    # control: the same comparison must SEE a difference when a live row's next_obs is replaced
    for nm in ("DQN", "DDPG", "MADDPG") if quick else LOSS_ALGOS:
        c = gen_meta_case(rng, chk.tier, nm)
        c["perturb"], c["gamma"] = "live", 0.9
        cases.append((c, None))
    for variant in ("nstep", "per_nstep") if quick else ("plain", "per", "nstep", "per_nstep"):
        c = gen_meta_case(rng, chk.tier, "RainbowDQN", variant)
        c["perturb"], c["gamma"], c["family"] = "live", 0.9, "vector"
        cases.append((c, None))
    while len(cases) - n0 < n_meta:
        cases.append((gen_meta_case(rng, chk.tier), None))
    for nm in TRACK_ALGOS:
        cases.append((gen_track_case(rng, chk.tier, nm, "fresh"), None))
    for pre in ("clone", "load"):
        for nm in (TRACK_ALGOS if not quick else rng.sample(TRACK_ALGOS, 3) + ["DQN"]):
            cases.append((gen_track_case(rng, chk.tier, nm, pre), None))
    # clone of a TRAINED agent (target already behind the online network): every learner
    for nm in TRACK_ALGOS:
        if quick and nm.startswith("MA") and rng.random() < 0.5:
            continue
        c = gen_track_case(rng, chk.tier, nm, "clone")
        c["pretrain"], c["tau"], c["direct"] = 2, rng.choice([0.25, 0.01]), 0
        if base_algo(nm) in DELAYED:
            c["policy_freq"] = rng.choice([1, 2])
        c["steps"] = 2
        cases.append((c, None))
    # non-default constructor options, one at a time, read from the signatures
    uncovered = {}
    for nm in TRACK_ALGOS:
        if nm == "DQN-double":
            continue
        oc = gen_option_cases(rng, chk.tier, nm)
        if quick and nm.startswith("MA"):
            oc = rng.sample(oc, min(2, len(oc)))
        cases += [(c, None) for c in oc]
        unk = option_sweep(base_algo(nm))[1]
        if unk:
            uncovered[base_algo(nm)] = unk
    if uncovered:
        chk.notes.append(f"constructor options not covered by the option sweep: {uncovered}")
    # learn -> Mutations.mutation of EVERY kind -> learn steps, for every learner with a target network
    for nm in TRACK_ALGOS:
        kinds = list(MUT_KINDS)
        if quick and nm.startswith("MA"):
            kinds = rng.sample(kinds, 2)       # ~5 s per multi-agent case
        for k in kinds:
            cases.append((gen_track_case(rng, chk.tier, nm, "mut-" + k), None))
    # hard updates (tau = 1) under a policy delay: on the steps between two delay steps the targets must stay
    # bit-unchanged and must never share storage with the online networks
    for nm in TRACK_ALGOS:
        for pf in ((2, 3) if base_algo(nm) in DELAYED else (1,)):
            if quick and nm == "MATD3" and pf == 3:
                continue
            c = gen_track_case(rng, chk.tier, nm, "fresh")
            c["tau"], c["pretrain"], c["direct"] = 1.0, 0, 0
            if base_algo(nm) in DELAYED:
                c["policy_freq"] = pf
            c["steps"] = 4 if pf < 3 else 5
            if nm == "MADDPG":
                c["steps"] = 3
            cases.append((c, None))
    while sum(1 for c, _ in cases if c["kind"] == "track") < n_track:
        cases.append((gen_track_case(rng, chk.tier), None))
    counts = {"loss": [0, 0], "meta": [0, 0], "track": [0, 0], "shapes": [0, 0]}
    sensitive = [0, 0]
    for case, origin in cases:
        algo = base_algo(case["algo"])
        if agents.known_broken(algo, case.get("family", "vector")):
            chk.dist["skipped-known-broken-combo"] += 1
            continue
        res = run_case(chk, case)
        kind = case["kind"]
        counts[kind][0] += 1
        tags = res["tags"] + ([f"corpus-{origin}"] if origin else [])
        nontrivial = ("targets-moved" in tags) if kind == "track" else any(d == 1 for d in case.get("dones") or [])
        chk.case(case, nontrivial=nontrivial, tags=tags,
                 sample={k: v for k, v in case.items() if k != "dones"} | {"result": (res["impl"] or [res["detail"]])[-1:]})
        if "sensitive-live-row" in tags:
            sensitive[0] += 1
        if "INSENSITIVE-live-row" in tags:
            sensitive[1] += 1
        per_known = res["detail"].get("findings_per") if isinstance(res.get("detail"), dict) else None
        if per_known:
            chk.finding(FINDING_PER_BROADCAST, per_known[0], {"case": case, "oracle_problems": per_known,
                                                              "detail": res["detail"]})
        inputs_known = res["detail"].get("findings_inputs") if isinstance(res.get("detail"), dict) else None
        if inputs_known:
            chk.finding(FINDING_INPUT_ACTIONS, inputs_known[0], {"case": case, "oracle_problems": inputs_known,
                                                                 "detail": res["detail"]})
        known = res["detail"].get("findings") if isinstance(res.get("detail"), dict) else None
        if known and not res["problems"]:
            # only the analysed defect shows (the model disagrees on the same tensors): KNOWN-FINDING when
            # known_findings.json lists it as open, a violation otherwise
            counts[kind][1] += (not res["agree"])
            chk.finding(FINDING_SHARED_ENCODER, known[0], {"case": case, "impl": res["impl"], "model": res["model"],
                                                          "oracle_problems": known, "detail": res["detail"]})
        elif res["problems"] or not res["agree"]:
            counts[kind][1] += (not res["agree"])
            report(chk, case, res, kind)
    for k, (n, dd) in counts.items():
        if k != "shapes":               # corpus cases of kind shapes are accounted with suite bellman-shapes below
            chk.suite(f"bellman-{k}", n, dd)
    chk.corr["_corpus_shapes"] = counts["shapes"]
    chk.notes.append(f"metamorphic control: perturbing a LIVE row changed the outcome in {sensitive[0]} of "
                     f"{sensitive[0] + sensitive[1]} control cases")
    if sensitive[0] == 0 and sensitive[0] + sensitive[1] >= 3:
        raise InfraError("C08: the metamorphic comparison never saw a difference when a live row was perturbed (blind)")
    run_shapes(chk)
    if chk.tier == "thorough":
        selftest(chk)



# ----------------------------------------------------------------------------- suite 'shapes'
SHAPE_ALGOS = ("DQN", "DQN-double", "CQN", "CQN-double", "DDPG", "TD3", "MADDPG", "MATD3")


class n_actions:
    """build agents whose action space has `a` actions (Discrete(a)) / `a` dimensions (Box)"""

    def __init__(self, a: int):
        self.a = a

    def __enter__(self):
        self.orig = agents.act_space
        a, orig = self.a, self.orig

        def act_space(kind, variant=0):
            from gymnasium import spaces
            if kind == "discrete":
                return spaces.Discrete(a)
            if kind == "box":
                return spaces.Box(-1.0, 1.0, (a,), np.float32)
            return orig(kind, variant)
        agents.act_space = act_space
        return self

    def __exit__(self, *exc):
        agents.act_space = self.orig
        return False


class loss_hook:
    """records the shapes of the two tensors entering every `F.mse_loss` call (nn.MSELoss.forward goes through it)"""

    def __enter__(self):
        import torch.nn.functional as F
        self.F, self.orig, self.calls = F, F.mse_loss, []
        orig, calls = self.orig, self.calls

        def mse_loss(input, target, *a, **kw):
            calls.append((tuple(input.shape), tuple(target.shape)))
            return orig(input, target, *a, **kw)
        F.mse_loss = mse_loss
        return self

    def __exit__(self, *exc):
        self.F.mse_loss = self.orig
        return False


def _map_fields(batch, idx_key, fn):
    """the batch with field `idx_key` (2 reward / 4 done) of every agent mapped through fn"""
    names = {2: "reward", 4: "done"}
    form = agents.batch_form(batch)
    if form in ("tensordict", "dict"):
        batch = batch.clone() if hasattr(batch, "clone") else dict(batch)
        batch[names[idx_key]] = fn(batch[names[idx_key]])
        return batch
    items = list(batch)
    v = items[idx_key]
    items[idx_key] = {k: fn(t) for k, t in v.items()} if isinstance(v, dict) else fn(v)
    return agents.TupleBatch(tuple(items), form=form)


def run_shape_case(case: dict) -> dict:
    """(a) the real `learn` on a batch of B rows as the library's own buffers deliver it, with A actions: the shapes of
    the batch fields (the hypotheses of C08_source_translation_loss_shapes) and of the tensors entering every loss
    call (its conclusion: (B, 1) against (B, 1), exactly B loss entries);  (b) the same with reward / done flattened to
    (B,): error, or silent broadcast to (B, B) as C08_source_translation_flat_reward_broadcasts_witness states"""
    algo, B, A = case["algo"], int(case["B"]), int(case["A"])
    base = base_algo(algo)
    out = {"problems": [], "fields": {}, "calls": [], "flat": {}}
    with n_actions(A):
        c = {"algo": algo, "seed": case["seed"], "family": "vector", "opts": {"batch_size": B}}
        agent = build_agent(c)
        batch = agents.make_batch(agent, base, "vector", n=B, seed=int(case["seed"]) + 17, dones=[i % 2 for i in range(B)])
    _o, act, rew, _n, don = unpack(batch)
    for nm, f in (("reward", rew), ("done", don)):
        shapes = sorted({tuple(t.shape) for t in (f.values() if isinstance(f, dict) else [f])})
        out["fields"][nm] = shapes
        if shapes != [(B, 1)]:
            out["problems"].append(f"the library's buffer delivers `{nm}` with shape(s) {shapes}, the theorems assume ({B}, 1)")
    with loss_hook() as h:
        agent.learn(batch)
    out["calls"] = list(h.calls)
    want = 2 if base in ("TD3", "MATD3") else 1
    n_ag = len(agent.agent_ids) if base in ("MADDPG", "MATD3") else 1
    if len(h.calls) != want * n_ag:
        out["problems"].append(f"{len(h.calls)} loss calls observed, {want * n_ag} in the translation")
    for k, (sp, st) in enumerate(h.calls):
        if sp != (B, 1) or st != (B, 1):
            try:
                elem = tuple(torch.broadcast_shapes(sp, st))
            except RuntimeError:
                elem = None
            out["problems"].append(f"loss call {k}: prediction {sp} against target {st} (element-wise loss {elem}, "
                                   f"{int(np.prod(elem)) if elem else 0} entries for a batch of {B} rows); Lean: ({B}, 1) / ({B}, 1)")
    # (b) the other legal-looking layout
    for which, idx in (("reward", 2), ("done", 4)):
        with n_actions(A):
            agent2 = build_agent(c)
        flat = _map_fields(batch, idx, lambda t: t.reshape(-1))
        try:
            import warnings
            with loss_hook() as h2, warnings.catch_warnings():
                warnings.simplefilter("ignore")          # torch itself warns about the target size — and carries on
                agent2.learn(flat)
            obs = sorted({tuple(torch.broadcast_shapes(a, b)) for a, b in h2.calls})
            out["flat"][which] = {"outcome": "silent", "elementwise": obs}
            if obs != [(B, B)]:
                out.setdefault("model_differs", []).append(
                    f"flat `{which}` ({B},): the element-wise loss has shape(s) {obs}, the generated shape says ({B}, {B}) "
                    f"(C08_source_translation_flat_reward_broadcasts_witness)")
        except Exception as e:       # noqa: BLE001
            out["flat"][which] = {"outcome": "error", "type": type(e).__name__, "msg": str(e)[:120]}
    return out


def run_shapes(chk: Check) -> None:
    quick = chk.tier == "quick"
    combos = [(b, a) for b in (1, 2, 5) for a in (1, 2, 3)]
    n, dd = chk.corr.pop("_corpus_shapes", [0, 0])
    flat_seen = {}
    for algo in SHAPE_ALGOS:
        todo = combos if not quick else [combos[i] for i in sorted(chk.rng.sample(range(len(combos)), 3))] + [(1, 1)]
        for B, A in dict.fromkeys(todo):
            case = {"kind": "shapes", "suite": "shapes", "algo": algo, "B": B, "A": A, "seed": chk.rng.randrange(10 ** 6)}
            try:
                res = run_shape_case(case)
            except Exception as e:       # noqa: BLE001
                res = {"problems": [f"learn raised {type(e).__name__}: {str(e)[:200]} for a legal batch of {B} rows, {A} actions"],
                       "flat": {}, "calls": [], "fields": {}}
            n += 1
            chk.case(("shapes", algo, B, A), nontrivial=B > 1, sample={"algo": algo, "B": B, "A": A, "calls": res["calls"]},
                     tags=["shapes", algo, f"B={B}", f"A={A}"])
            for w, r in res["flat"].items():
                flat_seen.setdefault((base_algo(algo), w, r["outcome"] if r["outcome"] == "error" else
                                      "silent " + str(r.get("elementwise"))[:40].replace(str(B), "B")), 0)
            if res["problems"]:
                dd += 1
                chk.violation(f"C08 shapes: {algo} B={B} A={A}: {res['problems'][0]}", {"case": case, "problems": res["problems"],
                                                                                       "observed": res})
            elif res.get("model_differs"):
                dd += 1
                chk.violation(f"C08 shapes: {algo} B={B} A={A}: {res['model_differs'][0]}", {"case": case, "observed": res},
                              no_input=True)
    chk.suite("bellman-shapes", n, dd)
    chk.notes.append("shapes (b): reward / done handed over FLAT `(B,)` instead of the `(B, 1)` the library's buffers deliver: "
                     + "; ".join(f"{a} {w}: {o}" for (a, w, o) in sorted(flat_seen)))

# ----------------------------------------------------------------------------- self-test
def selftest(chk: Check) -> None:
    """seeded faults, each must be noticed by the suite that is supposed to see it"""
    from agilerl.algorithms import dqn as dqn_mod
    from agilerl.algorithms import ddpg as ddpg_mod
    DQN, DDPG = dqn_mod.DQN, ddpg_mod.DDPG
    caught = []

    def expect(label, cases):
        hit = False
        for c in cases:
            r = run_case(chk, c)
            if r["problems"] or not r["agree"]:
                hit = True
                break
        if not hit:
            raise InfraError(f"C08 self-test: seeded fault '{label}' was not noticed")
        caught.append(label)

    base = {"family": "vector", "seed": 4242, "gamma": 0.9, "tau": 0.5, "pretrain": 1,
            "dones": [0, 1, 0, 1, 1, 0, 0, 1]}
    # (1) the terminal mask is dropped from the DQN target
    orig_update = DQN.update

    def no_mask(self, obs, actions, rewards, next_obs, dones):
        return orig_update(self, obs, actions, rewards, next_obs, torch.zeros_like(dones))
    DQN.update = no_mask
    try:
        expect("(1-dones) dropped [metamorphic]", [{**base, "kind": "meta", "algo": "DQN", "perturb": "done"}])
        expect("(1-dones) dropped [loss]", [{**base, "kind": "loss", "algo": "DQN"}])
    finally:
        DQN.update = orig_update
    # (2) soft_update does nothing
    orig_soft = DQN.soft_update
    DQN.soft_update = lambda self: None
    try:
        expect("soft_update no-op", [{**base, "kind": "track", "algo": "DQN", "steps": 2, "prelude": "fresh", "direct": 0}])
    finally:
        DQN.soft_update = orig_soft
    # (3) tau and 1 - tau swapped
    orig_soft2 = DDPG.soft_update

    def swapped(self, net, target):
        for e, t in zip(net.parameters(), target.parameters()):
            t.data.copy_((1.0 - self.tau) * e.data + self.tau * t.data)
    DDPG.soft_update = swapped
    try:
        expect("tau and 1-tau swapped", [{**base, "kind": "track", "algo": "DDPG", "tau": 0.25, "policy_freq": 1,
                                          "share": False, "steps": 2, "prelude": "fresh", "direct": 0}])
    finally:
        DDPG.soft_update = orig_soft2
    # (4) the delay schedule is off by one (fires when counter % pf == 1)
    orig_learn_counter_cases = {**base, "kind": "track", "algo": "DDPG", "tau": 0.5, "policy_freq": 2,
                                "share": False, "steps": 3, "prelude": "fresh", "direct": 0}
    orig_learn = DDPG.learn

    def shifted(self, experiences, *a, **k):
        self.learn_counter += 1                       # enters one ahead ...
        try:
            return orig_learn(self, experiences, *a, **k)
        finally:
            self.learn_counter -= 1                   # ... but reports the documented counter
    DDPG.learn = shifted
    try:
        expect("delay schedule shifted by one", [orig_learn_counter_cases])
    finally:
        DDPG.learn = orig_learn
    # (5) soft_update keeps writing into a target network that a mutation pass has replaced
    from agilerl.algorithms import cqn as cqn_mod
    CQN = cqn_mod.CQN
    orig_soft3 = CQN.soft_update

    def cached(self):
        pairs = getattr(self, "_c08_pairs", None)
        if pairs is None or pairs[0] is not self.actor:
            pairs = (self.actor, list(zip(self.actor.parameters(), self.actor_target.parameters())))
            self._c08_pairs = pairs
        for e, t in pairs[1]:
            t.data.copy_(self.tau * e.data + (1.0 - self.tau) * t.data)
    CQN.soft_update = cached
    try:
        expect("soft_update writes into the target discarded by a mutation pass",
               [{**base, "kind": "track", "algo": "CQN", "steps": 2, "prelude": "mut-none", "direct": 0}])
    finally:
        CQN.soft_update = orig_soft3
    # (6) the n-step loss of prioritised Rainbow uses the 1-step done flags
    from agilerl.algorithms import dqn_rainbow as rb_mod
    Rainbow = rb_mod.RainbowDQN
    orig_rb = Rainbow.learn

    def wrong_flags(self, experiences, n_experiences=None, per=False):
        if per and n_experiences is not None:
            n_experiences = n_experiences.clone()
            n_experiences["done"] = experiences["done"].clone()
        return orig_rb(self, experiences, n_experiences=n_experiences, per=per)
    Rainbow.learn = wrong_flags
    try:
        expect("n-step loss built from the 1-step done flags",
               [{"kind": "meta", "algo": "RainbowDQN", "family": "vector", "seed": 4321 + i, "gamma": 0.9, "tau": 0.5,
                 "pretrain": 1, "variant": "per_nstep", "n_step": 3, "combined_reward": False,
                 "dones": [0, 1, 0, 0, 1, 0, 0, 0], "n_dones": [1, 0, 1, 0, 0, 1, 0, 1], "perturb": "done"}
                for i in range(3)])
    finally:
        Rainbow.learn = orig_rb
    # (7) multi-agent: every agent's done flag replaced by "all agents done"
    from agilerl.algorithms import matd3 as matd3_mod
    MATD3 = matd3_mod.MATD3
    orig_ma = MATD3.learn

    def joint_done(self, experiences):
        st, ac, rw, nx, dn = experiences
        joint = torch.stack(list(dn.values())).amin(dim=0)
        return orig_ma(self, (st, ac, rw, nx, {k: joint for k in dn}))
    MATD3.learn = joint_done
    ma = {"agent_0": [1, 1, 0, 1, 0, 1, 1, 0], "agent_1": [0, 0, 0, 1, 1, 0, 0, 0], "other_0": [0, 1, 0, 0, 0, 0, 1, 1]}
    try:
        expect("per-agent done flags replaced by the joint flag [loss]",
               [{**base, "kind": "loss", "algo": "MATD3", "action_kind": "box", "policy_freq": 1,
                 "dones": ma["agent_0"], "ma_dones": ma}])
        expect("per-agent done flags replaced by the joint flag [metamorphic]",
               [{**base, "kind": "meta", "algo": "MATD3", "action_kind": "box", "policy_freq": 1, "judge": 0,
                 "perturb": "done", "dones": ma["agent_0"], "ma_dones": ma}])
    finally:
        MATD3.learn = orig_ma
    # (8) target-policy smoothing clipped to [-max_action, max_action] instead of the action space
    from agilerl.algorithms import td3 as td3_mod
    TD3 = td3_mod.TD3
    orig_clamp = TD3.multi_dim_clamp

    def symmetric(self, mn, mx, x):
        if isinstance(mn, np.ndarray) and isinstance(mx, np.ndarray):
            mn = -mx
        return orig_clamp(self, mn, mx, x)
    TD3.multi_dim_clamp = symmetric
    try:
        expect("smoothed target action clipped symmetrically instead of to the action space",
               [{**base, "kind": "loss", "algo": "TD3", "bounds": "perdim", "policy_freq": 2, "share": False, "seed": 4242 + i}
                for i in range(3)])
    finally:
        TD3.multi_dim_clamp = orig_clamp
    # (9) hard update (tau = 1) by rebinding .data: target and online share storage
    orig_soft4 = DDPG.soft_update

    def rebinding(self, net, target):
        for e, t in zip(net.parameters(), target.parameters()):
            if self.tau >= 1.0:
                t.data = e.data
            else:
                t.data.copy_(self.tau * e.data + (1.0 - self.tau) * t.data)
    DDPG.soft_update = rebinding
    try:
        expect("tau = 1 fast path aliases target and online parameters",
               [{**base, "kind": "track", "algo": "DDPG", "tau": 1.0, "policy_freq": 2, "share": False, "steps": 4,
                 "pretrain": 0, "prelude": "fresh", "direct": 0}])
    finally:
        DDPG.soft_update = orig_soft4
    # (10) double-Q takes the greedy action from the target network
    orig_update2 = DQN.update

    def target_argmax(self, obs, actions, rewards, next_obs, dones):
        if not self.double:
            return orig_update2(self, obs, actions, rewards, next_obs, dones)
        self.double = False          # max_a Q_target(s', a) = Q_target(s', argmax_a Q_target(s', a))
        try:
            return orig_update2(self, obs, actions, rewards, next_obs, dones)
        finally:
            self.double = True
    DQN.update = target_argmax
    try:
        expect("double-Q greedy action taken from the target network",
               [{**base, "kind": "loss", "algo": "DQN-double", "diverge": True, "pretrain": 2, "seed": 4242 + i}
                for i in range(3)])
    finally:
        DQN.update = orig_update2
    # (11) clone() re-synchronises the target with the online network
    orig_clone = CQN.clone

    def resync_clone(self, *a, **k):
        c = orig_clone(self, *a, **k)
        c.actor_target.load_state_dict(c.actor.state_dict())
        return c
    CQN.clone = resync_clone
    try:
        expect("clone() throws the parent's lagging target away",
               [{**base, "kind": "track", "algo": "CQN", "tau": 0.25, "pretrain": 2, "steps": 2, "prelude": "clone", "direct": 0}])
    finally:
        CQN.clone = orig_clone
    # (12) a non-default configuration loses its special case: encoders re-shared although share_encoders=False
    from agilerl.utils.algo_utils import share_encoder_parameters as _share
    orig_learn2 = TD3.learn

    def reshare(self, experiences, *a, **k):
        out = orig_learn2(self, experiences, *a, **k)
        if out[0] is not None:
            _share(self.actor, self.critic_1, self.critic_2)
            _share(self.actor_target, self.critic_target_1, self.critic_target_2)
        return out
    TD3.learn = reshare
    try:
        expect("encoders re-shared on delay steps although share_encoders=False",
               [{**base, "kind": "track", "algo": "TD3", "tau": 0.25, "policy_freq": 2, "share": False, "steps": 3,
                 "pretrain": 0, "prelude": "fresh", "direct": 0}])
    finally:
        TD3.learn = orig_learn2
    # (13) the Bellman target is accumulated in place on the caller's reward tensor
    from agilerl.algorithms import maddpg as maddpg_mod
    MADDPG = maddpg_mod.MADDPG
    orig_ma2 = MADDPG.learn

    def inplace_rewards(self, experiences):
        out = orig_ma2(self, experiences)
        for r in {id(v): v for v in experiences[2].values()}.values():
            r += 0.125
        return out
    MADDPG.learn = inplace_rewards
    try:
        expect("learn writes into the caller's reward tensor",
               [{**base, "kind": "loss", "algo": "MADDPG", "action_kind": "box", "dones": ma["agent_0"], "ma_dones": ma}])
    finally:
        MADDPG.learn = orig_ma2
    chk.notes.append("self-test: detected " + "; ".join(caught))


# ----------------------------------------------------------------------------- replay
def replay(chk: Check, path: str) -> int:
    c = json.loads(open(path).read())
    c = c.get("replay", c)
    case = c.get("case", c)
    if case.get("kind") == "shapes" or case.get("suite") == "shapes":
        res = run_shape_case(case)
        print(json.dumps({"case": case, "observed": res}, indent=1, default=str))
        if res["problems"]:
            print(f"VIOLATION property=C08 replay={path}")
            print(f"  -> {res['problems'][0]}"[:600])
            return 1
        return 0
    res = run_case(chk, case)
    if isinstance(res["detail"], dict):
        res["problems"] = res["problems"] + list(res["detail"].get("findings", [])) + \
            list(res["detail"].get("findings_inputs", [])) + list(res["detail"].get("findings_per", []))
    print(json.dumps({"case": case, "agree_with_model": res["agree"], "oracle_problems": res["problems"],
                      "impl": res["impl"][-4:], "model": res["model"][-4:], "detail": res["detail"]},
                     indent=1, default=str))
    if res["problems"]:
        print(f"VIOLATION property=C08 replay={path}")
        print(f"  -> {res['problems'][0]}"[:600])
        return 1
    if not res["agree"]:
        print(f"VIOLATION property=C08 replay={path} no-failing-input-found")
        return 1
    return 0
